# setup: build the libTooling extractor (offline; links clang 14 by path)
CACHE ?= .cache
NLX := $(CACHE)/bin/nlx
all: $(NLX)
$(NLX): engine/nlx/nlx.cc
	mkdir -p $(CACHE)/bin
	clang++ $$(llvm-config-14 --cxxflags) -fno-rtti -O1 engine/nlx/nlx.cc -o $(NLX).tmp /usr/lib/llvm-14/lib/libclang-cpp.so.14 /usr/lib/llvm-14/lib/libLLVM-14.so
	mv $(NLX).tmp $(NLX)
