"""A1 — whole-program call graph with field/table-based resolution of indirect
calls, and bottom-up effect summaries (may_raise, may_run_lpc, may_destruct, may_free_ip)."""
import facts
from facts import strip, walk, show


class CallGraph:
    def __init__(self, prog):
        self.prog = prog
        self.funcs = {}  # name -> [Func]
        for f in prog.functions():
            self.funcs.setdefault(f.name, []).append(f)
        self.field_targets = {}  # field name -> set(func names)
        self.table_targets = {}  # global array name -> set(func names)
        self.param_targets = {}  # (callee name, param index) -> set(func names) passed at call sites
        self.edges = {}  # caller name -> set(callee names)
        self.unresolved = []  # (caller, expr text, line)
        self.higher_order = set()
        self.null_args = set()
        self.nonnull_args = set()
        self.sites = {}  # callee -> [(caller Func, block, idx, node)]
        self._build()

    def _collect_stores(self):
        # function addresses stored into fields / tables / passed as arguments
        for u in self.prog.units.values():
            for g in u.header["globals"]:
                if "init" in g:
                    names = {n["n"] for n in walk(g["init"]) if n.get("k") == "Ref" and n.get("d") == "func"}
                    if names:
                        self.table_targets.setdefault(g["n"], set()).update(names)
        for fl in self.funcs.values():
            for f in fl:
                for b, i, n in f.nodes():
                    k = n.get("k")
                    if k == "Asg" and n.get("op") == "=":
                        r = strip(n["R"])
                        if r.get("k") == "Un" and r.get("op") == "&":
                            r = strip(r["e"])
                        if r.get("k") == "Ref" and r.get("d") == "func":
                            l = strip(n["L"])
                            if l.get("k") == "Mem":
                                self.field_targets.setdefault(l["f"], set()).add(r["n"])
                            elif l.get("k") == "Ref":
                                self.field_targets.setdefault("var:" + l["n"], set()).add(r["n"])
                            elif l.get("k") == "Sub":
                                b0 = strip(l["b"])
                                if b0.get("k") == "Ref":
                                    self.table_targets.setdefault(b0["n"], set()).add(r["n"])
                    elif k == "Call" and n.get("fn"):
                        for ai, a in enumerate(n.get("args", [])):
                            if facts.const_val(a) == 0:
                                self.null_args.add((n["fn"], ai))
                            else:
                                self.nonnull_args.add((n["fn"], ai))
                            a0 = strip(a)
                            if a0.get("k") == "Un" and a0.get("op") == "&":
                                a0 = strip(a0["e"])
                            if a0.get("k") == "Ref" and a0.get("d") == "func":
                                self.param_targets.setdefault((n["fn"], ai), set()).add(a0["n"])
                    elif k == "Decl":
                        for v in n.get("vars", []):
                            if "init" in v:
                                names = {x["n"] for x in walk(v["init"]) if x.get("k") == "Ref" and x.get("d") == "func"}
                                if names and ("(*" in v.get("t", "") or "[" in v.get("t", "")):
                                    self.field_targets.setdefault("var:" + v["n"], set()).update(names)

    def _propagate_params(self):
        """Function pointers forwarded through parameters and stored into fields from parameters."""
        fwd = []   # ((g, j) -> (h, i)) g passes its parameter j as argument i of h
        fld = []   # ((g, j) -> field)
        for fl in self.funcs.values():
            for f in fl:
                for b, i, n in f.nodes():
                    k = n.get("k")
                    if k == "Call" and n.get("fn"):
                        for ai, a in enumerate(n.get("args", [])):
                            a0 = strip(a)
                            if a0.get("k") == "Ref" and a0.get("d") == "param" and "(*" in a0.get("t", ""):
                                fwd.append(((f.name, a0.get("pi")), (n["fn"], ai)))
                    elif k == "Asg" and n.get("op") == "=":
                        r = strip(n["R"])
                        l = strip(n["L"])
                        if r.get("k") == "Ref" and r.get("d") == "param" and "(*" in r.get("t", "") and l.get("k") == "Mem":
                            fld.append(((f.name, r.get("pi")), l["f"]))
        self.fwd = fwd
        changed = True
        while changed:
            changed = False
            for src, dst in fwd:
                t = self.param_targets.get(src)
                if t and not t <= self.param_targets.get(dst, set()):
                    self.param_targets.setdefault(dst, set()).update(t)
                    changed = True
                if src in self.null_args and src not in self.nonnull_args and src not in self.param_targets and dst not in self.null_args:
                    self.null_args.add(dst)
                    self.nonnull_args.discard(dst)
                    changed = True
            for src, field in fld:
                t = self.param_targets.get(src)
                if t and not t <= self.field_targets.get(field, set()):
                    self.field_targets.setdefault(field, set()).update(t)
                    changed = True

    def resolve_indirect(self, f, n):
        fe = strip(n.get("fe"))
        while isinstance(fe, dict) and fe.get("k") == "Un" and fe.get("op") == "*":
            fe = strip(fe["e"])
        if not isinstance(fe, dict):
            return None
        k = fe.get("k")
        if k == "Mem" and fe.get("f") == "error_handler":
            # T_ERROR_HANDLER slots live on the value stack only (LPC code cannot create them, containers never hold
            # them): the dispatch in free_svalue() fires when such a slot is released, i.e. in the function that
            # pushed it (it has its own edge to the handler through the address-of store) or when an error unwinds
            # the stack (restore_context(), which gets the edges in _build).  Resolving it at every caller of
            # free_svalue() would make every release of any value "run" destruct_object().
            self.stack_handlers = set(self.field_targets.get("error_handler") or ())
            return set()
        if k == "Mem":
            t = self.field_targets.get(fe["f"])
            if t:
                return t
        if k == "Sub":
            b = strip(fe["b"])
            if b.get("k") == "Ref":
                t = self.table_targets.get(b["n"]) or self.field_targets.get("var:" + b["n"])
                if t:
                    return t
            if b.get("k") == "Mem":
                t = self.field_targets.get(b["f"])
                if t:
                    return t
        if k == "Ref":
            if fe.get("d") == "param":
                t = self.param_targets.get((f.name, fe.get("pi")))
                if t:
                    return t
                key = (f.name, fe.get("pi"))
                if key in self.null_args and key not in self.nonnull_args:
                    return set()  # every caller passes NULL: never called
            t = self.field_targets.get("var:" + fe["n"]) or self.table_targets.get(fe["n"])
            if t:
                return t
        if k == "Cond":
            out = set()
            for br in (fe["a"], fe["b"]):
                br = strip(br)
                if br.get("k") == "Ref" and br.get("d") == "func":
                    out.add(br["n"])
            if out:
                return out
        return None

    def _build(self):
        self._collect_stores()
        self._propagate_params()
        # error unwinding runs the handlers parked on the value stack; so does the function that parks one
        hs = set(self.field_targets.get("error_handler") or ())
        if hs:
            self.edges.setdefault("restore_context", set()).update(hs)
            for name, fl in self.funcs.items():
                for f in fl:
                    for b, i, n in f.nodes():
                        if n.get("k") == "Asg" and n.get("op") == "=" and strip(n["L"]).get("k") == "Mem" and strip(n["L"]).get("f") == "error_handler":
                            r = strip(n["R"])
                            if r.get("k") == "Un" and r.get("op") == "&":
                                r = strip(r["e"])
                            if r.get("k") == "Ref" and r.get("d") == "func":
                                self.edges.setdefault(name, set()).add(r["n"])
        for name, fl in self.funcs.items():
            es = self.edges.setdefault(name, set())
            for f in fl:
                for b, i, n in f.nodes():
                    if n.get("k") != "Call":
                        continue
                    if n.get("fn"):
                        es.add(n["fn"])
                        self.sites.setdefault(n["fn"], []).append((f, b, i, n))
                        # a function passed as an argument may be called on behalf of this caller
                        for a in n.get("args", []):
                            a0 = strip(a)
                            if a0.get("k") == "Un" and a0.get("op") == "&":
                                a0 = strip(a0["e"])
                            if a0.get("k") == "Ref" and a0.get("d") == "func":
                                es.add(a0["n"])
                    else:
                        fe0 = strip(n.get("fe"))
                        while isinstance(fe0, dict) and fe0.get("k") == "Un" and fe0.get("op") == "*":
                            fe0 = strip(fe0["e"])
                        if isinstance(fe0, dict) and fe0.get("k") == "Ref" and fe0.get("d") == "param" and self.param_targets.get((f.name, fe0.get("pi"))):
                            # call through a function-pointer parameter (qsort-style): attributed to the call sites that
                            # pass the function (context-sensitive), see the `func argument` edges below
                            self.higher_order.add(f.name)
                            continue
                        t = self.resolve_indirect(f, n)
                        if t is None:
                            self.unresolved.append((f.name, show(n)[:80], n.get("l")))
                            es.add("<unknown>")
                        else:
                            es.update(t)
                            for x in t:
                                self.sites.setdefault(x, []).append((f, b, i, n))

    def _close_higher_order(self):
        """a function that forwards its function-pointer parameter to a higher-order function is one itself"""
        changed = True
        while changed:
            changed = False
            for (g, j), (h, i) in getattr(self, "fwd", []):
                if h in self.higher_order and g not in self.higher_order:
                    self.higher_order.add(g)
                    changed = True

    def callees_of_call(self, f, n):
        if not getattr(self, "_ho_closed", False):
            self._ho_closed = True
            self._close_higher_order()
        """Possible callee names of one call node."""
        if n.get("fn"):
            out = {n["fn"]}
            if n["fn"] in self.higher_order:
                # qsort-style callee: the functions handed over as arguments run on behalf of this call
                for a in n.get("args", []):
                    a0 = strip(a)
                    if a0.get("k") == "Un" and a0.get("op") == "&":
                        a0 = strip(a0["e"])
                    if a0.get("k") == "Ref" and a0.get("d") == "func":
                        out.add(a0["n"])
            return out
        return self.resolve_indirect(f, n) or {"<unknown>"}

    def snoop_edges(self):
        """(caller, callee) pairs where the caller's only use of the apply family is the snooper's hook
        (first argument APPLY_RECEIVE_SNOOP): receive_snoop() itself and functions that inline it."""
        if getattr(self, "_snoop_edges", None) is not None:
            return self._snoop_edges
        out = set()
        fam = ("apply", "apply_low", "safe_apply")
        for name, fl in self.funcs.items():
            sites = [n for f in fl for b, i, n in f.calls() if n.get("fn") in fam]
            if not sites:
                continue
            def is_snoop(n):
                a = n.get("args", [None])[0]
                a0 = strip(a) if a is not None else {}
                return (a0.get("k") == "Str" and a0.get("s") == "receive_snoop") or "RECEIVE_SNOOP" in str(a0.get("m") or "") + str((a or {}).get("m") or "")
            if all(is_snoop(n) for n in sites):
                for n in sites:
                    out.add((name, n["fn"]))
        self._snoop_edges = out
        return out

    def reaches(self, seeds, barriers=(), cut_edges=()):
        """Set of function names that may (transitively) call a seed; edges out of `barriers` are cut, and so
        are the individual (caller, callee) edges in cut_edges."""
        rev = {}
        cut_edges = set(cut_edges)
        for a, bs in self.edges.items():
            if a in barriers:
                continue
            for b in bs:
                if (a, b) in cut_edges:
                    continue
                rev.setdefault(b, set()).add(a)
        seen = set(seeds)
        st = list(seeds)
        while st:
            x = st.pop()
            for p in rev.get(x, ()):
                if p not in seen:
                    seen.add(p)
                    st.append(p)
        return seen

    def reachable_from(self, roots, barriers=()):
        seen = set()
        st = list(roots)
        while st:
            x = st.pop()
            if x in seen:
                continue
            seen.add(x)
            if x in barriers:
                continue
            st.extend(self.edges.get(x, ()))
        return seen


# functions that establish their own recovery point and never let an error escape
# fatal() never returns to its caller and never unwinds into an LPC error context
CATCH_BARRIERS = {"safe_apply", "safe_call_function_pointer", "safe_apply_master_ob", "fatal"}
RAISE_SEEDS = {"error", "error_handler", "throw_error", "longjmp", "_longjmp", "siglongjmp", "bad_arg", "bad_argument"}
LPC_SEEDS = {"eval_instruction", "call_program"}


class Effects:
    def __init__(self, cg):
        self.cg = cg
        self.may_raise = cg.reaches(RAISE_SEEDS | {"<unknown>"}, barriers=CATCH_BARRIERS)
        # fatal() runs the master's crash() but never returns to its caller
        self.may_run_lpc = cg.reaches(LPC_SEEDS | {"<unknown>"}, barriers={"fatal"})
        self.may_destruct = cg.reaches({"destruct_object"} | LPC_SEEDS | {"<unknown>"}, barriers={"fatal"})
        self.may_free_ip = cg.reaches({"remove_interactive"} | LPC_SEEDS | {"<unknown>"}, barriers={"fatal"})

    def call_may_raise(self, f, n):
        return bool(self.cg.callees_of_call(f, n) & self.may_raise)

    def call_may_run_lpc(self, f, n):
        return bool(self.cg.callees_of_call(f, n) & self.may_run_lpc)


def why(cg, start, seeds, barriers=()):
    """Shortest call chain from start to any seed (for reports)."""
    prev = {start: None}
    q = [start]
    qi = 0
    while qi < len(q):
        x = q[qi]
        qi += 1
        if x in seeds and x != start:
            out = []
            while x is not None:
                out.append(x)
                x = prev[x]
            return list(reversed(out))
        if x in barriers:
            continue
        for y in sorted(cg.edges.get(x, ())):
            if y not in prev:
                prev[y] = x
                q.append(y)
    return None
