"""CFG queries shared by the rules (A2 guard dominance, edge facts, master-approval gates)."""
import facts
from facts import strip, const_val, normalize_cond, atom_of, show, walk


def reach_set(f, starts, avoid_blocks=(), avoid_edges=()):
    """All blocks reachable from `starts` (entered at block start)."""
    avoid_blocks = set(avoid_blocks)
    avoid_edges = set(avoid_edges)
    seen = set()
    st = [s for s in starts if s is not None and s not in avoid_blocks]
    while st:
        b = st.pop()
        if b in seen:
            continue
        seen.add(b)
        for s in f.blocks[b].live_succ():
            if s in seen or s in avoid_blocks or (b, s) in avoid_edges:
                continue
            st.append(s)
    return seen


def guards(f, bid):
    """Branch facts that hold whenever block `bid` is entered: for every
    branching block B that strictly dominates bid, if bid can be reached from
    only one of B's two out-edges (without passing B again), the atom holds
    with that truth.  Returns [(cond expr, truth, B id)]."""
    cache = f.__dict__.setdefault("_guards", {})
    if bid in cache:
        return cache[bid]
    out = []
    idom = f.dom()
    b = idom.get(bid)
    chain = []
    cur = bid
    while cur in idom and idom[cur] != cur:
        cur = idom[cur]
        chain.append(cur)
    for B in chain:
        blk = f.blocks[B]
        c = f.branch_cond(blk)
        if c is None:
            continue
        s_true, s_false = blk.succ[0], blk.succ[1]
        can_t = s_true is not None and (s_true == bid or bid in reach_set(f, [s_true], avoid_blocks=[B]))
        can_f = s_false is not None and (s_false == bid or bid in reach_set(f, [s_false], avoid_blocks=[B]))
        if s_true is not None and s_true == s_false:
            continue
        if can_t and not can_f:
            out.append((c, True, B))
        elif can_f and not can_t:
            out.append((c, False, B))
    cache[bid] = out
    return out


def switch_guard(f, bid):
    """Case labels under which block bid executes: for the nearest dominating
    SwitchStmt block, the set of case-successor blocks from which bid is
    reachable without passing the switch again.  Returns (switch block, [labels]) or None."""
    idom = f.dom()
    cur = bid
    while cur in idom and idom[cur] != cur:
        cur = idom[cur]
        blk = f.blocks[cur]
        if blk.term and blk.term["k"] == "SwitchStmt":
            labs = []
            for s in blk.live_succ():
                if s == bid or bid in reach_set(f, [s], avoid_blocks=[cur]):
                    labs.append(f.blocks[s].label)
            return cur, labs
    return None


def is_null_test(c, truth, pred):
    """If (c,truth) states that expression X (pred(X) true) is NULL/zero, return 'null';
    non-NULL -> 'nonnull'; else None."""
    op, l, r = atom_of(c, truth)
    if op in ("true", "false"):
        if pred(strip(l)):
            return "nonnull" if op == "true" else "null"
        return None
    if op in ("==", "!="):
        x = None
        if const_val(r) == 0 and pred(strip(l)):
            x = l
        elif const_val(l) == 0 and pred(strip(r)):
            x = r
        if x is not None:
            return "null" if op == "==" else "nonnull"
    return None


def master_deny_edges(f, macro="MASTER_APPROVED"):
    """Edges on which a MASTER_APPROVED(x) test fails: x is NULL, or x->u.number is 0.
    Returns [(block id, succ id)] over the whole function."""
    out = []
    for bid in f.reachable():
        blk = f.blocks[bid]
        c = f.branch_cond(blk)
        if c is None:
            continue
        c0, _ = normalize_cond(c, True)
        c0 = strip(c0)
        inm = any(macro in (n.get("m") or ()) for n in walk(c0))
        if not inm:
            continue
        k = c0.get("k")
        # which truth value of the *stripped* atom means denial
        deny_truth = None
        if k == "Ref":
            deny_truth = False
        elif k == "Mem" and c0.get("f") == "number":
            deny_truth = False
        if deny_truth is None:
            continue
        # map back through the leading '!'s
        _, t = normalize_cond(c, True)  # truth of c0 when c is true
        # c true <=> c0 == t ; we want the edge where c0 == deny_truth
        edge_truth_of_c = (deny_truth == t)
        s = blk.succ[0] if edge_truth_of_c else blk.succ[1]
        if s is not None:
            out.append((bid, s))
    return out


def approved_only(f, site_block, apply_macro, apply_fn=("apply_master_ob", "safe_apply_master_ob")):
    """True iff block site_block is reachable only after a master apply whose first
    argument comes from macro `apply_macro`, and not reachable from any edge on
    which the MASTER_APPROVED test of that function fails. Returns (ok, why)."""
    applies = []
    for b, i, n in f.calls():
        if n.get("fn") in apply_fn and n.get("args") and facts.any_in_macro(n["args"][0], apply_macro):
            applies.append(b.id)
    if not applies:
        # shape 3: the question is put by a file-local predicate - it makes the apply and returns MASTER_APPROVED(result)
        # (or 0) on every path - and the site lies behind the true edge of a call of it
        for b, i, n in f.calls():
            h = f.unit.funcs.get(n.get("fn")) if getattr(f, "unit", None) is not None else None
            h = getattr(h, "plain", h)
            if h is None or not h.static:
                continue
            if not any(c.get("fn") in apply_fn and c.get("args") and facts.any_in_macro(c["args"][0], apply_macro) for b2, i2, c in h.calls()):
                continue
            rets = [e["e"] for b2, i2, e in h.elements() if e.get("k") == "Return" and "e" in e]
            if not rets or not all(const_val(r) == 0 or any("MASTER_APPROVED" in (x.get("m") or ()) for x in walk(r)) for r in rets):
                continue
            for c, truth, B in guards(f, site_block):
                e, t = normalize_cond(c, truth)
                e = strip(e)
                if t and e.get("k") == "Call" and e.get("fn") == h.name:
                    return True, "behind the true edge of %s(), which asks the master (%s) and answers MASTER_APPROVED(result)" % (h.name, apply_macro)
        return False, "no %s apply in %s" % (apply_macro, f.name)
    p = f.reach_avoiding([f.entry], lambda blk: blk.id == site_block, avoid_blocks=applies)
    if p is not None and site_block not in applies:
        return False, "path %s reaches the site without the %s apply" % (p, apply_macro)
    # shape 1: the site is guarded by a whole MASTER_APPROVED(x) expression known to be true
    # (if (!MASTER_APPROVED(ret)) return; ... site)
    for c, truth, B in guards(f, site_block):
        e, t = normalize_cond(c, truth)
        e = strip(e)
        if t and "MASTER_APPROVED" in (e.get("m") or ()) and e.get("k") == "Bin" and e.get("op") == "||":
            if any(B == a or B in reach_set(f, [a]) for a in applies):
                return True, "guarded by MASTER_APPROVED(...) true at block %d after the %s apply" % (B, apply_macro)
    # shape 2: if (MASTER_APPROVED(ret)) site; -- short-circuit edges
    deny = master_deny_edges(f)
    if not deny:
        return False, "no MASTER_APPROVED test found"
    for (b, s) in deny:
        # only denial edges that lie after the apply matter
        if not any(b == a or b in reach_set(f, [a]) for a in applies):
            continue
        if s == site_block or site_block in reach_set(f, [s], avoid_blocks=applies):
            return False, "site reachable from the denial edge %d->%d" % (b, s)
    return True, "dominated by the %s apply and unreachable from its denial edges" % apply_macro


def block_of(f, pred):
    """First (block, idx, node) whose node satisfies pred."""
    for b, i, n in f.nodes():
        if pred(n):
            return b, i, n
    return None


def reach_consistent(f, starts, dst_pred, key_of, avoid_edges=(), avoid_blocks=()):
    """Like Func.reach_avoiding, but paths must give one truth value to each tracked
    atom: key_of(cond_stripped) -> hashable key or None.  State = frozenset of (key, truth).
    Used to drop paths that take `if (x)` false and later `if (x)` true (x not reassigned)."""
    avoid_edges = set(avoid_edges)
    avoid_blocks = set(avoid_blocks)
    seen = set()
    q = [(s, frozenset(), (s,)) for s in starts if s is not None and s not in avoid_blocks]
    while q:
        b, st, path = q.pop()
        if (b, st) in seen:
            continue
        seen.add((b, st))
        blk = f.blocks[b]
        if dst_pred(blk):
            return list(path)
        c = f.branch_cond(blk)
        key = None
        t0 = True
        if c is not None:
            e, t0 = normalize_cond(c, True)
            key = key_of(strip(e))
        for idx, s in enumerate(blk.succ):
            if s is None or s in avoid_blocks or (b, s) in avoid_edges:
                continue
            st2 = st
            if key is not None and len(blk.succ) == 2:
                truth = (idx == 0) == t0  # truth of the stripped atom on this edge
                d = dict(st)
                if key in d and d[key] != truth:
                    continue
                d[key] = truth
                st2 = frozenset(d.items())
            q.append((s, st2, path + (s,)))
    return None
