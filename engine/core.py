"""Check harness: obligations, frozen instance counts, known findings, evidence,
exit codes (0 held / 1 violation / 2 analysis broken)."""
import json
import os
import sys
import time

VERIF = os.path.dirname(os.path.dirname(os.path.abspath(__file__)))
REPO = os.environ.get("NEOLITH_REPO", "/repo").rstrip("/")
EVDIR = os.environ.get("VERIF_EVIDENCE_DIR", os.path.join(VERIF, "evidence"))


def rel(p):
    """Path relative to the analysed repository root (stable instance ids)."""
    if p and p.startswith(REPO + "/"):
        return p[len(REPO) + 1:]
    return p


class Broken(Exception):
    """Analysis broken: anchor vanished, unit unparsable, instance count below frozen minimum."""


class Run:
    def __init__(self, pid, tier, seed):
        self.pid = pid
        self.tier = tier
        self.seed = seed
        self.t0 = time.time()
        self.obls = []  # dicts
        self.rule_desc = {}
        self.rule_min = {}
        self.notes = []
        self.units = set()
        self.functions = set()
        self.call_sites = 0
        self.undecided = []
        self.extra = {}
        self.assumptions = []

    # ---- declaring rules
    def rule(self, rule, desc, min_instances=1):
        self.rule_desc[rule] = desc
        self.rule_min[rule] = min_instances

    def saw(self, func):
        """Record that a function was analysed."""
        if func is None:
            return
        self.functions.add("%s:%s" % (rel(func.file), func.name))
        self.units.add(rel(func.unit.path if func.unit else func.file))

    def need(self, thing, what):
        """Anchor must exist."""
        if thing is None or thing is False or (isinstance(thing, (list, tuple, set, dict)) and len(thing) == 0):
            raise Broken("anchor vanished: " + what)
        return thing

    # ---- obligations
    def ob(self, rule, inst, ok, detail, file=None, line=None, func=None, what=None):
        """Record one obligation. ok: True (discharged) / False (violated) / None (undecided)."""
        if rule not in self.rule_desc:
            raise Broken("internal: undeclared rule " + rule)
        file = rel(file)
        self.obls.append({"rule": rule, "instance": inst, "ok": ok, "detail": detail, "file": file, "line": line,
                          "func": func, "what": what or detail})
        return ok

    def note(self, s):
        self.notes.append(s)

    # ---- finishing
    def finish(self):
        known_path = os.path.join(VERIF, "known_findings.json")
        known = {"known": [], "fixed": []}
        if os.path.exists(known_path):
            known = json.load(open(known_path))
        known_ids = {(k["property"], k["instance"]): k for k in known.get("known", [])}

        counts = {}
        for o in self.obls:
            c = counts.setdefault(o["rule"], {"instances": 0, "discharged": 0, "violated": 0, "undecided": 0})
            c["instances"] += 1
            if o["ok"] is True:
                c["discharged"] += 1
            elif o["ok"] is False:
                c["violated"] += 1
            else:
                c["undecided"] += 1
        # frozen minimum counts: a rule that matches fewer sites than confirmed by hand is broken
        for r, mn in self.rule_min.items():
            got = counts.get(r, {}).get("instances", 0)
            if got < mn:
                raise Broken("rule %s matched %d instances, frozen minimum is %d (anchor moved or rule blind)" % (r, got, mn))

        violated = [o for o in self.obls if o["ok"] is False]
        new_viol = []
        matched_known = []
        for o in violated:
            k = known_ids.get((self.pid, o["instance"]))
            if k is not None:
                matched_known.append((o, k))
            else:
                new_viol.append(o)

        rdir = os.path.join(EVDIR, "replay")
        os.makedirs(rdir, exist_ok=True)
        for fn in os.listdir(rdir):
            if fn.startswith(self.pid + "-"):
                os.remove(os.path.join(rdir, fn))
        for o, k in matched_known:
            print("KNOWN-FINDING: property=%s %s [%s] at %s:%s" % (self.pid, k.get("what", o["what"]), o["instance"], o["file"], o["line"]))
        replay_paths = []
        for i, o in enumerate(new_viol):
            rp = os.path.join(EVDIR, "replay", "%s-%d.json" % (self.pid, i))
            json.dump({"property": self.pid, "rule": o["rule"], "rule_text": self.rule_desc[o["rule"]],
                       "instance": o["instance"], "file": o["file"], "line": o["line"], "function": o["func"],
                       "detail": o["detail"],
                       "reevaluate": "./check %s --replay %s" % (self.pid, rp)}, open(rp, "w"), indent=1)
            replay_paths.append(rp)
            print("  %s:%s: [%s] %s — %s" % (o["file"], o["line"], o["rule"], o["instance"], o["detail"]))
            print("VIOLATION property=%s replay=%s" % (self.pid, rp))

        und = [o for o in self.obls if o["ok"] is None]
        n_obl = len(self.obls)
        n_dis = sum(1 for o in self.obls if o["ok"] is True)
        # samples: a deterministic selection influenced by the seed
        samples = []
        per_rule_seen = {}
        step = max(1, n_obl // 40)
        for idx, o in enumerate(self.obls):
            c = per_rule_seen.get(o["rule"], 0)
            if c < 2 or (idx + self.seed) % step == 0:
                per_rule_seen[o["rule"]] = c + 1
                if len(samples) < 80:
                    samples.append({"rule": o["rule"], "instance": o["instance"], "site": "%s:%s" % (o["file"], o["line"]),
                                    "verdict": {True: "discharged", False: "violated", None: "undecided"}[o["ok"]],
                                    "by": o["detail"]})
        ev = {
            "property_id": self.pid,
            "tier": self.tier,
            "seed": self.seed,
            "level": "other",
            "coverage": {
                "explanation": "Static analysis over clang-14 CFG/AST facts extracted from /repo's working tree on this run. "
                               "Each obligation is one rule instance (site) decided from the resolved program; "
                               "a pass means no site in scope violates the listed structural clauses, not that the behavioural property holds. Rules: "
                               + " | ".join("%s: %s" % kv for kv in sorted(self.rule_desc.items())),
                "obligations": n_obl,
                "discharged": n_dis,
                "undecided": len(und),
                "violated_known": len(matched_known),
                "violated_new": len(new_viol),
                "evaluations": n_obl,
                "distinct_nontrivial": len({o["instance"] for o in self.obls}),
                "rule": "one obligation per rule instance enumerated from the extracted program facts; distinct = distinct instance ids",
                "per_rule": counts,
                "frozen_minimum_instances": self.rule_min,
                "units": sorted(self.units),
                "functions_analysed": len(self.functions),
                "functions": sorted(self.functions)[:400],
                "samples": samples,
                "undecided_instances": [{"rule": o["rule"], "instance": o["instance"], "why": o["detail"]} for o in und][:60],
                "checker_cmd": "./check %s --tier %s" % (self.pid, self.tier),
                "trusted_base": ["clang 14 parser and CFG builder", "compile database derived from /repo's CMake build (ninja -t compdb)",
                                 "NO_RETURN annotations in /repo", "hand-confirmed tables under engine/tables and in the rule modules"],
                "exhaustive": True,
                "notes": self.notes,
            },
            "assumptions": ["clang's CFG faithfully represents control flow (setjmp/longjmp edges are modelled by the rules, not by the CFG)",
                            "indirect calls resolve to the functions stored in the same field/table (field-based resolution)"] + self.assumptions,
            "wall_s": round(time.time() - self.t0, 2),
            "violations": len(new_viol),
        }
        ev["coverage"].update(self.extra)
        os.makedirs(EVDIR, exist_ok=True)
        tmp = os.path.join(EVDIR, self.pid + ".json.tmp")
        json.dump(ev, open(tmp, "w"), indent=1)
        os.replace(tmp, os.path.join(EVDIR, self.pid + ".json"))
        print("%s [%s]: %d obligations, %d discharged, %d undecided, %d known findings, %d new violations (%.1fs)" % (
            self.pid, self.tier, n_obl, n_dis, len(und), len(matched_known), len(new_viol), time.time() - self.t0))
        for r in sorted(counts):
            c = counts[r]
            print("   %-8s %4d instances  %4d ok  %3d violated  %3d undecided   %s" % (r, c["instances"], c["discharged"], c["violated"], c["undecided"], self.rule_desc[r][:90]))
        return 1 if new_viol else 0
