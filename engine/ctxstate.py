"""A3 — typestate of error_context_t locals (used by C05-a, C09-a/e, C10-b).

States of one error_context_t object along a path:
  fresh   never saved (or save_context failed)
  saved   save_context succeeded, jmp_buf not yet armed
  armed   setjmp executed (normal return)
  jumped  control re-entered through the non-zero setjmp return; restore_context not yet run
  recovered  restore_context has run on the jump branch (context still registered, jmp_buf still valid)
  popped  pop_context done
The analysis carries the *set* of possible states (finite lattice, join = union).
"""
import facts
from dataflow import solve
from facts import strip, walk, show, const_val, normalize_cond

SETJMP = {"setjmp", "_setjmp", "__sigsetjmp", "sigsetjmp", "__builtin_setjmp"}
CTX_API = {"save_context", "restore_context", "pop_context"} | SETJMP


def ctx_var_of(arg):
    """&econ -> key of econ ; econ.context -> key of econ"""
    a = strip(arg)
    if not isinstance(a, dict):
        return None
    if a.get("k") == "Un" and a.get("op") == "&":
        a = strip(a["e"])
    if a.get("k") == "Mem" and a.get("f") in ("context",):
        a = strip(a["b"])
    if a.get("k") == "Sub":  # jmp_buf decays: econ.context[0]
        return ctx_var_of(a["b"])
    if a.get("k") == "Ref" and "error_context" in a.get("t", ""):
        return (a["n"], a.get("id"))
    return None


class CtxAnalysis:
    def __init__(self, f, effects):
        self.f = f
        self.eff = effects
        self.vars = set()
        for b, i, n in f.nodes():
            if n.get("k") == "Call" and n.get("fn") in CTX_API and n.get("args"):
                v = ctx_var_of(n["args"][0])
                if v is not None:
                    self.vars.add(v)
        self.events = []  # recorded during final pass

    def call_effect(self, st, n, record, blk, idx):
        fn = n.get("fn")
        if fn in CTX_API and n.get("args"):
            v = ctx_var_of(n["args"][0])
            if v is None:
                return st
            cur = st.get(v, frozenset(["fresh"]))
            if fn == "save_context":
                if record:
                    self.events.append(("save", v, blk, idx, n, cur))
                new = frozenset(["saved"])  # result-0 edge is refined in edge()
            elif fn in SETJMP:
                if record:
                    self.events.append(("setjmp", v, blk, idx, n, cur))
                new = frozenset(["armed" if s in ("saved", "armed", "jumped", "recovered") else s for s in cur])
            elif fn == "restore_context":
                if record:
                    self.events.append(("restore", v, blk, idx, n, cur))
                new = frozenset(["recovered" if s == "jumped" else s for s in cur])
            else:  # pop_context
                if record:
                    self.events.append(("pop", v, blk, idx, n, cur))
                new = frozenset(["popped"])
            st = dict(st)
            st[v] = new
            return st
        if record:
            for v in self.vars:
                cur = st.get(v, frozenset(["fresh"]))
                if cur & {"saved", "armed", "jumped", "recovered"}:
                    self.events.append(("call", v, blk, idx, n, cur))
        return st

    def transfer(self, record):
        def t(blk, st):
            for i, e in enumerate(blk.el):
                for n in walk(e, True):
                    k = n.get("k")
                    if k == "Call":
                        st = self.call_effect(st, n, record, blk, i)
                    elif k == "Return" and record:
                        self.events.append(("return", None, blk, i, n, dict(st)))
            return st
        return t

    def edge(self, blk, idx, succ, st):
        c = self.f.branch_cond(blk)
        if c is None:
            return st
        truth = idx == 0
        e, t = normalize_cond(c, truth)
        e = strip(e)
        # comparisons with 0
        if e.get("k") == "Bin" and e.get("op") in ("==", "!=") and const_val(e["R"]) == 0:
            t = t if e["op"] == "!=" else not t
            e = strip(e["L"])
        if e.get("k") == "Asg":
            e = strip(e["R"])
        if e.get("k") == "Call" and e.get("args"):
            v = ctx_var_of(e["args"][0])
            if v is not None:
                if e.get("fn") in SETJMP:
                    st = dict(st)
                    st[v] = frozenset(["jumped"]) if t else frozenset(s for s in st.get(v, frozenset()) if s != "jumped") or frozenset(["armed"])
                elif e.get("fn") == "save_context":
                    st = dict(st)
                    st[v] = frozenset(["saved"]) if t else frozenset(["fresh"])
        return st

    def run(self):
        def join(a, b):
            out = dict(a)
            for k, v in b.items():
                out[k] = out.get(k, frozenset(["fresh"])) | v
            for k in a:
                if k not in b:
                    out[k] = a[k] | frozenset(["fresh"])
            return out
        init = {v: frozenset(["fresh"]) for v in self.vars}
        ins = solve(self.f, init, self.transfer(False), self.edge, join)
        tr = self.transfer(True)
        self.ins = ins
        for b in sorted(self.f.reachable(), reverse=True):
            if b in ins:
                out = tr(self.f.blocks[b], ins[b])
                if self.f.exit in self.f.blocks[b].live_succ() and not self.f.blocks[b].nr:
                    self.events.append(("exit", None, self.f.blocks[b], len(self.f.blocks[b].el), None, dict(out)))
        return self
