"""A3 — typestate of error_context_t locals (used by C05-a, C09-a/e, C10-b).

States of one error_context_t object along a path:
  fresh   never saved (or save_context failed)
  saved   save_context succeeded, jmp_buf not yet armed
  armed   setjmp executed (normal return)
  jumped  control re-entered through the non-zero setjmp return; restore_context not yet run
  recovered  restore_context has run on the jump branch (context still registered, jmp_buf still valid)
  popped  pop_context done
The analysis carries the *set* of possible states (finite lattice, join = union).
"""
import facts
from dataflow import solve
from facts import strip, walk, show, const_val, normalize_cond

SETJMP = {"setjmp", "_setjmp", "__sigsetjmp", "sigsetjmp", "__builtin_setjmp"}
CTX_API = {"save_context", "restore_context", "pop_context"} | SETJMP

# functions that are restore_context() for their context parameter: name -> {"ctx": parameter index,
# "lower": index of the parameter subtracted from save_sp before the restore, or None}.  Filled by
# find_restore_wrappers() from the program (nothing is listed by hand).
RESTORE_WRAPPERS = {}


def find_restore_wrappers(prog, effects=None):
    """A function is a restore wrapper when every path from its entry to its exit passes through
    restore_context(P) with P its own error_context_t* parameter, and nothing that may raise or run LPC
    precedes that call."""
    RESTORE_WRAPPERS.clear()
    for f in prog.functions():
        if f.name in ("restore_context", "save_context", "pop_context"):
            continue
        cps = [p for p in (f.params or []) if "error_context" in (p.get("t") or "")]
        if not cps:
            continue
        for cp in cps:
            sites = [(b, i, n) for b, i, n in f.calls("restore_context")
                     if n.get("args") and strip(n["args"][0]).get("k") == "Ref" and strip(n["args"][0]).get("d") == "param" and strip(n["args"][0]).get("n") == cp.get("n")]
            if not sites:
                continue
            blocks = {b.id for b, i, n in sites}
            if f.reach_avoiding([f.entry], lambda b: f.exit in b.live_succ() and not b.nr, avoid_blocks=blocks) is not None or f.entry in blocks and False:
                continue
            # nothing but the restore and plain stores
            others = [n for b, i, n in f.calls() if n.get("fn") != "restore_context"]
            if others:
                continue
            lower = None
            for b, i, n in f.nodes():
                if n.get("k") == "Asg" and n.get("op") == "-=" and strip(n["L"]).get("k") == "Mem" and strip(n["L"]).get("f") == "save_sp":
                    r = strip(n["R"])
                    if r.get("k") == "Ref" and r.get("d") == "param":
                        lower = r.get("pi")
            RESTORE_WRAPPERS[f.name] = {"ctx": cp.get("pi", 0), "lower": lower}
    return RESTORE_WRAPPERS


def ctx_var_of(arg):
    """&econ -> key of econ ; econ.context -> key of econ"""
    a = strip(arg)
    if not isinstance(a, dict):
        return None
    if a.get("k") == "Un" and a.get("op") == "&":
        a = strip(a["e"])
    if a.get("k") == "Mem" and a.get("f") in ("context",):
        a = strip(a["b"])
    if a.get("k") == "Sub":  # jmp_buf decays: econ.context[0]
        return ctx_var_of(a["b"])
    if a.get("k") == "Ref" and "error_context" in a.get("t", ""):
        return (a["n"], a.get("id"))
    return None


class CtxAnalysis:
    def __init__(self, f, effects):
        self.f = f
        self.eff = effects
        self.vars = set()
        for b, i, n in f.nodes():
            if n.get("k") == "Call" and n.get("fn") in CTX_API and n.get("args"):
                v = ctx_var_of(n["args"][0])
                if v is not None:
                    self.vars.add(v)
        self.events = []  # recorded during final pass

    def call_effect(self, st, n, record, blk, idx):
        fn = n.get("fn")
        if fn in RESTORE_WRAPPERS and len(n.get("args") or []) > RESTORE_WRAPPERS[fn]["ctx"]:
            n = dict(n, args=[n["args"][RESTORE_WRAPPERS[fn]["ctx"]]])
            fn = "restore_context"
        if fn in CTX_API and n.get("args"):
            v = ctx_var_of(n["args"][0])
            if v is None:
                return st
            cur = st.get(v, frozenset(["fresh"]))
            if fn == "save_context":
                if record:
                    self.events.append(("save", v, blk, idx, n, cur))
                new = frozenset(["saved"])  # result-0 edge is refined in edge()
            elif fn in SETJMP:
                if record:
                    self.events.append(("setjmp", v, blk, idx, n, cur))
                new = frozenset(["armed" if s in ("saved", "armed", "jumped", "recovered") else s for s in cur])
            elif fn == "restore_context":
                if record:
                    self.events.append(("restore", v, blk, idx, n, cur))
                new = frozenset(["recovered" if s == "jumped" else s for s in cur])
            else:  # pop_context
                if record:
                    self.events.append(("pop", v, blk, idx, n, cur))
                new = frozenset(["popped"])
            st = dict(st)
            st[v] = new
            return st
        if record:
            for v in self.vars:
                cur = st.get(v, frozenset(["fresh"]))
                if cur & {"saved", "armed", "jumped", "recovered"}:
                    self.events.append(("call", v, blk, idx, n, cur))
        return st

    def transfer(self, record):
        def t(blk, st):
            for i, e in enumerate(blk.el):
                for n in walk(e, True):
                    k = n.get("k")
                    if k == "Call":
                        st = self.call_effect(st, n, record, blk, i)
                    elif k == "Return" and record:
                        self.events.append(("return", None, blk, i, n, dict(st)))
            return st
        return t

    def edge(self, blk, idx, succ, st):
        c = self.f.branch_cond(blk)
        if c is None:
            return st
        truth = idx == 0
        e, t = normalize_cond(c, truth)
        e = strip(e)
        # comparisons with 0
        if e.get("k") == "Bin" and e.get("op") in ("==", "!=") and const_val(e["R"]) == 0:
            t = t if e["op"] == "!=" else not t
            e = strip(e["L"])
        if e.get("k") == "Asg":
            e = strip(e["R"])
        if e.get("k") == "Call" and e.get("args"):
            v = ctx_var_of(e["args"][0])
            if v is not None:
                if e.get("fn") in SETJMP:
                    st = dict(st)
                    st[v] = frozenset(["jumped"]) if t else frozenset(s for s in st.get(v, frozenset()) if s != "jumped") or frozenset(["armed"])
                elif e.get("fn") == "save_context":
                    st = dict(st)
                    st[v] = frozenset(["saved"]) if t else frozenset(["fresh"])
        return st

    def run(self):
        def join(a, b):
            out = dict(a)
            for k, v in b.items():
                out[k] = out.get(k, frozenset(["fresh"])) | v
            for k in a:
                if k not in b:
                    out[k] = a[k] | frozenset(["fresh"])
            return out
        init = {v: frozenset(["fresh"]) for v in self.vars}
        ins = solve(self.f, init, self.transfer(False), self.edge, join)
        tr = self.transfer(True)
        self.ins = ins
        for b in sorted(self.f.reachable(), reverse=True):
            if b in ins:
                out = tr(self.f.blocks[b], ins[b])
                if self.f.exit in self.f.blocks[b].live_succ() and not self.f.blocks[b].nr:
                    self.events.append(("exit", None, self.f.blocks[b], len(self.f.blocks[b].el), None, dict(out)))
        return self
