"""Generic forward worklist solver over a Func's CFG.

State type is opaque; the client gives
  init            state at function entry
  transfer(block, state, visit) -> state after the block's elements
                  (visit(i, elem, state_before) may be None; when given it is
                  called during the *final* pass to let rules inspect states)
  edge(block, succ_index, succ_id, state) -> state on that edge (branch refinement) or None to kill the edge
  join(a, b) -> state
Iterates to a fixed point (states must form a finite-height lattice)."""


def solve(func, init, transfer, edge=None, join=None, max_iter=400000):
    blocks = func.blocks
    in_state = {func.entry: init}
    work = [func.entry]
    onwork = {func.entry}
    it = 0
    while work:
        it += 1
        if it > max_iter:
            raise RuntimeError("dataflow did not converge in %s" % func.name)
        b = work.pop()
        onwork.discard(b)
        blk = blocks[b]
        out = transfer(blk, in_state[b])
        for idx, s in enumerate(blk.succ):
            if s is None:
                continue
            st = out
            if edge is not None:
                st = edge(blk, idx, s, out)
                if st is None:
                    continue
            if s not in in_state:
                in_state[s] = st
                changed = True
            else:
                new = join(in_state[s], st)
                changed = new != in_state[s]
                if changed:
                    in_state[s] = new
            if changed and s not in onwork:
                work.append(s)
                onwork.add(s)
    return in_state


# ---- a common state shape: dict key -> frozenset(tags); missing key = empty set


def join_union(a, b):
    if a is b:
        return a
    out = dict(a)
    for k, v in b.items():
        cur = out.get(k)
        out[k] = v if cur is None else (cur | v)
    return out
