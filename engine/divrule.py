"""Signed division of script-controlled integers (used by C01-m and C02-l).

On the hosts the driver runs on, the quotient MIN / -1 (and the remainder MIN % -1) of a signed machine
integer traps (SIGFPE on x86): the process dies where the worst outcome must be an LPC or compile error.
Every `/`, `%`, `/=`, `%=` that is evaluated in a signed integer type and whose divisor is a value an
LPC program (or its source text) chooses must therefore be reached only when the divisor is known not
to be -1 (or the dividend not the minimum).

A site is in scope when its divisor reads an LPC number (`.number` member of an svalue or of a parse
node), a local that was assigned from one, or when the function is one of the explicitly named
expression evaluators of the preprocessor."""
import cfgq
from facts import strip, show, walk, const_val, atom_of
from stale import implied_atoms

SIGNED = ("int", "long", "long long", "short", "signed char", "char")


def _unq(t):
    return (t or "").replace("const ", "").replace("volatile ", "").strip()


def _number_read(e):
    return any(x.get("k") == "Mem" and x.get("f") == "number" for x in walk(e))


def _tainted_locals(f):
    """locals/params assigned (anywhere in f) from an expression reading `.number`"""
    out = set()
    changed = True
    defs = []
    for b, i, n in f.nodes():
        if n.get("k") == "Asg" and n.get("op") == "=" and strip(n["L"]).get("k") == "Ref":
            defs.append((strip(n["L"]).get("id"), n["R"]))
        elif n.get("k") == "Decl":
            for v in n.get("vars", []):
                if "init" in v:
                    defs.append((v.get("id"), v["init"]))
    while changed:
        changed = False
        for vid, r in defs:
            if vid in out:
                continue
            if _number_read(r) or any(x.get("k") == "Ref" and x.get("id") in out and x.get("d") in ("local", "param") for x in walk(r)):
                out.add(vid)
                changed = True
    return out


def sites(prog, in_scope_file, evaluators=()):
    """yield (f, block, idx, node, divisor expr, why-in-scope)"""
    for f in sorted(prog.functions(), key=lambda x: (x.file, x.line)):
        if not in_scope_file(f.file):
            continue
        tainted = None
        for b, i, n in f.nodes():
            k, op = n.get("k"), n.get("op")
            if not ((k == "Bin" and op in ("/", "%")) or (k == "Asg" and op in ("/=", "%="))):
                continue
            t = _unq(n.get("ct") or n.get("t"))
            if t not in SIGNED:
                continue
            d = n["R"]
            d0 = strip(d)
            if _unq(d0.get("t")) not in SIGNED and _unq(d.get("t")) not in SIGNED:
                continue
            if const_val(d) is not None:
                continue
            why = None
            if _number_read(d):
                why = "divisor reads an LPC number"
            else:
                if tainted is None:
                    tainted = _tainted_locals(f)
                if any(x.get("k") == "Ref" and x.get("id") in tainted and x.get("d") in ("local", "param") for x in walk(d)):
                    why = "divisor is a local assigned from an LPC number"
                elif f.name in evaluators:
                    why = "%s evaluates source-text arithmetic" % f.name
            if why:
                yield f, b, i, n, d, why


def _excludes_minus_one(op, r):
    k = const_val(r)
    if k is None:
        return False
    return (op == "!=" and k == -1) or (op == ">" and k >= -1) or (op == ">=" and k >= 0)


def guarded(f, b, i, n, d):
    """True when a dominating branch fact excludes divisor == -1 and the divisor's variables are not
    changed between that test and the division; returns (verdict, detail)."""
    dtext = show(strip(d))
    dvars = {(x.get("d"), x.get("n")) for x in walk(d) if x.get("k") == "Ref"}
    for c, truth, B in cfgq.guards(f, b.id):
        for a, tr in implied_atoms(c, truth):
            op, l, r = atom_of(a, tr)
            if l is None or r is None:
                continue
            if show(strip(l)) != dtext or not _excludes_minus_one(op, r):
                continue
            # no write to the divisor's variables on the way from the test to the division
            blkB = f.blocks[B]
            succ = blkB.succ[0] if truth else blkB.succ[1]
            # blocks on a path from the tested edge to the division that does not go through the test again
            between = cfgq.reach_set(f, [succ], avoid_blocks=[b.id, B]) if succ != b.id else set()
            between = {x for x in between if b.id in cfgq.reach_set(f, [x], avoid_blocks=[B])}
            dirty = None
            for x in sorted(between | {b.id}):
                for j, e in enumerate(f.blocks[x].el):
                    if x == b.id and j >= i:
                        break
                    for m in walk(e, True):
                        tgt = None
                        if m.get("k") == "Asg":
                            tgt = strip(m["L"])
                        elif m.get("k") == "Un" and m.get("op") in ("++", "--"):
                            tgt = strip(m.get("e"))
                        if tgt is not None and tgt.get("k") == "Ref" and (tgt.get("d"), tgt.get("n")) in dvars:
                            dirty = (tgt.get("n"), m.get("l"))
            if dirty is None:
                return True, "`%s` excluded -1 by the test at line %s" % (dtext, strip(c).get("l"))
    return False, "no dominating test excludes `%s == -1`" % dtext


def clamped_dividend(f, n):
    """the dividend is a local that this function clamps to be non-negative (`if (v < 0) v = 0`): the trap needs
    the most negative dividend, so the site is not a certain violation; the range itself is not decided here"""
    v = strip(n["L"])
    if v.get("k") != "Ref" or v.get("d") not in ("local", "param"):
        return 0
    clamps = 0
    for bid in f.reachable():
        c = f.branch_cond(bid)
        if c is None:
            continue
        op, l, r = atom_of(c, True)
        if op == "<" and r is not None and const_val(r) == 0 and strip(l).get("id") == v.get("id"):
            t = f.blocks[bid].succ[0]
            if t is not None and any(m.get("k") == "Asg" and m.get("op") == "=" and strip(m["L"]).get("id") == v.get("id") and (const_val(m["R"]) or 0) >= 0 and const_val(m["R"]) is not None
                                     for e in f.blocks[t].el for m in walk(e, True)):
                clamps += 1
    return clamps


def check(run, prog, rule, in_scope_file, evaluators=(), minimum=1):
    n_sites = 0
    for f, b, i, n, d, why in sites(prog, in_scope_file, evaluators):
        n_sites += 1
        run.saw(f)
        ok, detail = guarded(f, b, i, n, d)
        if not ok:
            k = clamped_dividend(f, n)
            if k:
                ok, detail = None, "no test excludes `%s == -1`, but the dividend `%s` is clamped to >= 0 at %d place(s) in %s and the trap needs the most negative dividend: range not decided" % (show(strip(d)), show(strip(n["L"])), k, f.name)
        from core import rel
        run.ob(rule, "div:%s:%s:%s" % (rel(f.file), f.name, show(strip(n))[:60]), ok,
               "%s (%s)" % (detail, why) if ok is not False else
               "`%s` at line %s is a signed %s division whose divisor a script chooses (%s) and %s: MIN %s -1 traps (SIGFPE) and takes the driver down" % (
                   show(strip(n))[:80], n.get("l"), _unq(n.get("t")), why, detail, n.get("op").rstrip("=")),
               f.file, n.get("l"), f.name, what="%s divides by a script-chosen value without excluding -1" % f.name)
    run.need(n_sites >= minimum, "signed divisions by script-chosen values (found %d)" % n_sites)
