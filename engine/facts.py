"""Fact base: loads nlx output, gives CFG helpers (preds, dominators, avoid-set
reachability, edge atoms), expression helpers (walk, show, access paths) and a
whole-program index."""
import json
import os
import sys

sys.setrecursionlimit(10000)

BRANCH_TERMS = ("IfStmt", "WhileStmt", "ForStmt", "DoStmt", "BinaryOperator", "ConditionalOperator",
                "BinaryConditionalOperator")


def norm(p):
    return os.path.normpath(p) if p else p


# ---------------------------------------------------------------- expressions

CHILD_KEYS = ("b", "L", "R", "e", "i", "c", "a", "fe", "obj", "init")


def children(e):
    """Direct sub-expressions of a node, in evaluation-ish order."""
    if not isinstance(e, dict):
        return
    k = e.get("k")
    if k == "Cond":
        for key in ("c", "a", "b"):
            if isinstance(e.get(key), dict):
                yield e[key]
        return
    if k == "Decl":
        for v in e.get("vars", ()):
            if isinstance(v.get("init"), dict):
                yield v["init"]
        return
    for key in ("fe", "obj", "b", "L", "R", "e", "i"):
        v = e.get(key)
        if isinstance(v, dict):
            yield v
    for key in ("args", "c"):
        v = e.get(key)
        if isinstance(v, list):
            for x in v:
                if isinstance(x, dict):
                    yield x


def walk(e, skip_cf=False):
    """Pre-order walk. With skip_cf the operands of && || ?: (already evaluated in
    their own CFG blocks) are not entered."""
    if not isinstance(e, dict):
        return
    yield e
    if skip_cf and e.get("cf"):
        return
    for c in children(e):
        if skip_cf and "x" in c:
            continue  # evaluated earlier as its own CFG element
        yield from walk(c, skip_cf)


def strip(e):
    """Strip casts."""
    while isinstance(e, dict) and e.get("k") in ("ICast", "Cast"):
        e = e["e"]
    return e


def show(e, depth=0):
    if e is None:
        return "∅"
    if not isinstance(e, dict):
        return str(e)
    if depth > 12:
        return "…"
    k = e.get("k")
    d = depth + 1
    if k == "Ref":
        return e.get("n", "?")
    if k == "Mem":
        return show(e["b"], d) + ("->" if e.get("a") else ".") + e["f"]
    if k in ("Bin", "Asg"):
        return "%s %s %s" % (show(e["L"], d), e["op"], show(e["R"], d))
    if k == "Un":
        if e.get("post"):
            return show(e["e"], d) + e["op"]
        return e["op"] + show(e["e"], d)
    if k == "Call":
        f = e.get("fn") or "(*%s)" % show(e.get("fe"), d)
        return "%s(%s)" % (f, ", ".join(show(a, d) for a in e.get("args", [])))
    if k == "Sub":
        return "%s[%s]" % (show(e["b"], d), show(e["i"], d))
    if k == "Cond":
        return "(%s ? %s : %s)" % (show(e["c"], d), show(e["a"], d), show(e["b"], d))
    if k in ("ICast",):
        return show(e["e"], d)
    if k == "Cast":
        return "(%s)%s" % (e.get("t"), show(e["e"], d))
    if k == "Int":
        m = e.get("m")
        return m[-1] if m else str(e.get("v"))
    if k == "Float":
        return str(e.get("fv"))
    if k == "Str":
        return json.dumps(e.get("s", ""))[:60]
    if k == "Sizeof":
        return "sizeof(%s)" % (show(e["e"], d) if "e" in e else e.get("of"))
    if k == "Decl":
        return "; ".join("%s %s%s" % (v.get("t"), v.get("n"), " = " + show(v["init"], d) if "init" in v else "")
                         for v in e.get("vars", []))
    if k == "Return":
        return "return " + (show(e["e"], d) if "e" in e else "")
    if k == "Init":
        return "{…}"
    return "<%s>" % k


def access_path(e):
    """Canonical access path of an lvalue-ish expression as a tuple, or None.
    (sp-1)->type, sp[-1].type and (*(sp-1)).type compare equal:
    ('sp', ('off', -1), ('f','type'))."""
    e = strip(e)
    if not isinstance(e, dict):
        return None
    k = e.get("k")
    if k == "Ref":
        if e.get("d") in ("local", "param", "slocal"):
            return (("v", e["n"], e.get("id")),)
        return (("g", e["n"]),)
    if k == "Mem":
        b = e["b"]
        if e.get("a"):
            p = pointer_path(b)
        else:
            p = access_path(b)
        if p is None:
            return None
        return p + (("f", e["f"]),)
    if k == "Sub":
        p = pointer_path(e["b"])
        if p is None:
            p = access_path(e["b"])  # array lvalue
            if p is None:
                return None
        iv = const_val(e["i"])
        return p + (("off", iv if iv is not None else show(e["i"])),)
    if k == "Un" and e["op"] == "*":
        p = pointer_path(e["e"])
        if p is None:
            return None
        return p + (("off", 0),)
    return None


def pointer_path(e):
    """Path of the object pointed to by pointer expression e, minus the final
    offset: returns the path of the pointer itself with a pending offset folded
    by the caller.  sp-1 -> (('g','sp'),) with offset -1 is represented as
    (('g','sp'), ('+', -1))."""
    e = strip(e)
    if not isinstance(e, dict):
        return None
    k = e.get("k")
    if k == "Bin" and e["op"] in ("+", "-"):
        lp = pointer_path(e["L"]) if is_pointer_t(e["L"]) else None
        if lp is not None:
            iv = const_val(e["R"])
            off = iv if iv is not None else show(e["R"])
            if e["op"] == "-":
                off = -off if isinstance(off, int) else "-(" + off + ")"
            return lp + (("+", off),)
        return None
    if k == "Un" and e["op"] == "&":
        return access_path(e["e"])
    return access_path(e)


def is_pointer_t(e):
    e = strip(e) if isinstance(e, dict) and e.get("k") == "ICast" else e
    t = (e or {}).get("t", "") if isinstance(e, dict) else ""
    return t.endswith("*") or t.endswith("]")


def const_val(e):
    if isinstance(e, dict):
        if "v" in e:
            return e["v"]
        if e.get("k") in ("ICast", "Cast"):
            return const_val(e["e"])
        if e.get("k") == "Un" and e.get("op") == "-":
            v = const_val(e["e"])
            return -v if v is not None else None
    return None


def calls_in(e, skip_cf=True):
    for n in walk(e, skip_cf):
        if n.get("k") == "Call":
            yield n


def in_macro(e, name):
    return name in (e.get("m") or ())


def any_in_macro(e, name):
    for n in walk(e):
        if name in (n.get("m") or ()):
            return True
    return False


# ---------------------------------------------------------------- functions


class Block:
    __slots__ = ("id", "el", "succ", "pruned", "term", "label", "nr", "preds")

    def __init__(self, d):
        self.id = d["id"]
        self.el = d.get("el", [])
        self.succ = []
        self.pruned = []
        for s in d.get("succ", []):
            if s is None:
                self.succ.append(None)
            elif s < 0:
                self.succ.append(None)
                self.pruned.append(-s - 1)
            else:
                self.succ.append(s)
        self.term = d.get("term")
        self.label = d.get("label")
        self.nr = bool(d.get("nr"))
        self.preds = []

    def live_succ(self):
        return [s for s in self.succ if s is not None]


class Func:
    def __init__(self, d, unit):
        self.unit = unit
        self._raw = d
        self.name = d["fn"]
        self.qname = d.get("qfn", self.name)
        self.file = norm(d["file"])
        self.line = d["l"]
        self.end = d.get("le", self.line)
        self.static = d.get("static", False)
        self.noreturn = d.get("nr", False)
        self.rt = d.get("rt")
        self.params = d.get("params", [])
        self.cfg_failed = d.get("cfg_failed", False)
        self.blocks = {}
        self.entry = d.get("entry")
        self.exit = d.get("exit")
        for b in d.get("blocks", []):
            blk = Block(b)
            self.blocks[blk.id] = blk
        for b in self.blocks.values():
            for s in b.live_succ():
                self.blocks[s].preds.append(b.id)
        self._dom = None
        self._pdom = None
        self._reach = None

    @property
    def id(self):
        return self.name if not self.static else "%s:%s" % (os.path.basename(self.file), self.name)

    # -- reachability
    def reachable(self):
        if self._reach is None:
            seen = set()
            st = [self.entry]
            while st:
                b = st.pop()
                if b in seen:
                    continue
                seen.add(b)
                st.extend(self.blocks[b].live_succ())
            self._reach = seen
        return self._reach

    def elements(self, reachable_only=True):
        """Yield (block, index, element) in block id order (descending = source order)."""
        rs = self.reachable() if reachable_only else None
        for bid in sorted(self.blocks, reverse=True):
            if rs is not None and bid not in rs:
                continue
            b = self.blocks[bid]
            for i, e in enumerate(b.el):
                yield b, i, e

    def nodes(self, skip_cf=True, reachable_only=True):
        """Yield (block, index, node) for every expression node of every element."""
        for b, i, e in self.elements(reachable_only):
            for n in walk(e, skip_cf):
                yield b, i, n

    def calls(self, name=None, reachable_only=True):
        for b, i, n in self.nodes(True, reachable_only):
            if n.get("k") == "Call" and (name is None or n.get("fn") == name or
                                         (isinstance(name, (set, frozenset, tuple, list)) and n.get("fn") in name)):
                yield b, i, n

    # -- dominators (iterative, Cooper-Harvey-Kennedy)
    def _compute_dom(self, entry, succ_of, pred_of):
        order = []
        seen = set()
        st = [(entry, iter(succ_of(entry)))]
        seen.add(entry)
        while st:
            n, it = st[-1]
            adv = False
            for s in it:
                if s not in seen:
                    seen.add(s)
                    st.append((s, iter(succ_of(s))))
                    adv = True
                    break
            if not adv:
                order.append(n)
                st.pop()
        rpo = list(reversed(order))
        idx = {n: i for i, n in enumerate(rpo)}
        idom = {entry: entry}

        def inter(a, b):
            while a != b:
                while idx[a] > idx[b]:
                    a = idom[a]
                while idx[b] > idx[a]:
                    b = idom[b]
            return a

        changed = True
        while changed:
            changed = False
            for n in rpo[1:]:
                ps = [p for p in pred_of(n) if p in idom and p in idx]
                if not ps:
                    continue
                new = ps[0]
                for p in ps[1:]:
                    new = inter(p, new)
                if idom.get(n) != new:
                    idom[n] = new
                    changed = True
        return idom

    def dom(self):
        if self._dom is None:
            self._dom = self._compute_dom(self.entry, lambda b: self.blocks[b].live_succ(),
                                          lambda b: self.blocks[b].preds)
        return self._dom

    def pdom(self):
        if self._pdom is None:
            self._pdom = self._compute_dom(self.exit, lambda b: self.blocks[b].preds,
                                           lambda b: self.blocks[b].live_succ())
        return self._pdom

    def dominates(self, a, b):
        """block a dominates block b (reflexive)."""
        idom = self.dom()
        if b not in idom:
            return False
        while True:
            if a == b:
                return True
            nb = idom.get(b)
            if nb is None or nb == b:
                return False
            b = nb

    def point_dominates(self, pa, pb):
        (ba, ia), (bb, ib) = pa, pb
        if ba == bb:
            return ia <= ib
        return self.dominates(ba, bb)

    # -- avoid-set reachability between points
    def reach_avoiding(self, src_blocks, dst_pred, avoid_blocks=(), avoid_edges=()):
        """BFS over blocks from src_blocks (entered at their start) to any block
        where dst_pred(block) is true, never *entering* a block in avoid_blocks
        and never taking an edge in avoid_edges. Returns the path (list of block
        ids) or None."""
        avoid_blocks = set(avoid_blocks)
        avoid_edges = set(avoid_edges)
        prev = {}
        q = []
        for s in src_blocks:
            if s in avoid_blocks:
                continue
            prev[s] = None
            q.append(s)
        qi = 0
        while qi < len(q):
            b = q[qi]
            qi += 1
            if dst_pred(self.blocks[b]):
                path = []
                while b is not None:
                    path.append(b)
                    b = prev[b]
                return list(reversed(path))
            for s in self.blocks[b].live_succ():
                if s in prev or s in avoid_blocks or (b, s) in avoid_edges:
                    continue
                prev[s] = b
                q.append(s)
        return None

    # -- branch atoms
    def branch_cond(self, b):
        """Atomic condition tested at the end of block b, or None."""
        blk = self.blocks[b] if isinstance(b, int) else b
        t = blk.term
        if not t or t["k"] not in BRANCH_TERMS:
            return None
        if t["k"] == "BinaryOperator" and t.get("op") not in ("&&", "||"):
            return None
        if len(blk.succ) != 2:
            return None
        if blk.el:
            return blk.el[-1]
        c = t.get("cond")
        return c

    def edge_atoms(self, b):
        """[(succ or None, cond_expr, truth)] for a two-way branch block."""
        blk = self.blocks[b] if isinstance(b, int) else b
        c = self.branch_cond(blk)
        if c is None:
            return []
        return [(blk.succ[0], c, True), (blk.succ[1], c, False)]

    def switch_cases(self, b):
        """For a SwitchStmt-terminated block: [(succ, label dict or None)]."""
        blk = self.blocks[b] if isinstance(b, int) else b
        out = []
        for s in blk.succ:
            if s is None:
                continue
            out.append((s, self.blocks[s].label))
        return out

    def line_of_block(self, bid):
        b = self.blocks[bid]
        for e in b.el:
            for n in walk(e):
                if "l" in n:
                    return n["l"]
        if b.term:
            return b.term.get("l")
        if b.label:
            return b.label.get("l")
        return None


def normalize_cond(c, truth):
    """Return (expr, truth) with leading ! stripped and comparisons with 0 folded."""
    c = strip(c)
    while isinstance(c, dict) and c.get("k") == "Un" and c.get("op") == "!":
        c = strip(c["e"])
        truth = not truth
    return c, truth


NEG = {"<": ">=", ">": "<=", "<=": ">", ">=": "<", "==": "!=", "!=": "=="}
FLIP = {"<": ">", ">": "<", "<=": ">=", ">=": "<=", "==": "==", "!=": "!="}


def atom_of(c, truth):
    """Normalise a branch condition under a truth value into (op, lhs, rhs) with
    op a comparison, or ('true'/'false', expr, None) for a bare scalar test."""
    c, truth = normalize_cond(c, truth)
    if isinstance(c, dict) and c.get("k") == "Bin" and c.get("op") in NEG:
        op = c["op"] if truth else NEG[c["op"]]
        return (op, c["L"], c["R"])
    return ("true" if truth else "false", c, None)


# ---------------------------------------------------------------- program


class Unit:
    def __init__(self, path, facts_file):
        self.path = norm(path)
        self.facts_file = facts_file
        self.header = None
        self.funcs = {}
        self._loaded = False

    def load(self):
        if self._loaded:
            return self
        with open(self.facts_file) as fh:
            first = True
            for line in fh:
                if not line.strip():
                    continue
                d = json.loads(line)
                if first:
                    self.header = d
                    first = False
                    continue
                f = Func(d, self)
                # prefer the definition seen first (header statics repeat across units)
                self.funcs.setdefault(f.name, f)
        self._loaded = True
        if os.environ.get("NLX_INLINE", "0") == "1":
            # rules see every function with the file-local helpers it calls spliced in (engine/inline.py): extracting a
            # block into a static helper, or inlining one, does not change what a rule reads
            import inline
            plain = dict(self.funcs)
            self.plain = plain
            for name, f in plain.items():
                g = inline.inlined(f)
                if g is not f:
                    g.plain = f
                    self.funcs[name] = g
        return self


class Program:
    def __init__(self, facts_map):
        """facts_map: {unit source path: facts file}"""
        self.units = {norm(p): Unit(p, f) for p, f in facts_map.items()}
        self._by_name = None

    def unit(self, suffix):
        """Unit whose path ends with suffix (e.g. 'src/comm.c')."""
        hits = [u for p, u in self.units.items() if p.endswith("/" + suffix) or p == suffix]
        if len(hits) != 1:
            raise KeyError("unit %s: %d matches" % (suffix, len(hits)))
        return hits[0].load()

    def has_unit(self, suffix):
        return any(p.endswith("/" + suffix) for p in self.units)

    def load_all(self):
        for u in self.units.values():
            u.load()
        return self

    def functions(self):
        """All function definitions; header-defined statics de-duplicated by (file,name)."""
        self.load_all()
        seen = set()
        for u in self.units.values():
            for f in u.funcs.values():
                key = (f.file, f.name)
                if key in seen:
                    continue
                seen.add(key)
                yield f

    def by_name(self):
        if self._by_name is None:
            m = {}
            for f in self.functions():
                m.setdefault(f.name, []).append(f)
            self._by_name = m
        return self._by_name

    def funci(self, name, unit_suffix=None, depth=2):
        """the function with the file-local helpers it calls spliced in (engine/inline.py), or None"""
        f = self.func(name, unit_suffix)
        if f is None:
            return None
        import inline
        return inline.inlined(f, depth)

    def func(self, name, unit_suffix=None):
        if unit_suffix:
            u = self.unit(unit_suffix)
            return u.funcs.get(name)
        fs = self.by_name().get(name, [])
        return fs[0] if fs else None

    def records(self):
        self.load_all()
        out = {}
        for u in self.units.values():
            for r in u.header["records"]:
                if r["n"]:
                    out.setdefault(r["n"], r)
        return out

    def globals(self):
        self.load_all()
        out = {}
        for u in self.units.values():
            for g in u.header["globals"]:
                cur = out.get(g["n"])
                if cur is None or (g.get("def") and not cur.get("def")) or ("init" in g and "init" not in cur):
                    out[g["n"]] = g
        return out
