"""Channel 3.3: clang's own format checker with injected format attributes.
Runs `clang -fsyntax-only -include inject/annot.h -Wformat -Wformat-security -Wformat-nonliteral`
over every unit of the compile database (parse only, nothing is compiled or executed) and returns
the format diagnostics."""
import os
import re
import subprocess
from concurrent.futures import ThreadPoolExecutor

import prep

ANNOT = os.path.join(prep.VERIF, "engine", "inject", "annot.h")
DIAG = re.compile(r"^(?P<file>[^:\n]+):(?P<line>\d+):(?P<col>\d+): warning: (?P<msg>.*) \[-W(?P<flag>format[a-z-]*)\]$")


def run_unit(u):
    args = [a for a in u["arguments"] if a not in ("-c", "-Wno-everything") and not a.startswith("-W")]
    cmd = args[:1] + ["-fsyntax-only", "-include", ANNOT, "-I" + prep.REPO, "-Wno-everything", "-Wformat", "-Wformat-security", "-Wformat-nonliteral",
                      "-fno-caret-diagnostics", "-fno-diagnostics-fixit-info"] + args[1:]
    r = subprocess.run(cmd, cwd=u["directory"], stdout=subprocess.PIPE, stderr=subprocess.PIPE, text=True)
    out = []
    for line in r.stderr.splitlines():
        m = DIAG.match(line.strip())
        if m:
            out.append({"file": os.path.normpath(m.group("file")), "line": int(m.group("line")), "col": int(m.group("col")), "msg": m.group("msg"), "flag": m.group("flag")})
    failed = r.returncode != 0
    return u["file"], out, failed, r.stderr[-800:] if failed else ""


def run_all(units):
    with ThreadPoolExecutor(max_workers=16) as ex:
        res = list(ex.map(run_unit, units.values()))
    diags = {}
    broken = []
    for f, out, failed, err in res:
        if failed:
            broken.append((f, err))
        for d in out:
            diags[(d["file"], d["line"], d["col"], d["msg"])] = d
    return list(diags.values()), broken
