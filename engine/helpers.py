"""File-local helpers of allowed functions.

Several rules are who-may-write / who-may-call tables keyed by function name.  A static function all of whose callers
are (helpers of) listed functions is part of the listed functions' code: extracting a block into such a helper does
not add a writer.  `owners(prog, name, allowed)` returns the listed functions a helper works for, or None."""


def _callers(prog):
    cache = getattr(prog, "_callers_by_name", None)
    if cache is None:
        cache = {}
        for g in prog.functions():
            for b, i, c in g.calls():
                if c.get("fn"):
                    cache.setdefault(c["fn"], set()).add(g.name)
        prog._callers_by_name = cache
    return cache


def owners(prog, name, allowed, depth=3):
    if name in allowed:
        return {name}
    if depth <= 0:
        return None
    fs = [f for f in prog.functions() if f.name == name]
    if not fs or not all(f.static for f in fs):
        return None
    cs = _callers(prog).get(name, set()) - {name}
    if not cs:
        return None
    out = set()
    for c in cs:
        o = owners(prog, c, allowed, depth - 1)
        if o is None:
            return None
        out |= o
    return out


def fold(prog, names, allowed):
    """replace helpers of allowed functions by the functions they work for"""
    out = set()
    for n in names:
        o = owners(prog, n, allowed)
        out |= o if o is not None else {n}
    return out
