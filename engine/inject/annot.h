/* Pre-included on the analysis command line only (never part of /repo's build): re-declares the
 * repository's printf-like reporters with the format attribute, so that clang's own type-resolved
 * format checker (-Wformat, -Wformat-security, -Wformat-nonliteral) decides every call site.
 * A redeclaration that only adds an attribute is legal C and merges with the later real prototype. */
#ifndef NLX_ANNOT_H
#define NLX_ANNOT_H
#include <stddef.h>
#ifdef __cplusplus
extern "C" {
#endif
struct object_s;
void error (const char *, ...) __attribute__ ((format (printf, 1, 2)));
void fatal (char *, ...) __attribute__ ((format (printf, 1, 2)));
int debug_message (const char *fmt, ...) __attribute__ ((format (printf, 1, 2)));
int debug_message_with_src (const char *_type, const char *func, const char *src, int line, const char *fmt, ...) __attribute__ ((format (printf, 5, 6)));
int log_message (const char *file, const char *fmt, ...) __attribute__ ((format (printf, 2, 3)));
void add_vmessage (struct object_s *, char *, ...) __attribute__ ((format (printf, 2, 3)));
#ifdef __cplusplus
}
#endif
#ifndef __cplusplus	/* the C++ units (timer, sync, rc) do not use outbuf */
#include "src/outbuf.h"
void outbuf_addv (outbuffer_t *, const char *, ...) __attribute__ ((format (printf, 2, 3)));
#endif
#endif
