"""CFG inliner: a view of a function with the bodies of the file-local (static) helpers it calls spliced in.

Rules that recognise a mechanism by the shape of one function (a step list, a guard, a store protocol) would
otherwise lose it when a maintainer extracts part of that function into a static helper.  `inlined(f)` returns a
new Func in which, in front of every top-level call element of a static function of the same unit, a clone of
the callee's CFG is placed: parameters replaced by the argument expressions (or bound to a fresh local when the
argument has side effects or the callee assigns the parameter), callee locals renumbered, `return e` turned into
a plain evaluation of e that continues behind the call.  The call element itself stays (the call graph, and rules
that count calls, still see it).  Depth-limited, no recursion, callee size bounded."""
import copy

K = 100000
MAX_CALLEE_BLOCKS = 24     # helpers larger than this are functions in their own right, with rules of their own


def _has_effect(e):
    if isinstance(e, dict):
        if e.get("k") in ("Call", "Asg") or (e.get("k") == "Un" and e.get("op") in ("++", "--")):
            return True
        return any(_has_effect(v) for v in e.values() if isinstance(v, (dict, list)))
    if isinstance(e, list):
        return any(_has_effect(x) for x in e)
    return False


def _walk(e):
    if isinstance(e, dict):
        yield e
        for v in e.values():
            if isinstance(v, (dict, list)):
                yield from _walk(v)
    elif isinstance(e, list):
        for x in e:
            yield from _walk(x)


def _assigned_params(raw):
    out = set()
    for b in raw["blocks"]:
        for n in _walk(b.get("el", [])):
            t = None
            if n.get("k") == "Asg":
                t = n.get("L")
            elif n.get("k") == "Un" and n.get("op") in ("++", "--", "&"):
                t = n.get("e")
            while isinstance(t, dict) and t.get("k") in ("ICast", "Cast"):
                t = t.get("e")
            if isinstance(t, dict) and t.get("k") == "Ref" and t.get("d") == "param":
                out.add(t.get("pi"))
    return out


def _clone(e, argmap, idoff, bound):
    if isinstance(e, list):
        return [_clone(x, argmap, idoff, bound) for x in e]
    if not isinstance(e, dict):
        return e
    if e.get("k") == "Ref" and e.get("d") == "param":
        pi = e.get("pi")
        if pi in bound:
            r = dict(e)
            r["d"] = "local"
            r["id"] = bound[pi]
            r.pop("pi", None)
            return r
        if pi in argmap:
            return copy.deepcopy(argmap[pi])
    out = {}
    for k, v in e.items():
        out[k] = _clone(v, argmap, idoff, bound) if isinstance(v, (dict, list)) else v
    if out.get("k") == "Ref" and out.get("d") in ("local", "slocal") and out.get("id") is not None:
        out["id"] = out["id"] + idoff
    if out.get("k") == "Decl":
        for v in out.get("vars", []):
            if isinstance(v, dict) and v.get("id") is not None:
                v["id"] = v["id"] + idoff
    if out.get("k") == "Return":
        out["k"] = "InlRet"
    return out


def _max_local(raw):
    m = 0
    for p in raw.get("params", []):
        if p.get("id") is not None:
            m = max(m, p["id"])
    for b in raw["blocks"]:
        for n in _walk(b.get("el", [])):
            if n.get("k") == "Ref" and n.get("id") is not None:
                m = max(m, n["id"])
            if n.get("k") == "Decl":
                for v in n.get("vars", []):
                    if isinstance(v, dict) and v.get("id") is not None:
                        m = max(m, v["id"])
    return m


def _scale_succ(s, fn):
    if s is None:
        return None
    if s < 0:
        return -fn(-s - 1) - 1
    return fn(s)


def inline_raw(raw, statics, depth=2, stack=(), max_blocks=None):
    """raw: function dict as extracted.  statics: {name: raw dict} of the unit's static functions."""
    if depth <= 0:
        return raw
    if max_blocks is None:
        max_blocks = MAX_CALLEE_BLOCKS
    name = raw["fn"]
    blocks = {}
    for b in raw["blocks"]:
        nb = dict(b)
        nb["id"] = b["id"] * K
        nb["succ"] = [_scale_succ(s, lambda x: x * K) for s in b.get("succ", [])]
        nb["el"] = list(b.get("el", []))
        blocks[nb["id"]] = nb
    next_local = _max_local(raw) + 1
    changed = False
    for bid in sorted(blocks, reverse=True):
        cur = blocks[bid]
        j = 0
        k = 0
        while k < len(cur["el"]):
            e = cur["el"][k]
            cal = statics.get(e.get("fn")) if isinstance(e, dict) and e.get("k") == "Call" and "x" not in e else None
            if cal is None or e["fn"] == name or e["fn"] in stack or len(cal["blocks"]) > max_blocks or j >= 40:
                k += 1
                continue
            callee = inline_raw(cal, statics, depth - 1, stack + (name,), max_blocks)
            j += 1
            changed = True
            args = e.get("args", [])
            assigned = _assigned_params(callee)
            argmap, bound, prologue = {}, {}, []
            for p in callee.get("params", []):
                pi = p.get("pi")
                if pi is None or pi >= len(args):
                    continue
                if pi in assigned or _has_effect(args[pi]):
                    lid = next_local
                    next_local += 1
                    bound[pi] = lid
                    prologue.append({"k": "Decl", "l": e.get("l"), "inl": callee["fn"], "vars": [{"n": p.get("n"), "id": lid, "t": p.get("t"), "init": copy.deepcopy(args[pi])}]})
                else:
                    argmap[pi] = args[pi]
            idoff = next_local
            next_local += _max_local(callee) + 1
            base = bid - j * 1000
            post_id = base - 900
            cids = sorted((b["id"] for b in callee["blocks"]), reverse=True)
            if len(cids) > 850:
                k += 1
                continue
            cmap = {cid: base - 1 - n for n, cid in enumerate(cids)}
            c_exit = callee.get("exit")

            def m(cid):
                return post_id if cid == c_exit else cmap[cid]
            # split the current block
            post = {"id": post_id, "el": cur["el"][k:], "succ": cur.get("succ", []), "term": cur.get("term"), "nr": cur.get("nr")}
            if "term" in cur:
                del cur["term"]
            cur["nr"] = False
            cur["el"] = cur["el"][:k] + prologue
            cur["succ"] = [m(callee["entry"])]
            for b in callee["blocks"]:
                if b["id"] == c_exit:
                    continue
                nb = {"id": cmap[b["id"]], "el": [_clone(x, argmap, idoff, bound) for x in b.get("el", [])], "succ": [_scale_succ(s, m) for s in b.get("succ", [])]}
                for x in nb["el"]:
                    if isinstance(x, dict):
                        x.setdefault("inl", callee["fn"])
                if b.get("term") is not None:
                    nb["term"] = _clone(b["term"], argmap, idoff, bound)
                if b.get("label") is not None:
                    nb["label"] = b["label"]
                if b.get("nr"):
                    nb["nr"] = b["nr"]
                blocks[nb["id"]] = nb
            blocks[post_id] = post
            cur = post
            k = 1            # the call element itself stays at the head of the post block
    if not changed:
        return raw
    out = dict(raw)
    out["entry"] = raw["entry"] * K
    out["exit"] = raw["exit"] * K
    out["blocks"] = [blocks[i] for i in sorted(blocks)]
    out["inlined"] = True
    return out


def inlined(f, depth=2, max_blocks=None):
    """Func -> Func with static helpers of the same unit inlined (cached on the function object)."""
    cache = f.__dict__.setdefault("_inlined", {})
    key = (depth, max_blocks)
    if key in cache:
        return cache[key]
    from facts import Func
    unit = f.unit
    statics = {}
    for g in unit.funcs.values():
        if g.static and getattr(g, "_raw", None) is not None and g.file == f.file:
            statics[g.name] = g._raw
    raw = getattr(f, "_raw", None)
    if raw is None:
        cache[key] = f
        return f
    new = inline_raw(raw, statics, depth, (), max_blocks)
    g = f if new is raw else Func(new, unit)
    cache[key] = g
    return g
