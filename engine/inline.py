"""CFG inliner: a view of a function with the bodies of the file-local (static) helpers it calls spliced in.

Rules that recognise a mechanism by the shape of one function (a step list, a guard, a store protocol) would
otherwise lose it when a maintainer extracts part of that function into a static helper.  `inlined(f)` returns a
new Func in which, in front of every top-level call element of a static function of the same unit, a clone of
the callee's CFG is placed: parameters replaced by the argument expressions (or bound to a fresh local when the
argument has side effects or the callee assigns the parameter), callee locals renumbered, `return e` turned into
a plain evaluation of e that continues behind the call.  The call element itself stays (the call graph, and rules
that count calls, still see it).  Depth-limited, no recursion, callee size bounded."""
import copy

K = 100000
MAX_CALLEE_BLOCKS = 24     # helpers larger than this are functions in their own right, with rules of their own


def _has_effect(e):
    if isinstance(e, dict):
        if e.get("k") in ("Call", "Asg") or (e.get("k") == "Un" and e.get("op") in ("++", "--")):
            return True
        return any(_has_effect(v) for v in e.values() if isinstance(v, (dict, list)))
    if isinstance(e, list):
        return any(_has_effect(x) for x in e)
    return False


def _walk(e):
    if isinstance(e, dict):
        yield e
        for v in e.values():
            if isinstance(v, (dict, list)):
                yield from _walk(v)
    elif isinstance(e, list):
        for x in e:
            yield from _walk(x)


def _assigned_params(raw):
    out = set()
    for b in raw["blocks"]:
        for n in _walk(b.get("el", [])):
            t = None
            if n.get("k") == "Asg":
                t = n.get("L")
            elif n.get("k") == "Un" and n.get("op") in ("++", "--", "&"):
                t = n.get("e")
            while isinstance(t, dict) and t.get("k") in ("ICast", "Cast"):
                t = t.get("e")
            if isinstance(t, dict) and t.get("k") == "Ref" and t.get("d") == "param":
                out.add(t.get("pi"))
    return out


def _clone(e, argmap, idoff, bound):
    if isinstance(e, list):
        return [_clone(x, argmap, idoff, bound) for x in e]
    if not isinstance(e, dict):
        return e
    if e.get("k") == "Ref" and e.get("d") == "param":
        pi = e.get("pi")
        if pi in bound:
            r = dict(e)
            r["d"] = "local"
            r["id"] = bound[pi]
            r.pop("pi", None)
            return r
        if pi in argmap:
            return copy.deepcopy(argmap[pi])
    out = {}
    for k, v in e.items():
        out[k] = _clone(v, argmap, idoff, bound) if isinstance(v, (dict, list)) else v
    if out.get("k") == "Ref" and out.get("d") in ("local", "slocal") and out.get("id") is not None:
        out["id"] = out["id"] + idoff
    if out.get("k") == "Decl":
        for v in out.get("vars", []):
            if isinstance(v, dict) and v.get("id") is not None:
                v["id"] = v["id"] + idoff
    if out.get("k") == "Return":
        out["k"] = "InlRet"
    # `*p` with p bound to `&x` is x (an out-parameter of the helper is the caller's variable)
    if out.get("k") == "Un" and out.get("op") == "*":
        inner = out.get("e")
        while isinstance(inner, dict) and inner.get("k") in ("ICast", "Cast"):
            inner = inner.get("e")
        if isinstance(inner, dict) and inner.get("k") == "Un" and inner.get("op") == "&" and isinstance(inner.get("e"), dict):
            return inner["e"]
    return out


def _max_local(raw):
    m = 0
    for p in raw.get("params", []):
        if p.get("id") is not None:
            m = max(m, p["id"])
    for b in raw["blocks"]:
        for n in _walk(b.get("el", [])):
            if n.get("k") == "Ref" and n.get("id") is not None:
                m = max(m, n["id"])
            if n.get("k") == "Decl":
                for v in n.get("vars", []):
                    if isinstance(v, dict) and v.get("id") is not None:
                        m = max(m, v["id"])
    return m


def _scale_succ(s, fn):
    if s is None:
        return None
    if s < 0:
        return -fn(-s - 1) - 1
    return fn(s)


def _const_of(e):
    while isinstance(e, dict) and e.get("k") in ("ICast", "Cast"):
        e = e.get("e")
    if isinstance(e, dict) and "v" in e and e.get("k") in ("Int",):
        return e["v"]
    if isinstance(e, dict) and e.get("k") == "Un" and e.get("op") == "-" and _const_of(e.get("e")) is not None:
        return -_const_of(e["e"])
    return None


def _is_call_copy(x, call):
    return isinstance(x, dict) and x.get("k") == "Call" and x.get("fn") == call.get("fn") and x.get("l") == call.get("l")


def _cond_polarity(c, call):
    """+1 if c is true exactly when the call's result is non-zero, -1 if exactly when it is zero, None otherwise"""
    pol = 1
    for _ in range(8):
        while isinstance(c, dict) and c.get("k") in ("ICast", "Cast"):
            c = c.get("e")
        if not isinstance(c, dict):
            return None
        if _is_call_copy(c, call) or (c.get("k") == "Ref" and c.get("n") == "__ret_" + (call.get("fn") or "")):
            return pol
        if c.get("k") == "Un" and c.get("op") == "!":
            pol, c = -pol, c.get("e")
            continue
        if c.get("k") == "Bin" and c.get("op") in ("!=", "==") and _const_of(c.get("R")) == 0:
            pol, c = (pol if c["op"] == "!=" else -pol), c.get("L")
            continue
        return None
    return None


def _var_polarity(c, vid):
    pol = 1
    for _ in range(8):
        while isinstance(c, dict) and c.get("k") in ("ICast", "Cast"):
            c = c.get("e")
        if not isinstance(c, dict):
            return None
        if c.get("k") == "Ref" and c.get("id") == vid and vid is not None:
            return pol
        if c.get("k") == "Un" and c.get("op") == "!":
            pol, c = -pol, c.get("e")
            continue
        if c.get("k") == "Bin" and c.get("op") in ("!=", "==") and _const_of(c.get("R")) == 0:
            pol, c = (pol if c["op"] == "!=" else -pol), c.get("L")
            continue
        return None
    return None


def _thread_returns(blocks, post, call, callee_ids):
    succ = post.get("succ") or []
    term = post.get("term") or {}
    live = [s for s in succ if s is not None and s >= 0]
    if len(succ) == 1 and len(live) == 1:
        # `v = helper (..);` and then a block that does nothing but branch on v
        els = post.get("el") or []
        if len(els) == 2 and _is_call_copy(els[0], call) and isinstance(els[1], dict) and els[1].get("k") == "Asg" and els[1].get("op") == "=":
            tgt = els[1].get("L")
            while isinstance(tgt, dict) and tgt.get("k") in ("ICast", "Cast"):
                tgt = tgt.get("e")
            rhs = els[1].get("R")
            while isinstance(rhs, dict) and rhs.get("k") in ("ICast", "Cast"):
                rhs = rhs.get("e")
            nxt = blocks.get(live[0])
            if isinstance(tgt, dict) and tgt.get("k") == "Ref" and tgt.get("id") is not None and _is_call_copy(rhs, call) and nxt is not None:
                ns = nxt.get("succ") or []
                nels = nxt.get("el") or []
                if len(ns) == 2 and all(s is not None and s >= 0 for s in ns) and nels and all(_var_polarity(x, tgt["id"]) is not None for x in nels):
                    pol = _var_polarity(nels[-1], tgt["id"])
                    for cid in callee_ids:
                        b = blocks.get(cid)
                        if b is None or post["id"] not in (b.get("succ") or []):
                            continue
                        rets = [x for x in b.get("el", []) if isinstance(x, dict) and x.get("k") == "InlRet" and isinstance(x.get("e"), dict)]
                        v = _const_of(rets[-1]["e"]) if rets else None
                        if v is None:
                            continue
                        cond_true = (v != 0) if pol > 0 else (v == 0)
                        b["succ"] = [(ns[0] if cond_true else ns[1]) if s == post["id"] else s for s in b["succ"]]
        return
    if len(succ) != 2 or succ[0] is None or succ[1] is None or succ[0] < 0 or succ[1] < 0:
        return
    if term.get("k") not in ("IfStmt", "WhileStmt", "ForStmt", "DoStmt", "ConditionalOperator"):
        return
    els = post.get("el") or []
    # the block holds the call and then only expressions over the call's result
    if not els or not _is_call_copy(els[0], call):
        return
    # optionally `v = helper (..)` first, and then a test of v
    vid = None
    if len(els) > 2 and isinstance(els[1], dict) and els[1].get("k") == "Asg" and els[1].get("op") == "=":
        tgt, rhs = els[1].get("L"), els[1].get("R")
        while isinstance(tgt, dict) and tgt.get("k") in ("ICast", "Cast"):
            tgt = tgt.get("e")
        while isinstance(rhs, dict) and rhs.get("k") in ("ICast", "Cast"):
            rhs = rhs.get("e")
        if isinstance(tgt, dict) and tgt.get("k") == "Ref" and tgt.get("id") is not None and _is_call_copy(rhs, call):
            vid = tgt["id"]

    def _pol(x):
        p1 = _cond_polarity(x, call)
        if p1 is None and vid is not None:
            p1 = _var_polarity(x, vid)
        return p1
    pol = _pol(els[-1]) if len(els) > 1 else None
    if pol is None:
        return
    for j, x in enumerate(els[1:-1]):
        if vid is not None and j == 0:
            continue
        if _pol(x) is None:
            return
    for cid in callee_ids:
        b = blocks.get(cid)
        if b is None or post["id"] not in (b.get("succ") or []):
            continue
        rets = [x for x in b.get("el", []) if isinstance(x, dict) and x.get("k") == "InlRet" and isinstance(x.get("e"), dict)]
        if not rets:
            continue
        v = _const_of(rets[-1]["e"])
        if v is None:
            continue
        cond_true = (v != 0) if pol > 0 else (v == 0)
        target = succ[0] if cond_true else succ[1]
        b["succ"] = [target if s == post["id"] else s for s in b["succ"]]


def inline_raw(raw, statics, depth=2, stack=(), max_blocks=None, thread=False):
    """raw: function dict as extracted.  statics: {name: raw dict} of the unit's static functions."""
    if depth <= 0:
        return raw
    if max_blocks is None:
        max_blocks = MAX_CALLEE_BLOCKS
    name = raw["fn"]
    blocks = {}
    for b in raw["blocks"]:
        nb = dict(b)
        nb["id"] = b["id"] * K
        nb["succ"] = [_scale_succ(s, lambda x: x * K) for s in b.get("succ", [])]
        nb["el"] = list(b.get("el", []))
        blocks[nb["id"]] = nb
    next_local = _max_local(raw) + 1
    changed = False
    for bid in sorted(blocks, reverse=True):
        cur = blocks[bid]
        j = 0
        k = 0
        while k < len(cur["el"]):
            e = cur["el"][k]
            cal = statics.get(e.get("fn")) if isinstance(e, dict) and e.get("k") == "Call" and "x" not in e else None
            if cal is None or e["fn"] == name or e["fn"] in stack or len(cal["blocks"]) > max_blocks or j >= 40:
                k += 1
                continue
            callee = inline_raw(cal, statics, depth - 1, stack + (name,), max_blocks, thread)
            j += 1
            changed = True
            args = e.get("args", [])
            assigned = _assigned_params(callee)
            argmap, bound, prologue = {}, {}, []
            for p in callee.get("params", []):
                pi = p.get("pi")
                if pi is None or pi >= len(args):
                    continue
                if pi in assigned or _has_effect(args[pi]):
                    lid = next_local
                    next_local += 1
                    bound[pi] = lid
                    prologue.append({"k": "Decl", "l": e.get("l"), "inl": callee["fn"], "vars": [{"n": p.get("n"), "id": lid, "t": p.get("t"), "init": copy.deepcopy(args[pi])}]})
                else:
                    argmap[pi] = args[pi]
            idoff = next_local
            next_local += _max_local(callee) + 1
            ret_id = next_local          # the helper's result, for the expressions behind the call that use it
            next_local += 1
            ret_ref = {"k": "Ref", "n": "__ret_" + callee["fn"], "d": "local", "id": ret_id, "t": callee.get("rt") or "int", "l": e.get("l")}
            has_value = (callee.get("rt") or "void").strip() != "void"
            base = bid - j * 1000
            post_id = base - 900
            cids = sorted((b["id"] for b in callee["blocks"]), reverse=True)
            if len(cids) > 850:
                k += 1
                continue
            cmap = {cid: base - 1 - n for n, cid in enumerate(cids)}
            c_exit = callee.get("exit")

            def m(cid):
                return post_id if cid == c_exit else cmap[cid]
            # split the current block
            post = {"id": post_id, "el": cur["el"][k:], "succ": cur.get("succ", []), "term": cur.get("term"), "nr": cur.get("nr")}
            if "term" in cur:
                del cur["term"]
            cur["nr"] = False
            cur["el"] = cur["el"][:k] + prologue
            cur["succ"] = [m(callee["entry"])]
            for b in callee["blocks"]:
                if b["id"] == c_exit:
                    continue
                nb = {"id": cmap[b["id"]], "el": [_clone(x, argmap, idoff, bound) for x in b.get("el", [])], "succ": [_scale_succ(s, m) for s in b.get("succ", [])]}
                if has_value:
                    # `return v`  ->  `__ret = v` (the InlRet element stays behind it)
                    linked = []
                    for x in nb["el"]:
                        if isinstance(x, dict) and x.get("k") == "InlRet" and isinstance(x.get("e"), dict):
                            linked.append({"k": "Asg", "op": "=", "t": ret_ref["t"], "l": x.get("l"), "inl": callee["fn"], "L": dict(ret_ref), "R": copy.deepcopy(x["e"])})
                        linked.append(x)
                    nb["el"] = linked
                for x in nb["el"]:
                    if isinstance(x, dict):
                        x.setdefault("inl", callee["fn"])
                if b.get("term") is not None:
                    nb["term"] = _clone(b["term"], argmap, idoff, bound)
                if b.get("label") is not None:
                    nb["label"] = b["label"]
                if b.get("nr"):
                    nb["nr"] = b["nr"]
                blocks[nb["id"]] = nb
            if has_value:
                # the expressions of the block behind the call that contain the call read the helper's result instead
                # (copies: the plain view of the function shares these elements)
                def _subst_call(x):
                    if isinstance(x, dict):
                        if _is_call_copy(x, e) and "x" in x:
                            # still a call node for every rule that asks what is called here; analyses that follow
                            # values read the helper's result from the local named in "ret"
                            r = dict(x)
                            r["ret"] = dict(ret_ref)
                            return r
                        return {k2: _subst_call(v2) if isinstance(v2, (dict, list)) else v2 for k2, v2 in x.items()}
                    if isinstance(x, list):
                        return [_subst_call(y) for y in x]
                    return x
                post["el"] = [post["el"][0]] + [(_subst_call(x) if any(_is_call_copy(y, e) and "x" in y for y in _walk(x)) else x) for x in post["el"][1:]]
                if isinstance(post.get("term"), dict) and any(_is_call_copy(y, e) for y in _walk(post["term"])):
                    post["term"] = _subst_call(post["term"])
            # the call element that stays at the head of the post block is marked: its body has been spliced in front of it
            if post["el"]:
                head = copy.deepcopy(post["el"][0])
                for y in _walk(head):
                    if isinstance(y, dict) and y.get("k") == "Call" and y.get("fn") == callee["fn"] and y.get("l") == e.get("l"):
                        y["spliced"] = callee["fn"]
                post["el"] = [head] + list(post["el"][1:])
            blocks[post_id] = post
            # jump threading for helpers that answer with a constant: when the block behind the call does nothing but
            # branch on the call's result (`if (!helper (x)) return;`), a `return K` of the helper continues on the side
            # of that branch which K selects instead of running into both
            # (opt-in: it removes infeasible paths, but the test behind the call then no longer dominates what follows
            # it, which rules that look for that test as a guard rely on)
            if thread:
                try:
                    _thread_returns(blocks, post, e, [cmap[b["id"]] for b in callee["blocks"] if b["id"] != c_exit])
                except Exception:
                    pass
            cur = post
            k = 1            # the call element itself stays at the head of the post block
    if not changed:
        return raw
    out = dict(raw)
    out["entry"] = raw["entry"] * K
    out["exit"] = raw["exit"] * K
    out["blocks"] = [blocks[i] for i in sorted(blocks)]
    out["inlined"] = True
    return out


def inlined(f, depth=2, max_blocks=None, thread=False):
    """Func -> Func with static helpers of the same unit inlined (cached on the function object)."""
    cache = f.__dict__.setdefault("_inlined", {})
    key = (depth, max_blocks, thread)
    if key in cache:
        return cache[key]
    from facts import Func
    unit = f.unit
    statics = {}
    for g in unit.funcs.values():
        if g.static and getattr(g, "_raw", None) is not None and g.file == f.file:
            statics[g.name] = g._raw
    raw = getattr(f, "_raw", None)
    if raw is None:
        cache[key] = f
        return f
    new = inline_raw(raw, statics, depth, (), max_blocks, thread)
    g = f if new is raw else Func(new, unit)
    cache[key] = g
    return g
