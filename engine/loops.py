"""Natural loops of a function's CFG (back edge u->h with h dominating u)."""


def natural_loops(f):
    """[(header block id, frozenset of body block ids incl. header)] - loops with the same header are merged"""
    by_head = {}
    reach = f.reachable()
    for u in reach:
        for h in f.blocks[u].live_succ():
            if h in reach and f.dominates(h, u):
                body = by_head.setdefault(h, {h})
                st = [u]
                while st:
                    x = st.pop()
                    if x in body:
                        continue
                    body.add(x)
                    st.extend(p for p in f.blocks[x].preds if p in reach)
    return [(h, frozenset(b)) for h, b in sorted(by_head.items(), reverse=True)]


def exits(f, body):
    """[(from block, to block)] edges leaving the loop"""
    out = []
    for b in body:
        for s in f.blocks[b].live_succ():
            if s not in body:
                out.append((b, s))
    return out
