// nlx — fact extractor for the neolith static checks (libTooling, clang 14).
//
// For every translation unit given on the command line it writes
// <outdir>/<key>.jsonl : line 1 is the unit header (records, globals, enum
// constants, function index), every following line is one function definition
// with its clang::CFG (default build options: short-circuit operators and ?: are
// decomposed, noreturn calls end their block) and every CFG element as an
// expression tree with resolved declarations, types, constant values and macro
// provenance.  Nothing is executed; the tool only parses.
//
// usage: nlx -p <dir with compile_commands.json> --out <dir> file.c ...

#include "clang/AST/ASTConsumer.h"
#include "clang/AST/ASTContext.h"
#include "clang/AST/Decl.h"
#include "clang/AST/DeclCXX.h"
#include "clang/AST/Expr.h"
#include "clang/AST/ExprCXX.h"
#include "clang/AST/RecursiveASTVisitor.h"
#include "clang/AST/Stmt.h"
#include "clang/Analysis/CFG.h"
#include "clang/Frontend/CompilerInstance.h"
#include "clang/Frontend/FrontendAction.h"
#include "clang/Lex/Lexer.h"
#include "clang/Tooling/CommonOptionsParser.h"
#include "clang/Tooling/Tooling.h"
#include "llvm/Support/CommandLine.h"
#include "llvm/Support/JSON.h"
#include "llvm/Support/MD5.h"
#include "llvm/Support/raw_ostream.h"

#include <algorithm>
#include <map>
#include <set>
#include <string>

using namespace clang;
using namespace clang::tooling;
namespace json = llvm::json;

static llvm::cl::OptionCategory Cat("nlx options");
static llvm::cl::opt<std::string> OutDir("out", llvm::cl::desc("output directory"),
                                         llvm::cl::Required, llvm::cl::cat(Cat));

namespace {

std::string unitKey(llvm::StringRef path) {
  std::string s = path.str();
  for (auto &c : s)
    if (c == '/' || c == '.')
      c = '_';
  return s;
}

class Emitter {
public:
  Emitter(ASTContext &C, json::OStream &J) : Ctx(C), SM(C.getSourceManager()), J(J) {}

  ASTContext &Ctx;
  SourceManager &SM;
  json::OStream &J;
  std::map<const Decl *, unsigned> LocalIds;
  unsigned NextLocal = 0;
  std::map<const Stmt *, unsigned> ElemIds; // CFG element statements of the current function
  const Stmt *Root = nullptr;               // element currently being serialised

  void resetFunction() {
    LocalIds.clear();
    NextLocal = 0;
  }

  std::string typeStr(QualType T) {
    if (T.isNull())
      return "?";
    PrintingPolicy PP(Ctx.getLangOpts());
    PP.SuppressTagKeyword = false;
    return T.getCanonicalType().getAsString(PP);
  }

  std::string fileOf(SourceLocation L) {
    L = SM.getExpansionLoc(L);
    auto F = SM.getFilename(L);
    return F.str();
  }
  unsigned lineOf(SourceLocation L) { return SM.getExpansionLineNumber(L); }

  // outermost and innermost macro names for a location inside a macro expansion
  void macroNames(SourceLocation L, std::string &Outer, std::string &Inner) {
    if (!L.isMacroID())
      return;
    Inner = Lexer::getImmediateMacroName(L, SM, Ctx.getLangOpts()).str();
    SourceLocation Cur = L;
    std::string Name = Inner;
    int guard = 0;
    while (Cur.isMacroID() && guard++ < 64) {
      // go to where this macro (or macro argument) was expanded
      if (SM.isMacroArgExpansion(Cur)) {
        Cur = SM.getImmediateSpellingLoc(Cur);
        // an argument spelled at file level: the use is inside the caller macro
        if (!Cur.isMacroID())
          break;
        continue;
      }
      Name = Lexer::getImmediateMacroName(Cur, SM, Ctx.getLangOpts()).str();
      Cur = SM.getImmediateExpansionRange(Cur).getBegin();
    }
    Outer = Name;
  }

  // all macro names on the expansion stack of L (innermost first), ignoring
  // argument-ness: used to answer "is this node inside an expansion of M"
  void macroStack(SourceLocation L, std::vector<std::string> &Out, int depth = 0) {
    int guard = 0;
    while (L.isMacroID() && guard++ < 64 && depth < 8) {
      if (SM.isMacroArgExpansion(L)) {
        // names of the macros the argument's tokens were spelled in (e.g. __MAX_CALL_DEPTH__ passed to CONFIG_INT)
        macroStack(SM.getImmediateSpellingLoc(L), Out, depth + 1);
        // the argument is *used* inside the macro body: continue with the expansion (use) location
        L = SM.getImmediateExpansionRange(L).getBegin();
        continue;
      }
      std::string N = Lexer::getImmediateMacroName(L, SM, Ctx.getLangOpts()).str();
      if (std::find(Out.begin(), Out.end(), N) == Out.end())
        Out.push_back(N);
      L = SM.getImmediateExpansionRange(L).getBegin();
    }
  }

  void loc(SourceLocation L) {
    if (L.isInvalid())
      return;
    J.attribute("l", (int64_t)lineOf(L));
    if (L.isMacroID()) {
      std::vector<std::string> St;
      macroStack(L, St);
      if (!St.empty()) {
        J.attributeArray("m", [&] {
          for (auto &S : St)
            J.value(S);
        });
      }
    }
  }

  void declRef(const ValueDecl *D) {
    if (!D)
      return;
    J.attribute("n", D->getNameAsString());
    if (auto *VD = dyn_cast<VarDecl>(D)) {
      if (isa<ParmVarDecl>(VD)) {
        J.attribute("d", "param");
        J.attribute("pi", (int64_t)cast<ParmVarDecl>(VD)->getFunctionScopeIndex());
      } else if (VD->isLocalVarDecl()) {
        J.attribute("d", VD->isStaticLocal() ? "slocal" : "local");
      } else if (VD->getStorageClass() == SC_Static)
        J.attribute("d", "static");
      else
        J.attribute("d", "global");
      if (VD->isLocalVarDeclOrParm()) {
        auto It = LocalIds.find(VD);
        if (It == LocalIds.end())
          It = LocalIds.emplace(VD, NextLocal++).first;
        J.attribute("id", (int64_t)It->second);
      }
    } else if (isa<FunctionDecl>(D)) {
      J.attribute("d", "func");
    } else if (auto *EC = dyn_cast<EnumConstantDecl>(D)) {
      J.attribute("d", "enum");
      J.attribute("v", EC->getInitVal().getExtValue());
    } else {
      J.attribute("d", "other");
    }
  }

  static const char *castKindName(CastKind K) { return CastExpr::getCastKindName(K); }

  void children(const Stmt *S) {
    J.attributeArray("c", [&] {
      for (const Stmt *Ch : S->children())
        if (Ch)
          expr(Ch);
        else
          J.value(nullptr);
    });
  }

  void expr(const Stmt *S) {
    if (!S) {
      J.value(nullptr);
      return;
    }
    // transparent wrappers
    if (auto *P = dyn_cast<ParenExpr>(S))
      return expr(P->getSubExpr());
    if (auto *FE = dyn_cast<FullExpr>(S))
      return expr(FE->getSubExpr());
    if (auto *ICE = dyn_cast<ImplicitCastExpr>(S)) {
      switch (ICE->getCastKind()) {
      case CK_LValueToRValue:
      case CK_NoOp:
      case CK_FunctionToPointerDecay:
      case CK_ArrayToPointerDecay:
      case CK_BuiltinFnToFnPtr:
      case CK_NullToPointer:
        return expr(ICE->getSubExpr());
      default:
        break;
      }
    }
    J.object([&] {
      const Expr *E = dyn_cast<Expr>(S);
      if (S != Root) {
        auto It = ElemIds.find(S);
        if (It != ElemIds.end())
          J.attribute("x", (int64_t)It->second); // evaluated earlier as its own CFG element
      }
      if (E) {
        Expr::EvalResult R;
        if (!E->isValueDependent() && !isa<IntegerLiteral>(E) && E->getType()->isIntegralOrEnumerationType() &&
            E->EvaluateAsInt(R, Ctx, Expr::SE_NoSideEffects))
          J.attribute("v", R.Val.getInt().getExtValue());
      }
      if (auto *DRE = dyn_cast<DeclRefExpr>(S)) {
        J.attribute("k", "Ref");
        declRef(DRE->getDecl());
        J.attribute("t", typeStr(DRE->getType()));
        loc(DRE->getBeginLoc());
      } else if (auto *ME = dyn_cast<MemberExpr>(S)) {
        J.attribute("k", "Mem");
        J.attribute("f", ME->getMemberDecl()->getNameAsString());
        J.attribute("a", ME->isArrow());
        J.attribute("t", typeStr(ME->getType()));
        if (auto *FD = dyn_cast<FieldDecl>(ME->getMemberDecl())) {
          auto *RD = FD->getParent();
          std::string RN = RD->getNameAsString();
          if (RN.empty())
            if (auto *TD = RD->getTypedefNameForAnonDecl())
              RN = TD->getNameAsString();
          J.attribute("rec", RN);
        }
        loc(ME->getMemberLoc());
        J.attributeBegin("b");
        expr(ME->getBase());
        J.attributeEnd();
      } else if (auto *BO = dyn_cast<BinaryOperator>(S)) {
        J.attribute("k", BO->isAssignmentOp() ? "Asg" : "Bin");
        J.attribute("op", BO->getOpcodeStr());
        if (BO->isLogicalOp())
          J.attribute("cf", 1);
        J.attribute("t", typeStr(BO->getType()));
        loc(BO->getOperatorLoc());
        J.attributeBegin("L");
        expr(BO->getLHS());
        J.attributeEnd();
        J.attributeBegin("R");
        expr(BO->getRHS());
        J.attributeEnd();
      } else if (auto *UO = dyn_cast<UnaryOperator>(S)) {
        J.attribute("k", "Un");
        J.attribute("op", UnaryOperator::getOpcodeStr(UO->getOpcode()));
        if (UO->isPostfix())
          J.attribute("post", 1);
        J.attribute("t", typeStr(UO->getType()));
        loc(UO->getOperatorLoc());
        J.attributeBegin("e");
        expr(UO->getSubExpr());
        J.attributeEnd();
      } else if (auto *CE = dyn_cast<CallExpr>(S)) {
        J.attribute("k", "Call");
        const FunctionDecl *FD = CE->getDirectCallee();
        if (FD) {
          J.attribute("fn", FD->getNameAsString());
          if (isa<CXXMethodDecl>(FD))
            J.attribute("qfn", FD->getQualifiedNameAsString());
          if (FD->isNoReturn() || FD->hasAttr<NoReturnAttr>() ||
              FD->getType()->castAs<FunctionType>()->getNoReturnAttr())
            J.attribute("nr", 1);
          if (FD->getStorageClass() == SC_Static)
            J.attribute("st", 1);
        } else {
          J.attributeBegin("fe");
          expr(CE->getCallee());
          J.attributeEnd();
        }
        J.attribute("t", typeStr(CE->getType()));
        loc(CE->getBeginLoc());
        if (auto *MCE = dyn_cast<CXXMemberCallExpr>(CE)) {
          J.attributeBegin("obj");
          expr(MCE->getImplicitObjectArgument());
          J.attributeEnd();
        }
        J.attributeArray("args", [&] {
          for (const Expr *A : CE->arguments())
            expr(A);
        });
      } else if (auto *AS = dyn_cast<ArraySubscriptExpr>(S)) {
        J.attribute("k", "Sub");
        J.attribute("t", typeStr(AS->getType()));
        loc(AS->getRBracketLoc());
        J.attributeBegin("b");
        expr(AS->getBase());
        J.attributeEnd();
        J.attributeBegin("i");
        expr(AS->getIdx());
        J.attributeEnd();
        // declared extent of the indexed array, if the base is an array lvalue
        const Expr *B = AS->getBase()->IgnoreParenImpCasts();
        if (auto *CAT = Ctx.getAsConstantArrayType(B->getType()))
          J.attribute("ext", (int64_t)CAT->getSize().getZExtValue());
      } else if (auto *CO = dyn_cast<AbstractConditionalOperator>(S)) {
        J.attribute("k", "Cond");
        J.attribute("cf", 1);
        J.attribute("t", typeStr(CO->getType()));
        loc(CO->getQuestionLoc());
        J.attributeBegin("c");
        expr(CO->getCond());
        J.attributeEnd();
        J.attributeBegin("a");
        expr(CO->getTrueExpr());
        J.attributeEnd();
        J.attributeBegin("b");
        expr(CO->getFalseExpr());
        J.attributeEnd();
      } else if (auto *CA = dyn_cast<CastExpr>(S)) {
        J.attribute("k", isa<ImplicitCastExpr>(CA) ? "ICast" : "Cast");
        J.attribute("ck", castKindName(CA->getCastKind()));
        J.attribute("t", typeStr(CA->getType()));
        loc(CA->getBeginLoc());
        J.attributeBegin("e");
        expr(CA->getSubExpr());
        J.attributeEnd();
      } else if (auto *IL = dyn_cast<IntegerLiteral>(S)) {
        J.attribute("k", "Int");
        J.attribute("v", IL->getValue().getLimitedValue() > (uint64_t)INT64_MAX
                             ? (int64_t)IL->getValue().getZExtValue()
                             : (int64_t)IL->getValue().getZExtValue());
        loc(IL->getBeginLoc());
      } else if (auto *CL = dyn_cast<CharacterLiteral>(S)) {
        J.attribute("k", "Int");
        J.attribute("v", (int64_t)CL->getValue());
        loc(CL->getBeginLoc());
      } else if (auto *FL = dyn_cast<FloatingLiteral>(S)) {
        J.attribute("k", "Float");
        J.attribute("fv", FL->getValueAsApproximateDouble());
        loc(FL->getBeginLoc());
      } else if (auto *SL = dyn_cast<clang::StringLiteral>(S)) {
        J.attribute("k", "Str");
        if (SL->isAscii() || SL->isUTF8()) {
          std::string V = SL->getString().str();
          if (V.size() > 200)
            V = V.substr(0, 200);
          J.attribute("s", llvm::json::fixUTF8(V));
        }
        J.attribute("len", (int64_t)SL->getLength());
        loc(SL->getBeginLoc());
      } else if (auto *UE = dyn_cast<UnaryExprOrTypeTraitExpr>(S)) {
        J.attribute("k", "Sizeof");
        J.attribute("t", typeStr(UE->getType()));
        J.attribute("of", typeStr(UE->getTypeOfArgument()));
        if (!UE->isArgumentType()) {
          J.attributeBegin("e");
          expr(UE->getArgumentExpr());
          J.attributeEnd();
        }
        loc(UE->getBeginLoc());
      } else if (auto *DS = dyn_cast<DeclStmt>(S)) {
        J.attribute("k", "Decl");
        loc(DS->getBeginLoc());
        J.attributeArray("vars", [&] {
          for (const Decl *D : DS->decls()) {
            if (auto *VD = dyn_cast<VarDecl>(D)) {
              J.object([&] {
                declRef(VD);
                J.attribute("t", typeStr(VD->getType()));
                if (VD->hasInit()) {
                  J.attributeBegin("init");
                  expr(VD->getInit());
                  J.attributeEnd();
                }
              });
            }
          }
        });
      } else if (auto *RS = dyn_cast<ReturnStmt>(S)) {
        J.attribute("k", "Return");
        loc(RS->getReturnLoc());
        if (RS->getRetValue()) {
          J.attributeBegin("e");
          expr(RS->getRetValue());
          J.attributeEnd();
        }
      } else if (auto *ILE = dyn_cast<InitListExpr>(S)) {
        J.attribute("k", "Init");
        J.attribute("t", typeStr(ILE->getType()));
        loc(ILE->getBeginLoc());
        J.attributeArray("c", [&] {
          for (const Expr *I : ILE->inits())
            expr(I);
        });
      } else if (auto *SE = dyn_cast<StmtExpr>(S)) {
        J.attribute("k", "StmtExpr");
        J.attribute("cf", 1);
        loc(SE->getBeginLoc());
      } else if (auto *CCE = dyn_cast<CXXConstructExpr>(S)) {
        J.attribute("k", "Construct");
        J.attribute("t", typeStr(CCE->getType()));
        loc(CCE->getBeginLoc());
        J.attributeArray("args", [&] {
          for (const Expr *A : CCE->arguments())
            expr(A);
        });
      } else if (auto *TE = dyn_cast<CXXThisExpr>(S)) {
        J.attribute("k", "This");
        J.attribute("t", typeStr(TE->getType()));
      } else if (auto *LE = dyn_cast<LambdaExpr>(S)) {
        J.attribute("k", "Lambda");
        loc(LE->getBeginLoc());
      } else if (auto *AE = dyn_cast<AtomicExpr>(S)) {
        // C11 / GNU atomic builtins: modelled as a call of the generic operation on (pointer, value...)
        J.attribute("k", "Call");
        const char *nm = "atomic_op";
        switch (AE->getOp()) {
        case AtomicExpr::AO__c11_atomic_store: case AtomicExpr::AO__atomic_store: case AtomicExpr::AO__atomic_store_n: nm = "atomic_store"; break;
        case AtomicExpr::AO__c11_atomic_load: case AtomicExpr::AO__atomic_load: case AtomicExpr::AO__atomic_load_n: nm = "atomic_load"; break;
        case AtomicExpr::AO__c11_atomic_exchange: case AtomicExpr::AO__atomic_exchange: case AtomicExpr::AO__atomic_exchange_n: nm = "atomic_exchange"; break;
        case AtomicExpr::AO__c11_atomic_fetch_add: case AtomicExpr::AO__atomic_fetch_add: nm = "atomic_fetch_add"; break;
        case AtomicExpr::AO__c11_atomic_fetch_sub: case AtomicExpr::AO__atomic_fetch_sub: nm = "atomic_fetch_sub"; break;
        case AtomicExpr::AO__c11_atomic_fetch_or: case AtomicExpr::AO__atomic_fetch_or: nm = "atomic_fetch_or"; break;
        case AtomicExpr::AO__c11_atomic_fetch_and: case AtomicExpr::AO__atomic_fetch_and: nm = "atomic_fetch_and"; break;
        case AtomicExpr::AO__c11_atomic_compare_exchange_strong: case AtomicExpr::AO__c11_atomic_compare_exchange_weak:
        case AtomicExpr::AO__atomic_compare_exchange: case AtomicExpr::AO__atomic_compare_exchange_n: nm = "atomic_compare_exchange"; break;
        default: break;
        }
        J.attribute("fn", nm);
        J.attribute("atomic", 1);
        J.attribute("t", typeStr(AE->getType()));
        loc(AE->getBeginLoc());
        J.attributeArray("args", [&] {
          expr(AE->getPtr());
          switch (AE->getOp()) {
          case AtomicExpr::AO__c11_atomic_load: case AtomicExpr::AO__atomic_load_n:
            break;
          default:
            if (AE->getNumSubExprs() >= 3) expr(AE->getVal1());
            break;
          }
        });
      } else {
        J.attribute("k", S->getStmtClassName());
        if (E)
          J.attribute("t", typeStr(E->getType()));
        loc(S->getBeginLoc());
        children(S);
      }
    });
  }

  std::string srcText(const Stmt *S) {
    if (!S)
      return "";
    auto R = CharSourceRange::getTokenRange(S->getSourceRange());
    // prefer the spelling in the file where the expansion happens (macro name)
    auto FR = Lexer::makeFileCharRange(
        CharSourceRange::getTokenRange(SM.getExpansionRange(S->getSourceRange()).getAsRange()), SM,
        Ctx.getLangOpts());
    if (FR.isValid()) {
      auto T = Lexer::getSourceText(FR, SM, Ctx.getLangOpts()).str();
      if (T.size() > 120)
        T = T.substr(0, 120);
      return T;
    }
    (void)R;
    return "";
  }

  void blockLabel(const Stmt *L) {
    if (!L)
      return;
    J.attributeBegin("label");
    J.object([&] {
      if (auto *CS = dyn_cast<CaseStmt>(L)) {
        J.attribute("k", "case");
        Expr::EvalResult R;
        if (CS->getLHS()->EvaluateAsInt(R, Ctx))
          J.attribute("lo", R.Val.getInt().getExtValue());
        J.attribute("src", srcText(CS->getLHS()));
        if (CS->getRHS()) {
          if (CS->getRHS()->EvaluateAsInt(R, Ctx))
            J.attribute("hi", R.Val.getInt().getExtValue());
        }
        J.attribute("l", (int64_t)lineOf(CS->getBeginLoc()));
      } else if (isa<DefaultStmt>(L)) {
        J.attribute("k", "default");
        J.attribute("l", (int64_t)lineOf(L->getBeginLoc()));
      } else if (auto *LS = dyn_cast<LabelStmt>(L)) {
        J.attribute("k", "label");
        J.attribute("n", LS->getName());
        J.attribute("l", (int64_t)lineOf(L->getBeginLoc()));
      } else {
        J.attribute("k", L->getStmtClassName());
      }
    });
    J.attributeEnd();
  }

  void function(const FunctionDecl *FD) {
    resetFunction();
    const Stmt *Body = FD->getBody();
    CFG::BuildOptions BO;
    BO.AddImplicitDtors = Ctx.getLangOpts().CPlusPlus;
    BO.AddTemporaryDtors = false;
    BO.PruneTriviallyFalseEdges = true;
    std::unique_ptr<CFG> G = CFG::buildCFG(FD, const_cast<Stmt *>(Body), &Ctx, BO);
    J.object([&] {
      J.attribute("fn", FD->getNameAsString());
      J.attribute("qfn", FD->getQualifiedNameAsString());
      J.attribute("file", fileOf(FD->getLocation()));
      J.attribute("l", (int64_t)lineOf(FD->getBeginLoc()));
      J.attribute("le", (int64_t)lineOf(FD->getEndLoc()));
      J.attribute("static", FD->getStorageClass() == SC_Static);
      J.attribute("inl", FD->isInlineSpecified());
      J.attribute("nr", FD->isNoReturn());
      J.attribute("rt", typeStr(FD->getReturnType()));
      J.attributeArray("params", [&] {
        for (const ParmVarDecl *P : FD->parameters()) {
          J.object([&] {
            declRef(P);
            J.attribute("t", typeStr(P->getType()));
          });
        }
      });
      if (!G) {
        J.attribute("cfg_failed", true);
        return;
      }
      ElemIds.clear();
      {
        unsigned N = 0;
        for (const CFGBlock *B : *G)
          for (const CFGElement &E : *B)
            if (auto CS = E.getAs<CFGStmt>())
              ElemIds.emplace(CS->getStmt(), N++);
      }
      J.attribute("entry", (int64_t)G->getEntry().getBlockID());
      J.attribute("exit", (int64_t)G->getExit().getBlockID());
      J.attributeArray("blocks", [&] {
        for (const CFGBlock *B : *G) {
          J.object([&] {
            J.attribute("id", (int64_t)B->getBlockID());
            if (B->hasNoReturnElement())
              J.attribute("nr", 1);
            blockLabel(B->getLabel());
            J.attributeArray("succ", [&] {
              for (auto It = B->succ_begin(); It != B->succ_end(); ++It) {
                const CFGBlock *S = It->getReachableBlock();
                if (S)
                  J.value((int64_t)S->getBlockID());
                else if (const CFGBlock *U = It->getPossiblyUnreachableBlock())
                  J.value(-(int64_t)U->getBlockID() - 1); // pruned edge
                else
                  J.value(nullptr);
              }
            });
            if (const Stmt *T = B->getTerminatorStmt()) {
              J.attributeBegin("term");
              J.object([&] {
                J.attribute("k", T->getStmtClassName());
                if (auto *BOp = dyn_cast<BinaryOperator>(T))
                  J.attribute("op", BOp->getOpcodeStr());
                J.attribute("l", (int64_t)lineOf(T->getBeginLoc()));
                if (auto *GS = dyn_cast<GotoStmt>(T))
                  J.attribute("n", GS->getLabel()->getName());
                if (const Stmt *C = B->getTerminatorCondition(false)) {
                  J.attributeBegin("cond");
                  expr(C);
                  J.attributeEnd();
                }
              });
              J.attributeEnd();
            }
            J.attributeArray("el", [&] {
              for (const CFGElement &E : *B) {
                if (auto CS = E.getAs<CFGStmt>()) {
                  Root = CS->getStmt();
                  expr(CS->getStmt());
                  Root = nullptr;
                } else if (auto AD = E.getAs<CFGAutomaticObjDtor>()) {
                  J.object([&] {
                    J.attribute("k", "Dtor");
                    declRef(AD->getVarDecl());
                    J.attribute("t", typeStr(AD->getVarDecl()->getType()));
                    J.attribute("l", (int64_t)lineOf(AD->getTriggerStmt()->getEndLoc()));
                  });
                }
              }
            });
          });
        }
      });
    });
  }
};

class Collector : public RecursiveASTVisitor<Collector> {
public:
  std::vector<const FunctionDecl *> Funcs;
  std::vector<const RecordDecl *> Records;
  std::vector<const VarDecl *> Globals;
  std::vector<const EnumConstantDecl *> Enums;
  std::vector<const FunctionDecl *> Protos;
  bool shouldVisitTemplateInstantiations() const { return true; }
  bool shouldVisitImplicitCode() const { return false; }
  bool VisitFunctionDecl(FunctionDecl *FD) {
    if (FD->doesThisDeclarationHaveABody() && !FD->isDependentContext())
      Funcs.push_back(FD);
    else if (!FD->isDependentContext())
      Protos.push_back(FD);
    return true;
  }
  bool VisitRecordDecl(RecordDecl *RD) {
    if (RD->isCompleteDefinition() && !RD->isDependentContext())
      Records.push_back(RD);
    return true;
  }
  bool VisitVarDecl(VarDecl *VD) {
    if (VD->hasGlobalStorage() && !VD->getDeclContext()->isDependentContext())
      Globals.push_back(VD);
    return true;
  }
  bool VisitEnumConstantDecl(EnumConstantDecl *D) {
    Enums.push_back(D);
    return true;
  }
  std::set<const FunctionDecl *> Called;
  bool VisitCallExpr(CallExpr *CE) {
    if (const FunctionDecl *FD = CE->getDirectCallee())
      Called.insert(FD->getCanonicalDecl());
    return true;
  }
  bool VisitDeclRefExpr(DeclRefExpr *DRE) {
    if (auto *FD = dyn_cast<FunctionDecl>(DRE->getDecl()))
      Called.insert(FD->getCanonicalDecl());
    return true;
  }
};

class Consumer : public ASTConsumer {
public:
  Consumer(std::string In) : InFile(std::move(In)) {}
  std::string InFile;

  void HandleTranslationUnit(ASTContext &Ctx) override {
    if (Ctx.getDiagnostics().hasErrorOccurred()) {
      llvm::errs() << "nlx: parse errors in " << InFile << "\n";
      return; // no output file => analysis broken for this unit
    }
    SourceManager &SM = Ctx.getSourceManager();
    std::string Path = OutDir + "/" + unitKey(InFile) + ".jsonl";
    std::error_code EC;
    llvm::raw_fd_ostream OS(Path + ".tmp", EC);
    if (EC) {
      llvm::errs() << "nlx: cannot write " << Path << "\n";
      return;
    }
    Collector Col;
    Col.TraverseDecl(Ctx.getTranslationUnitDecl());

    auto inSystem = [&](SourceLocation L) { return SM.isInSystemHeader(SM.getExpansionLoc(L)); };

    {
      json::OStream J(OS);
      Emitter Em(Ctx, J);
      J.object([&] {
        J.attribute("unit", InFile);
        J.attribute("cxx", (bool)Ctx.getLangOpts().CPlusPlus);
        J.attributeArray("records", [&] {
          for (const RecordDecl *RD : Col.Records) {
            if (inSystem(RD->getLocation()))
              continue;
            std::string RN = RD->getNameAsString();
            if (RN.empty())
              if (auto *TD = RD->getTypedefNameForAnonDecl())
                RN = TD->getNameAsString();
            J.object([&] {
              J.attribute("n", RN);
              J.attribute("union", RD->isUnion());
              J.attribute("file", Em.fileOf(RD->getLocation()));
              J.attribute("l", (int64_t)Em.lineOf(RD->getLocation()));
              J.attributeArray("fields", [&] {
                for (const FieldDecl *F : RD->fields()) {
                  J.object([&] {
                    J.attribute("n", F->getNameAsString());
                    J.attribute("t", Em.typeStr(F->getType()));
                    J.attribute("l", (int64_t)Em.lineOf(F->getLocation()));
                    if (F->isBitField())
                      J.attribute("bits", (int64_t)F->getBitWidthValue(Ctx));
                    if (auto *CAT = Ctx.getAsConstantArrayType(F->getType()))
                      J.attribute("ext", (int64_t)CAT->getSize().getZExtValue());
                    if (F->getType()->isIntegerType() && !F->getType()->isDependentType())
                      J.attribute("w", (int64_t)Ctx.getTypeSize(F->getType()));
                  });
                }
              });
            });
          }
        });
        J.attributeArray("globals", [&] {
          for (const VarDecl *VD : Col.Globals) {
            if (inSystem(VD->getLocation()))
              continue;
            J.object([&] {
              J.attribute("n", VD->getNameAsString());
              J.attribute("t", Em.typeStr(VD->getType()));
              J.attribute("file", Em.fileOf(VD->getLocation()));
              J.attribute("l", (int64_t)Em.lineOf(VD->getLocation()));
              J.attribute("static", VD->getStorageClass() == SC_Static);
              J.attribute("local", VD->isStaticLocal());
              J.attribute("def", VD->isThisDeclarationADefinition() != VarDecl::DeclarationOnly);
              J.attribute("vol", VD->getType().isVolatileQualified());
              J.attribute("tls", VD->getTLSKind() != VarDecl::TLS_None);
              J.attribute("atomic", VD->getType()->isAtomicType() ||
                                        Em.typeStr(VD->getType()).find("atomic") != std::string::npos);
              if (auto *CAT = Ctx.getAsConstantArrayType(VD->getType()))
                J.attribute("ext", (int64_t)CAT->getSize().getZExtValue());
              if (VD->hasInit() && !inSystem(VD->getLocation())) {
                Em.resetFunction();
                J.attributeBegin("init");
                Em.expr(VD->getInit());
                J.attributeEnd();
              }
            });
          }
        });
        J.attributeArray("protos", [&] {
          std::set<std::string> Seen;
          std::vector<const FunctionDecl *> All(Col.Protos.begin(), Col.Protos.end());
          for (const FunctionDecl *FD : Col.Funcs)
            All.push_back(FD);
          for (const FunctionDecl *FD : Col.Called)
            All.push_back(FD);
          for (const FunctionDecl *FD : All) {
            if (inSystem(FD->getLocation()) && !Col.Called.count(FD->getCanonicalDecl()))
              continue;
            if (!Seen.insert(FD->getNameAsString()).second)
              continue;
            J.object([&] {
              J.attribute("fn", FD->getNameAsString());
              J.attribute("nr", FD->isNoReturn());
              J.attribute("variadic", FD->isVariadic());
              J.attribute("sys", inSystem(FD->getLocation()));
              J.attribute("rt", Em.typeStr(FD->getReturnType()));
              J.attributeArray("pt", [&] {
                for (const ParmVarDecl *P : FD->parameters())
                  J.value(Em.typeStr(P->getType()));
              });
            });
          }
        });
      });
      OS << "\n";
    }
    for (const FunctionDecl *FD : Col.Funcs) {
      if (inSystem(FD->getLocation()))
        continue;
      json::OStream J(OS);
      Emitter Em(Ctx, J);
      Em.function(FD);
      OS << "\n";
    }
    OS.close();
    llvm::sys::fs::rename(Path + ".tmp", Path);
  }
};

class Action : public ASTFrontendAction {
public:
  std::unique_ptr<ASTConsumer> CreateASTConsumer(CompilerInstance &CI, llvm::StringRef InFile) override {
    CI.getDiagnostics().setSuppressAllDiagnostics(false);
    return std::make_unique<Consumer>(InFile.str());
  }
};

} // namespace

int main(int argc, const char **argv) {
  auto Exp = CommonOptionsParser::create(argc, argv, Cat);
  if (!Exp) {
    llvm::errs() << llvm::toString(Exp.takeError());
    return 2;
  }
  ClangTool Tool(Exp->getCompilations(), Exp->getSourcePathList());
  return Tool.run(newFrontendActionFactory<Action>().get());
}
