"""Path provenance analysis (C15, C16-a): forward dataflow that tags every char*
local with where its text came from, and decides each file-system sink.

Tags
  ('V', mode)   non-NULL-tested result of check_valid_path; mode 'r' | 'w' | ('param', k)
  ('Vn', mode)  result of check_valid_path not yet NULL-tested
  ('L',)        passed legal_path() on this path
  ('N',)        output of inc_lexically_normal (table: declared sanitiser, string semantics not decided)
  ('I',)        driver-internal text: string literal, CONFIG_STR(...), table of internal globals
  ('P', k)      the function's own k-th parameter (obligation moves to the call sites)
  ('U', why)    anything else (LPC-controlled or unknown)
"""
import facts
from dataflow import solve, join_union
from facts import strip, show, walk, const_val

# sink table: function -> (path argument indexes, kind) ; kind: 'open' decided by mode/flags, 'meta', 'mut'
SINKS = {
    "open": ((0,), "open"), "open64": ((0,), "open"), "fopen": ((0,), "fopen"), "fopen64": ((0,), "fopen"),
    "freopen": ((0,), "fopen"), "opendir": ((0,), "read"), "stat": ((0,), "meta"), "lstat": ((0,), "meta"),
    "stat64": ((0,), "meta"), "lstat64": ((0,), "meta"),
    "access": ((0,), "meta"), "unlink": ((0,), "mut"), "remove": ((0,), "mut"), "rename": ((0, 1), "mut"),
    "mkdir": ((0,), "mut"), "rmdir": ((0,), "mut"), "symlink": ((0, 1), "mut"), "link": ((0, 1), "mut"),
    "chmod": ((0,), "mut"), "truncate": ((0,), "mut"), "creat": ((0,), "mut"), "chdir": ((0,), "meta"),
    "mkfifo": ((0,), "mut"), "chown": ((0,), "mut"), "utime": ((0,), "mut"), "utimes": ((0,), "mut"),
    "mkstemp": ((0,), "mut"), "scandir": ((0,), "read"), "readlink": ((0,), "meta"), "realpath": ((0,), "meta"),
    "execl": ((0,), "mut"), "execv": ((0,), "mut"), "execve": ((0,), "mut"), "execvp": ((0,), "mut"),
    "system": ((0,), "mut"), "popen": ((0,), "mut"), "dlopen": ((0,), "read"),
}
O_WRONLY, O_RDWR, O_CREAT, O_TRUNC, O_APPEND = 1, 2, 0o100, 0o1000, 0o2000

# libc calls that only read their char* arguments
PURE = {"strlen", "strcmp", "strncmp", "strchr", "strrchr", "strstr", "strcasecmp", "strncasecmp", "atoi", "atol",
        "strtol", "puts", "fputs", "printf", "fprintf", "perror", "strpbrk", "strspn", "strcspn", "memcmp",
        "memchr", "strdup", "strnlen", "fwrite", "write"}
COPY_REPLACE = {"strcpy": (0, 1), "strncpy": (0, 1), "memcpy": (0, 1), "memmove": (0, 1), "stpcpy": (0, 1),
                "strlcpy": (0, 1), "__builtin_strcpy": (0, 1), "__builtin_strncpy": (0, 1),
                "__builtin_memcpy": (0, 1)}
COPY_APPEND = {"strcat": (0, 1), "strncat": (0, 1), "strlcat": (0, 1), "__builtin_strcat": (0, 1),
               "__builtin_strncat": (0, 1)}
FORMAT = {"sprintf": (0, 1), "snprintf": (0, 2), "__builtin_sprintf": (0, 1), "__builtin_snprintf": (0, 2),
          "__builtin___sprintf_chk": (0, 3), "__builtin___snprintf_chk": (0, 4)}

I = ("I",)
L = ("L",)
N = ("N",)


class Tables:
    """Repo-specific slots, confirmed by reading (one reason each)."""
    # functions whose char* out-parameter receives a transformed copy of an in-parameter: fn -> (dst, src, extra tag)
    COPIERS = {
        # strip_name(src, dest, size): copies src without leading '/' and a trailing ".c" (simulate.c)
        "strip_name": (1, 0, None),
        # inc_lexically_normal(base, name, dest): dest := base dir + name with ./.. folded (lex.c); declared sanitiser
        "inc_lexically_normal": (2, None, N),
    }
    # globals holding driver-internal text (set from the config file / command line, never from LPC)
    INTERNAL_GLOBALS = {
        "current_file": "name of the file being compiled; set by compile_file from load_object's legal_path-checked name",
        "inc_list": "include search dirs; every element admitted by legal_path in set_inc_list (checked by rule C15-b2)",
    }
    # parameters that are LPC-controlled by design: the obligation is decided inside the function
    ENTRY_PARAMS = {("load_object", 0): "object name given by LPC code (load_object parameter)"}
    # struct fields holding driver-internal text: (record, field) -> reason (writers checked by C15-b)
    INTERNAL_FIELDS = {("program_s", "name"): "program name = source file name admitted by load_object/legal_path; writers: epilog, load_binary (checked by C15-b)"}
    # locals holding driver-written data: (function, local) -> reason
    INTERNAL_LOCALS = {("load_binary", "buf"): "include/inherit names read back from the driver's own saved binary (written by save_binary from names that were opened through inc_open/load_object)"}
    INTERNAL_MACROS = {"CONFIG_STR": "configuration file value, not LPC-controlled", "MAIN_OPTION": "command line option"}


def var_key(e):
    """Key for a tracked variable: locals/params by id; local arrays likewise."""
    e = strip(e)
    if not isinstance(e, dict):
        return None
    k = e.get("k")
    if k == "Ref" and e.get("d") in ("local", "param", "slocal"):
        return ("v", e["n"], e.get("id"))
    if k == "Mem" and (e.get("t") or "").startswith("char") and "[" in (e.get("t") or ""):
        # a char array field of a record reached through a global/static pointer (current_ed_buffer->fname): tracked
        # only from a copy into it up to the next call that could write it (see elem())
        b = strip(e["b"])
        if b.get("k") == "Ref" and b.get("d") in ("global", "static"):
            return ("f", "%s->%s" % (b["n"], e.get("f")), None)
    if k == "Un" and e.get("op") == "&":
        return var_key(e["e"])
    if k == "Sub":  # &buf[k] / buf[k] as the start of a copy
        return var_key(e["b"])
    if k == "Bin" and e.get("op") in ("+", "-"):
        return var_key(e["L"])
    return None


def is_exact_start(e):
    """True when expression e designates the start of the buffer (strcpy(dest,..) replaces it)."""
    e = strip(e)
    if isinstance(e, dict) and e.get("k") in ("Ref", "Mem"):
        return True
    return False


class Analysis:
    def __init__(self, func, ret_summaries=None, protos=None, check_fn="check_valid_path", null_params=()):
        # null_params: indexes of pointer parameters that every caller in the program passes as literal 0
        self.null_params = set(null_params)
        self.f = func
        self.ret_summaries = ret_summaries or {}
        self.protos = protos or {}
        self.sinks = []  # (block, idx, call node, arg index, kind, tags)
        self.calls = []  # (block, idx, call node, [tags per arg])
        self.returns = set()
        self.lp_flags = {}   # int local assigned from legal_path(p) -> key of p
        self.check_fn = check_fn

    # ---- evaluation
    def tags(self, e, st):
        e = strip(e)
        if not isinstance(e, dict):
            return frozenset()
        k = e.get("k")
        m = e.get("m") or ()
        for im in Tables.INTERNAL_MACROS:
            if im in m and k in ("Call", "Mem", "Sub", "Ref", "Cond", "Un"):
                return frozenset([I])
        if k == "Str":
            # a driver literal is trusted as a path component unless it climbs: "../" spliced into a path undoes what
            # legal_path() established for the approved part
            txt = e.get("s", "") or ""
            if ".." in txt.replace("...", ""):
                return frozenset([("U", "literal %r contains '..'" % txt[:16])])
            return frozenset([I])
        if k == "Int":
            return frozenset([I]) if e.get("v") == 0 else frozenset([("U", "integer as pointer")])
        if k == "Ref":
            d = e.get("d")
            if d in ("local", "param", "slocal"):
                if (self.f.name, e["n"]) in Tables.INTERNAL_LOCALS:
                    return frozenset([I])
                return st.get(("v", e["n"], e.get("id")), frozenset())
            if e["n"] in Tables.INTERNAL_GLOBALS:
                return frozenset([I])
            return frozenset([("U", "global " + e["n"])])
        if k == "Asg":
            return self.tags(e["R"], st) if e["op"] == "=" else self.tags(e["L"], st)
        if k == "Cond":
            return self.tags(e["a"], st) | self.tags(e["b"], st)
        if k == "Bin":
            if e["op"] in ("+", "-"):
                return self.tags(e["L"], st) if facts.is_pointer_t(e["L"]) else self.tags(e["R"], st)
            if e["op"] == ",":
                return self.tags(e["R"], st)
            return frozenset([("U", "expr " + show(e))])
        if k == "Un":
            if e["op"] == "&":
                return self.tags(e["e"], st)
            if e["op"] in ("++", "--"):
                return self.tags(e["e"], st)
            if e["op"] == "*":
                return frozenset([("U", "deref " + show(e))])
        if k == "Sub":
            vk = var_key(e)
            b = strip(e["b"])
            if b.get("k") == "Ref" and b.get("d") not in ("local", "param", "slocal") and b["n"] in Tables.INTERNAL_GLOBALS:
                return frozenset([I])
            if vk is not None and e.get("t", "").startswith("char"):
                return st.get(vk, frozenset())  # &buf[k]
            return frozenset([("U", "element " + show(e))])
        if k == "Mem":
            if (e.get("rec"), e.get("f")) in Tables.INTERNAL_FIELDS:
                return frozenset([I])
            fk = var_key(e)
            if fk is not None and fk[0] == "f" and fk in st:
                return st[fk]
            return frozenset([("U", "field " + show(e))])
        if k == "Call" and isinstance(e.get("ret"), dict) and e.get("fn") != self.check_fn:
            # a call of a file-local helper whose body was spliced in (engine/inline.py): its value is what the spliced
            # `return` statements stored
            return st.get(("v", e["ret"]["n"], e["ret"].get("id")), frozenset([("U", "result of " + (e.get("fn") or "?"))]))
        if k == "Call":
            fn = e.get("fn")
            if fn == self.check_fn:
                args = e.get("args", [])
                mode = "r"
                if len(args) >= 4:
                    cv = const_val(args[3])
                    a3 = strip(args[3])
                    if cv is not None:
                        mode = "w" if cv != 0 else "r"
                    elif a3.get("k") == "Ref" and a3.get("d") == "param":
                        mode = ("param", a3.get("pi"))
                    else:
                        mode = "r"
                return frozenset([("Vn", mode)])
            if fn in self.ret_summaries:
                out = set()
                for t in self.ret_summaries[fn]:
                    out |= self.instantiate(t, e, st)
                return frozenset(out)
            if fn in ("strcpy", "strncpy", "strcat", "strncat", "memcpy", "stpcpy"):
                return self.tags(e["args"][0], st)
            if fn in ("strchr", "strrchr", "strstr", "strpbrk"):
                return self.tags(e["args"][0], st)
            return frozenset([("U", "result of " + (fn or show(e.get("fe"))))])
        return frozenset([("U", show(e))])

    def instantiate(self, t, call, st):
        """Map a callee-relative tag to the call site."""
        args = call.get("args", [])
        if t[0] == "P":
            return set(self.tags(args[t[1]], st)) if t[1] < len(args) else {("U", "missing arg")}
        if t[0] in ("V", "Vn") and isinstance(t[1], tuple):
            k = t[1][1]
            mode = "r"
            if k is not None and k < len(args):
                cv = const_val(args[k])
                a = strip(args[k])
                if cv is not None:
                    mode = "w" if cv else "r"
                elif a.get("k") == "Ref" and a.get("d") == "param":
                    mode = ("param", a.get("pi"))
            return {(t[0], mode)}
        return {t}

    # ---- transfer
    def assign(self, st, lhs, tags):
        vk = None
        l = strip(lhs)
        if isinstance(l, dict) and l.get("k") == "Ref" and l.get("d") in ("local", "param", "slocal"):
            vk = ("v", l["n"], l.get("id"))
        if vk is not None and (l.get("t", "").endswith("*")):
            st = dict(st)
            st[vk] = tags
        return st

    def do_call(self, st, c, blk, idx, record):
        fn = c.get("fn")
        args = c.get("args", [])
        if record:
            self.calls.append((blk, idx, c, [self.tags(a, st) for a in args]))
        if fn in SINKS and record:
            argidx, kind = SINKS[fn]
            for ai in argidx:
                if ai < len(args):
                    self.sinks.append((blk, idx, c, ai, self.sink_mode(fn, kind, args), self.tags(args[ai], st)))
        if fn in COPY_REPLACE or fn in COPY_APPEND or fn in FORMAT:
            if fn in FORMAT:
                d, fpos = FORMAT[fn]
                src_tags = frozenset()
                for a in args[fpos:]:
                    sa = strip(a)
                    t = sa.get("t", "") if isinstance(sa, dict) else ""
                    if sa.get("k") == "Str" or t.endswith("*") or t.endswith("]"):
                        src_tags |= self.tags(a, st)
                replace = True
            else:
                d, s = (COPY_REPLACE.get(fn) or COPY_APPEND.get(fn))
                src_tags = self.tags(args[s], st) if s < len(args) else frozenset()
                replace = fn in COPY_REPLACE and is_exact_start(args[d])
            vk = var_key(args[d]) if d < len(args) else None
            if vk is not None:
                st = dict(st)
                st[vk] = src_tags if replace else (st.get(vk, frozenset()) | src_tags)
            return st
        if fn in Tables.COPIERS:
            d, s, extra = Tables.COPIERS[fn]
            vk = var_key(args[d]) if d < len(args) else None
            if vk is not None:
                st = dict(st)
                st[vk] = frozenset([extra]) if extra else self.tags(args[s], st)
            return st
        if fn == "memset" and args:
            vk = var_key(args[0])
            if vk is not None:
                st = dict(st)
                st[vk] = frozenset()
            return st
        if fn in PURE or fn in SINKS or fn == self.check_fn or fn == "legal_path":
            return st
        # any other callee may rewrite a record reached through a global pointer
        if any(k0[0] == "f" for k0 in st):
            st = {k0: v0 for k0, v0 in st.items() if k0[0] != "f"}
        # unknown callee: any tracked char buffer passed through a non-const char* parameter is overwritten
        pt = (self.protos.get(fn) or {}).get("pt")
        for i, a in enumerate(args):
            vk = var_key(a)
            if vk is None or vk not in st:
                continue
            sa = strip(a)
            at = sa.get("t", "")
            if not (at.startswith("char") and (at.endswith("]") or at.endswith("*"))):
                continue
            # only local arrays can be overwritten through the argument
            if not at.endswith("]"):
                continue
            if pt is not None and i < len(pt) and pt[i].startswith("const "):
                continue
            if pt is not None and i >= len(pt) and fn not in ("sscanf", "fscanf", "scanf"):
                continue  # variadic tail of a printf-like reporter: read only
            st = dict(st)
            st[vk] = frozenset([("U", "buffer written by %s" % (fn or "indirect call"))])
        return st

    def sink_mode(self, fn, kind, args):
        if kind == "fopen":
            m = strip(args[1]) if len(args) > 1 else None
            modes = set()
            for n in walk(m):
                if n.get("k") == "Str":
                    modes.add(n.get("s", ""))
            if modes and all(x and x[0] == "r" and "+" not in x for x in modes):
                return "r"
            return "w"
        if kind == "open":
            fl = const_val(args[1]) if len(args) > 1 else None
            if fl is not None and not (fl & (O_WRONLY | O_RDWR | O_CREAT | O_TRUNC | O_APPEND)):
                return "r"
            return "w"
        if kind == "mut":
            return "w"
        if kind == "meta":
            return "m"
        return "r"

    def elem(self, st, e, blk, idx, record):
        # evaluation order: visit calls (innermost first is not needed; effects are copies)
        for n in list(walk(e, True)):
            if n.get("k") == "Call":
                st = self.do_call(st, n, blk, idx, record)
        for n in list(walk(e, True)):
            k = n.get("k")
            if k == "Asg" and n["op"] == "=":
                r0, l0 = strip(n["R"]), strip(n["L"])
                if r0.get("k") == "Call" and r0.get("fn") == "legal_path" and l0.get("k") == "Ref" and l0.get("d") == "local" and r0.get("args"):
                    # `ok = legal_path (p)`: a later branch on `ok` is a branch on the call (as long as p is not reassigned:
                    # an assignment to p drops the association below)
                    vk = var_key(r0["args"][0])
                    if vk is not None:
                        self.lp_flags[l0.get("id")] = vk
                else:
                    vk = var_key(l0) if l0.get("k") == "Ref" else None
                    if vk is not None:
                        for fid in [fid for fid, v in self.lp_flags.items() if v == vk]:
                            self.lp_flags.pop(fid, None)
                st = self.assign(st, n["L"], self.tags(n["R"], st))
            elif k == "Decl":
                for v in n.get("vars", []):
                    if "init" in v and v.get("t", "").endswith("*"):
                        st = dict(st)
                        st[("v", v["n"], v.get("id"))] = self.tags(v["init"], st)
            elif k == "Return" and record and "e" in n:
                self.returns |= set(self.tags(n["e"], st))
        return st

    def transfer(self, record):
        def t(blk, st):
            for i, e in enumerate(blk.el):
                st = self.elem(st, e, blk, i, record)
            return st
        return t

    def edge(self, blk, idx, succ, st):
        c = self.f.branch_cond(blk)
        if c is None:
            return st
        truth = (idx == 0)
        c, truth = facts.normalize_cond(c, truth)
        tested = None
        c0 = strip(c)
        if c0.get("k") == "Bin" and c0.get("op") in ("==", "!="):
            lv, rv = const_val(c0["L"]), const_val(c0["R"])
            if rv == 0:
                tested, nonnull = c0["L"], (c0["op"] == "!=") == truth
            elif lv == 0:
                tested, nonnull = c0["R"], (c0["op"] == "!=") == truth
        elif c0.get("k") == "Ref" and c0.get("id") in self.lp_flags and c0.get("d") == "local":
            if truth:
                st = dict(st)
                st[self.lp_flags[c0.get("id")]] = frozenset([L])
            return st
        elif c0.get("k") == "Call" and c0.get("fn") == "legal_path":
            if truth:
                vk = var_key(c0["args"][0])
                if vk is not None:
                    st = dict(st)
                    st[vk] = frozenset([L])
            return st
        else:
            tested, nonnull = c0, truth
        if tested is not None:
            tt = strip(tested)
            if tt.get("k") == "Ref" and tt.get("d") == "param" and tt.get("pi") in self.null_params and nonnull:
                return None  # infeasible: every caller passes NULL for this parameter
        if tested is not None and nonnull:
            t0 = strip(tested)
            if t0.get("k") == "Asg":
                t0 = strip(t0["L"])
            vk = var_key(t0) if t0.get("k") == "Ref" else None
            if vk is not None and vk in st:
                new = frozenset(("V", t[1]) if t[0] == "Vn" else t for t in st[vk])
                if new != st[vk]:
                    st = dict(st)
                    st[vk] = new
        return st

    def run(self):
        init = {}
        for p in self.f.params:
            if p.get("t", "").endswith("*"):
                why = Tables.ENTRY_PARAMS.get((self.f.name, p.get("pi")))
                init[("v", p["n"], p.get("id"))] = frozenset([("U", why) if why else ("P", p.get("pi"))])
        ins = solve(self.f, init, self.transfer(False), self.edge, join_union)
        # final recording pass with the fixed-point in-states
        tr = self.transfer(True)
        for b in sorted(self.f.reachable(), reverse=True):
            if b in ins:
                tr(self.f.blocks[b], ins[b])
        return self
