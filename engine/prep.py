"""Build preparation: private CMake/Ninja dir from /repo's working tree, generated
sources, de-duplicated compile database, fact extraction (cached by the hash of
each preprocessed unit).  Nothing from /repo is executed except its own source
generators (bison, edit_source), which the real build runs too."""
import hashlib
import json
import os
import shlex
import subprocess
import sys
import time
from concurrent.futures import ThreadPoolExecutor

VERIF = os.path.dirname(os.path.dirname(os.path.abspath(__file__)))
REPO = os.environ.get("NEOLITH_REPO", "/repo")
CACHE = os.environ.get("NLX_CACHE", os.path.join(VERIF, ".cache"))
BUILD = os.path.join(CACHE, "build")
FACTS = os.path.join(CACHE, "facts")
NLX = os.environ.get("NLX_BIN") or os.path.join(CACHE, "bin", "nlx")
GUARD = "TAEDLAR_NEOLITH_VERIF"

EXCLUDE_UNITS = ("edit_source.c", "make_func.c", "getopt.c")


class PrepError(Exception):
    pass


def run(cmd, **kw):
    return subprocess.run(cmd, stdout=subprocess.PIPE, stderr=subprocess.PIPE, text=True, **kw)


def ensure_nlx():
    src = os.path.join(VERIF, "engine", "nlx", "nlx.cc")
    if os.path.exists(NLX) and os.path.getmtime(NLX) >= os.path.getmtime(src):
        return
    os.makedirs(os.path.dirname(NLX), exist_ok=True)
    cxxflags = run(["llvm-config-14", "--cxxflags"]).stdout.split()
    cmd = ["clang++"] + cxxflags + ["-fno-rtti", "-O1", src, "-o", NLX + ".tmp",
                                    "/usr/lib/llvm-14/lib/libclang-cpp.so.14",
                                    "/usr/lib/llvm-14/lib/libLLVM-14.so"]
    r = run(cmd)
    if r.returncode != 0:
        raise PrepError("building nlx failed:\n" + r.stderr[-3000:])
    os.replace(NLX + ".tmp", NLX)


def configure():
    """(Re)configure the private build dir and build only the source generators."""
    os.makedirs(CACHE, exist_ok=True)
    stamp = os.path.join(BUILD, ".repo")
    if os.path.exists(stamp) and open(stamp).read().strip() != REPO:
        subprocess.run(["rm", "-rf", BUILD])
    if not os.path.exists(os.path.join(BUILD, "build.ninja")):
        r = run(["cmake", "-G", "Ninja", "-S", REPO, "-B", BUILD, "-DBUILD_TESTING=OFF",
                 "-DCMAKE_BUILD_TYPE=RelWithDebInfo"])
        if r.returncode != 0:
            raise PrepError("cmake configure failed:\n" + r.stdout[-2000:] + r.stderr[-2000:])
        open(stamp, "w").write(REPO)
    # generators: edit_source (-> efuns_*.h) and bison grammar
    r = run(["ninja", "-C", BUILD, "edit_source", "lib/lpc/grammar.c"])
    if r.returncode != 0:
        # a stale configuration (e.g. a source file added/removed): reconfigure once
        subprocess.run(["rm", "-rf", BUILD])
        r2 = run(["cmake", "-G", "Ninja", "-S", REPO, "-B", BUILD, "-DBUILD_TESTING=OFF",
                  "-DCMAKE_BUILD_TYPE=RelWithDebInfo"])
        if r2.returncode != 0:
            raise PrepError("cmake configure failed:\n" + r2.stdout[-2000:] + r2.stderr[-2000:])
        open(stamp, "w").write(REPO)
        r = run(["ninja", "-C", BUILD, "edit_source", "lib/lpc/grammar.c"])
        if r.returncode != 0:
            raise PrepError("generator build failed:\n" + r.stdout[-3000:] + r.stderr[-2000:])


def compdb():
    r = run(["ninja", "-C", BUILD, "-t", "compdb"])
    if r.returncode != 0:
        raise PrepError("ninja -t compdb failed: " + r.stderr)
    db = json.loads(r.stdout)
    units = {}
    for e in db:
        f = e.get("file", "")
        if "command" not in e or not f.endswith((".c", ".cpp", ".cc")):
            continue
        if os.path.basename(f) in EXCLUDE_UNITS:
            continue
        if f in units:
            continue
        args = shlex.split(e["command"])
        # drop output/dep options, keep the real build's -D/-I/-std; analyse at -O0 -UNDEBUG
        out = []
        skip = 0
        for a in args[1:]:
            if skip:
                skip -= 1
                continue
            if a in ("-o", "-MF", "-MT", "-MQ"):
                skip = 1
                continue
            if a in ("-MD", "-MMD", "-c") or a.startswith("-O") or a == "-g" or a == "-DNDEBUG":
                continue
            if a == f:
                continue
            out.append(a)
        is_cxx = f.endswith((".cpp", ".cc"))
        comp = "clang++" if is_cxx else "clang"
        if is_cxx and not any(a.startswith("-std=") for a in out):
            out.append("-std=gnu++17")
        if not is_cxx and not any(a.startswith("-std=") for a in out):
            out.append("-std=gnu17")
        out += ["-O0", "-UNDEBUG", "-D" + GUARD, "-Wno-everything", "-c", f]
        units[f] = {"directory": e["directory"], "file": f, "arguments": [comp] + out}
    os.makedirs(os.path.join(CACHE, "db"), exist_ok=True)
    path = os.path.join(CACHE, "db", "compile_commands.json")
    new = json.dumps(list(units.values()), indent=0)
    if not os.path.exists(path) or open(path).read() != new:
        open(path, "w").write(new)
    return units


def unit_key(path):
    return path.replace("/", "_").replace(".", "_")


def _pp_hash(u):
    args = [a for a in u["arguments"] if a != "-c"]
    r = subprocess.run(args[:1] + ["-E"] + args[1:], cwd=u["directory"], stdout=subprocess.PIPE,
                       stderr=subprocess.PIPE)
    if r.returncode != 0:
        return None, r.stderr.decode(errors="replace")
    h = hashlib.sha256()
    h.update(b"nlx-v4\n")
    h.update(" ".join(args).encode())
    h.update(r.stdout)
    return h.hexdigest()[:24], ""


def extract(units, only=None):
    """Returns {unit path: facts file}. Raises PrepError if a unit fails to parse."""
    ensure_nlx()
    os.makedirs(FACTS, exist_ok=True)
    nlx_tag = str(int(os.path.getmtime(NLX)))
    todo = [u for f, u in units.items() if only is None or f in only]
    result = {}
    stale = []
    with ThreadPoolExecutor(max_workers=16) as ex:
        hashes = list(ex.map(_pp_hash, todo))
    for u, (h, err) in zip(todo, hashes):
        if h is None:
            raise PrepError("unit does not preprocess: %s\n%s" % (u["file"], err[-2000:]))
        out = os.path.join(FACTS, "%s-%s-%s.jsonl" % (unit_key(u["file"]), h, nlx_tag))
        result[u["file"]] = out
        if not os.path.exists(out):
            stale.append((u, out))

    def one(item):
        u, out = item
        tmpd = out + ".%d.d" % os.getpid()
        os.makedirs(tmpd, exist_ok=True)
        r = run([NLX, "-p", os.path.join(CACHE, "db"), "--out", tmpd, u["file"]])
        produced = os.path.join(tmpd, unit_key(u["file"]) + ".jsonl")
        if r.returncode != 0 or not os.path.exists(produced):
            subprocess.run(["rm", "-rf", tmpd])
            return (u["file"], r.stderr[-3000:] or "no output")
        os.replace(produced, out)
        subprocess.run(["rm", "-rf", tmpd])
        return None

    if stale:
        with ThreadPoolExecutor(max_workers=16) as ex:
            errs = [e for e in ex.map(one, stale) if e]
        if errs:
            raise PrepError("extraction failed:\n" + "\n".join("%s: %s" % e for e in errs))
        # drop superseded fact files of the re-extracted units
        keep = set(result.values())
        for fn in os.listdir(FACTS):
            p = os.path.join(FACTS, fn)
            if p in keep or not fn.endswith(".jsonl"):
                continue
            for u, _ in stale:
                # superseded version of a re-extracted unit; keep recent ones, a concurrent check may still read them
                if fn.startswith(unit_key(u["file"]) + "-"):
                    try:
                        if time.time() - os.path.getmtime(p) > 900:
                            os.remove(p)
                    except OSError:
                        pass
    return result


def prepare(only=None):
    """Serialised across processes: the private build directory and the fact cache are shared."""
    import fcntl
    t0 = time.time()
    os.makedirs(CACHE, exist_ok=True)
    with open(os.path.join(CACHE, "prep.lock"), "w") as lk:
        fcntl.flock(lk, fcntl.LOCK_EX)
        try:
            configure()
            units = compdb()
            facts = extract(units, only)
        finally:
            fcntl.flock(lk, fcntl.LOCK_UN)
    return units, facts, time.time() - t0


if __name__ == "__main__":
    try:
        units, facts, dt = prepare()
    except PrepError as e:
        print("ANALYSIS-BROKEN:", e)
        sys.exit(2)
    print("units: %d  facts dir: %s  (%.1fs)" % (len(units), FACTS, dt))
