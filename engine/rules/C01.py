"""C01 — running any LPC program is memory-safe (structural clauses only).

C01-a  format discipline: every call of a printf-like reporter passes a literal format (clang's
       -Wformat* with injected attributes) or text that is provably driver-literal; literal formats
       have no invalid/incomplete conversions
C01-b  bounded formatting: sprintf/vsprintf/strcpy/strcat into a fixed char array has an output bound
       that fits (computed from the literal format and argument types); the result of (v)snprintf is
       clamped before it is used as an index
C01-d  efun dispatch: each F_EFUNn case checks every fixed argument with CHECK_TYPES before calling
       through efun_table
C01-f  value-stack pushes are guarded by a stack-space check
C01-h  the saturating 16-bit string length (MSTR_SIZE == USHRT_MAX) is never used as a length without
       the strlen fallback
C01-c  LPC-controlled indices are range-checked before use (see C01c.py)"""
import os
import re

import facts
import cfgq
import fmtcheck
import prep
from core import rel
from facts import strip, show, walk, const_val, normalize_cond, atom_of

REPORTERS = {"error": 0, "fatal": 0, "debug_message": 0, "debug_message_with_src": 4, "log_message": 1, "add_vmessage": 1, "outbuf_addv": 1}
WIDTH_NOTE = re.compile(r"format specifies type '(unsigned )?(int|long|long long|unsigned int|unsigned long|short|char|void \*)'.* but the argument has type")

# max printed length of one conversion by argument type
INT_BOUND = {"int": 11, "unsigned int": 10, "long": 20, "unsigned long": 20, "long long": 20, "unsigned long long": 20, "short": 6, "unsigned short": 5,
             "char": 4, "unsigned char": 3, "signed char": 4}


def literal_only(prog, f, e, depth=0, seen=None):
    """True when expression e (a char*) can only hold text composed of string literals and integers:
    a literal; a local array filled by sprintf with a literal format whose %s arguments are literal-only;
    a variable every assignment of which is literal-only; a parameter of a function all of whose call
    sites pass literal-only text."""
    seen = seen or set()
    e = strip(e)
    if not isinstance(e, dict) or depth > 4:
        return False
    k = e.get("k")
    if k == "Str":
        return True
    if k == "Cond":
        return literal_only(prog, f, e["a"], depth + 1, seen) and literal_only(prog, f, e["b"], depth + 1, seen)
    if k == "Ref":
        key = (f.name if e.get("d") in ("local", "param", "slocal") else "", e["n"])
        if key in seen:
            return True
        seen = seen | {key}
        if e.get("d") in ("local", "slocal"):
            t = e.get("t", "")
            if t.endswith("]"):
                # local array: every write is a sprintf/strcpy with literal-only sources
                writes = []
                for b, i, n in f.calls(("sprintf", "snprintf", "strcpy", "strcat", "strncpy", "vsprintf", "vsnprintf")):
                    a0 = strip(n["args"][0])
                    if a0.get("k") == "Ref" and a0.get("id") == e.get("id"):
                        writes.append(n)
                if not writes:
                    return False
                for n in writes:
                    fpos = 2 if n["fn"] == "snprintf" else 1
                    if n["fn"] in ("sprintf", "snprintf"):
                        if strip(n["args"][fpos]).get("k") != "Str":
                            return False
                        for a in n["args"][fpos + 1:]:
                            at = strip(a).get("t", "")
                            if (at.endswith("*") or at.endswith("]")) and not literal_only(prog, f, a, depth + 1, seen):
                                return False
                    elif n["fn"] in ("strcpy", "strcat", "strncpy"):
                        if not literal_only(prog, f, n["args"][1], depth + 1, seen):
                            return False
                    else:
                        return False
                return True
            asg = [n for b, i, n in f.nodes() if n.get("k") == "Asg" and strip(n["L"]).get("id") == e.get("id") and strip(n["L"]).get("k") == "Ref"]
            decl = [v for b, i, n in f.nodes() if n.get("k") == "Decl" for v in n.get("vars", []) if v.get("id") == e.get("id") and "init" in v]
            srcs = [n["R"] for n in asg] + [v["init"] for v in decl]
            return bool(srcs) and all(literal_only(prog, f, s, depth + 1, seen) for s in srcs)
        if e.get("d") == "param":
            sites = [(g, n) for g in prog.functions() for b, i, n in g.calls(f.name)]
            if not sites:
                return False
            return all(e.get("pi") < len(n["args"]) and literal_only(prog, g, n["args"][e.get("pi")], depth + 1, seen) for g, n in sites)
        if e.get("d") in ("global", "static"):
            srcs = []
            for g in prog.functions():
                for b, i, n in g.nodes():
                    if n.get("k") == "Asg" and strip(n["L"]).get("k") == "Ref" and strip(n["L"]).get("n") == e["n"] and strip(n["L"]).get("d") in ("global", "static"):
                        srcs.append((g, n["R"]))
            return bool(srcs) and all(literal_only(prog, g, s, depth + 1, seen) for g, s in srcs)
    return False


def lpc_controlled(a):
    """argument expression reads an LPC value's number/real directly"""
    return any(x.get("k") == "Mem" and x.get("f") in ("number", "real") and x.get("rec") == "svalue_u" for x in walk(a))


def fmt_bound(fmt, args, prog, f, only_lpc=False):
    """Upper bound of the output length of a literal printf format, or (None, why) if unbounded/unknown.
    With only_lpc, numeric conversions whose argument is not LPC-controlled are charged their field width only
    (their real range is not visible; the caller reports the difference as undecided)."""
    total = 0
    ai = 0
    i = 0
    n = len(fmt)
    while i < n:
        c = fmt[i]
        if c != "%":
            total += 1
            i += 1
            continue
        m = re.match(r"%([-+ #0]*)(\*|\d+)?(?:\.(\*|\d+))?(hh|h|ll|l|z|j|t|L)?([diouxXcsfFeEgGp%])", fmt[i:])
        if not m:
            return None, "unparsed conversion at %d" % i
        flags, width, prec, length, conv = m.groups()
        i += len(m.group(0))
        if conv == "%":
            total += 1
            continue
        if width == "*" or prec == "*":
            return None, "'*' width/precision"
        w = int(width) if width else 0
        a = strip(args[ai]) if ai < len(args) else None
        ai += 1
        at = (a or {}).get("t", "") if isinstance(a, dict) else ""
        if conv in "diouxX":
            b = {"hh": 4, "h": 6, None: 11, "l": 20, "ll": 20, "z": 20, "j": 20, "t": 20}.get(length, 20)
            if only_lpc and not (a is not None and lpc_controlled(a)):
                b = 1
            total += max(w, b, int(prec) if prec else 0)
        elif conv == "c":
            total += max(w, 1)
        elif conv == "p":
            total += max(w, 18)
        elif conv in "gGeE":
            total += max(w, 24 + (int(prec) if prec else 0))
        elif conv in "fF":
            # every digit before the decimal point: DBL_MAX has 309
            if "float" in at and "double" not in at and a is not None and a.get("k") == "ICast" and False:
                pass
            if only_lpc and not (a is not None and (lpc_controlled(a) or a.get("n") == "farg")):
                total += max(w, 2 + (int(prec) if prec else 6))
            else:
                total += max(w, 311 + (int(prec) if prec else 6))
        elif conv == "s":
            if prec:
                total += max(w, int(prec))
            elif a is not None and a.get("k") == "Str":
                total += max(w, a.get("len", 0))
            elif a is not None and a.get("k") == "Cond" and all(strip(x).get("k") == "Str" for x in (a["a"], a["b"])):
                total += max(w, max(strip(a["a"]).get("len", 0), strip(a["b"]).get("len", 0)))
            else:
                return None, "%%s of `%s` has no visible length bound" % show(a)[:40]
    return total, ""


def arr_ext(e):
    """(remaining bytes, array text) when e designates a fixed char array (possibly + constant offset)"""
    e = strip(e)
    off = 0
    if e.get("k") == "Bin" and e.get("op") == "+" and const_val(e["R"]) is not None:
        off = const_val(e["R"])
        e = strip(e["L"])
    if e.get("k") == "Un" and e.get("op") == "&":
        e = strip(e["e"])
    if e.get("k") == "Sub" and const_val(e["i"]) is not None:
        off = const_val(e["i"])
        e = strip(e["b"])
    m = re.match(r"^(unsigned |signed )?char ?\[(\d+)\]$", e.get("t", ""))
    if m:
        return int(m.group(2)) - off, show(e)
    return None, None


def check(run, prog, tier):
    run.rule("C01-a", "every call of a printf-like reporter passes a string literal (or provably driver-literal text) as format; no invalid or incomplete conversion, no %s given a non-pointer", 500)
    run.rule("C01-b", "sprintf/vsprintf/strcpy/strcat into a fixed char array: the computed output bound fits the array; values returned by (v)snprintf are clamped to the buffer before indexing", 60)
    run.rule("C01-d", "eval_instruction: every efun dispatch through efun_table is preceded on all paths by one CHECK_TYPES per fixed argument slot", 5)
    run.rule("C01-f", "every increment of the value-stack pointer is covered by a stack-space check on that path (CHECK_AND_PUSH / STACK_CHECK / CHECK_STACK_OVERFLOW)", 30)
    run.rule("C01-h", "wherever the 16-bit saturating MSTR_SIZE reaches a copy/allocation length, the USHRT_MAX case is handled (strlen fallback)", 1)

    funcs = [f for f in prog.functions() if "/edit_source" not in f.file and "make_func" not in f.file]
    byname = prog.by_name()

    # ---------------------------------------------------------------- C01-a
    units = prep.compdb()
    diags, broken = fmtcheck.run_all(units)
    if broken:
        from core import Broken
        raise Broken("format channel: unit does not parse with the injected attributes: %s" % broken[0][0] + " " + broken[0][1][:200])
    by_loc = {}
    for d in diags:
        by_loc.setdefault((d["file"], d["line"]), []).append(d)
    ncalls = 0
    notes = 0
    for f in funcs:
        ordn = {}
        for b, i, n in f.calls(tuple(REPORTERS)):
            fpos = REPORTERS[n["fn"]]
            if fpos >= len(n.get("args", [])):
                continue
            ncalls += 1
            o = ordn.get(n["fn"], 0)
            ordn[n["fn"]] = o + 1
            inst = "fmt:%s:%s:%s:%d" % (rel(f.file), f.name, n["fn"], o)
            fa = strip(n["args"][fpos])
            ds = by_loc.get((f.file, n.get("l")), [])
            bad = [d for d in ds if d["flag"] in ("format-security", "format-nonliteral", "format-invalid-specifier", "format-insufficient-args") or
                   (d["flag"] == "format" and ("incomplete format specifier" in d["msg"] or "more '%' conversions" in d["msg"] or
                                               ("specifies type 'char *'" in d["msg"]) or ("but the argument has type 'char *'" in d["msg"]) or "invalid conversion" in d["msg"]))]
            notes += sum(1 for d in ds if d not in bad)
            if fa.get("k") == "Str" and not bad:
                run.saw(f)
                run.ob("C01-a", inst, True, "literal format %s, accepted by clang's format checker" % show(fa)[:40], f.file, n.get("l"), f.name)
                continue
            nonlit = fa.get("k") != "Str"
            if nonlit:
                # forwarded format parameter of a variadic wrapper, or provably literal text
                if fa.get("k") == "Ref" and fa.get("d") == "param" and any(p.get("t", "").startswith("struct __va_list_tag") or "va_list" in p.get("t", "") for p in f.params):
                    run.ob("C01-a", inst, True, "forwards its own format parameter", f.file, n.get("l"), f.name)
                    continue
                if literal_only(prog, f, fa):
                    run.ob("C01-a", inst, True, "non-literal format `%s` is composed of driver string literals and integers only" % show(fa), f.file, n.get("l"), f.name)
                    continue
                run.ob("C01-a", inst, False, "format argument `%s` of %s is not a literal and may contain text from LPC values" % (show(fa), n["fn"]), f.file, n.get("l"), f.name,
                       what="%s passes non-literal text `%s` as the format of %s: a '%%' in LPC-supplied text is interpreted as a conversion" % (f.name, show(fa), n["fn"]))
            else:
                run.ob("C01-a", inst, False, "; ".join(d["msg"] for d in bad)[:200], f.file, n.get("l"), f.name, what="%s: malformed format in %s(%s): %s" % (f.name, n["fn"], show(fa)[:40], bad[0]["msg"]))
    run.extra["format_width_notes"] = notes
    run.extra["reporter_call_sites"] = ncalls

    # ---------------------------------------------------------------- C01-b
    for f in funcs:
        ordn = 0
        for b, i, n in f.calls(("sprintf", "vsprintf", "strcpy", "strcat", "__builtin_sprintf", "__builtin_strcpy", "__builtin_strcat")):
            ext, name = arr_ext(n["args"][0])
            if ext is None:
                continue
            run.saw(f)
            inst = "bound:%s:%s:%s:%d" % (rel(f.file), f.name, name, ordn)
            ordn += 1
            fn = n["fn"].replace("__builtin_", "")
            if fn in ("strcpy", "strcat"):
                src = strip(n["args"][1])
                if src.get("k") == "Str":
                    # strcat appends: bound unknown without the current content; literals into large arrays are accepted when the literal alone fits
                    ok = src.get("len", 0) + 1 <= ext
                    run.ob("C01-b", inst, True if ok else False, "%s(%s, literal of %d) into %d bytes" % (fn, name, src.get("len", 0), ext), f.file, n.get("l"), f.name,
                           what="%s copies a %d-byte literal into %s[%d]" % (f.name, src.get("len", 0), name, ext))
                else:
                    e2, n2 = arr_ext(n["args"][1])
                    if e2 is not None and e2 <= ext and fn == "strcpy":
                        run.ob("C01-b", inst, True, "strcpy from %s[%d] into %s[%d]" % (n2, e2, name, ext), f.file, n.get("l"), f.name)
                    else:
                        run.ob("C01-b", inst, None, "%s(%s[%d], %s): source length not bounded by a visible fact" % (fn, name, ext, show(src)[:40]), f.file, n.get("l"), f.name)
                continue
            if fn == "vsprintf":
                run.ob("C01-b", inst, None, "vsprintf into %s[%d]: output bound depends on every caller's format" % (name, ext), f.file, n.get("l"), f.name)
                continue
            fa = strip(n["args"][1])
            if fa.get("k") != "Str":
                # a format assembled at run time: bounded only if assembled from bounded pieces; report
                lit = literal_only(prog, f, fa)
                # a format assembled piecewise: numbers printed into it (width/precision) must be clamped variables
                unclamped = []
                if not lit and fa.get("k") == "Ref":
                    for b2, i2, n2 in f.calls(("sprintf", "snprintf")):
                        d0 = strip(n2["args"][0])
                        if any(x.get("k") == "Ref" and x.get("id") == fa.get("id") for x in walk(d0)) and n2 is not n:
                            for a2 in n2["args"][2:]:
                                v2 = strip(a2)
                                if v2.get("k") != "Ref":
                                    unclamped.append(show(v2))
                                    continue
                                cl = False
                                for b3, i3, n3 in f.nodes():
                                    if n3.get("k") == "Asg" and strip(n3["L"]).get("id") == v2.get("id") and const_val(n3["R"]) is not None:
                                        for c, t, B in cfgq.guards(f, b3.id):
                                            op_, l_, r_ = atom_of(c, t)
                                            if op_ in (">", ">=") and strip(l_).get("id") == v2.get("id") and const_val(r_) is not None and const_val(n3["R"]) <= const_val(r_) + 1 \
                                                    and b3.id in f.blocks[B].live_succ():
                                                cl = True  # `if (v > K) v = K';` with K' <= K: an upper clamp
                                if not cl:
                                    unclamped.append(v2.get("n"))
                verdict = None if (lit or not unclamped) else False
                run.ob("C01-b", inst, verdict, "sprintf(%s[%d], <run-time format %s>): %s" % (name, ext, show(fa), "driver-literal format" if lit else
                       ("numbers printed into the format are clamped; output bound not computed" if not unclamped else "the format embeds the unclamped value(s) %s: output length unbounded" % unclamped)),
                       f.file, n.get("l"), f.name, what="%s prints into %s[%d] with a format that embeds the unclamped value %s (e.g. an LPC precision): no output bound" % (f.name, name, ext, unclamped))
                continue
            bound, why = fmt_bound(fa.get("s", ""), n["args"][2:], prog, f)
            hard, _ = fmt_bound(fa.get("s", ""), n["args"][2:], prog, f, only_lpc=True)
            if bound is None:
                run.ob("C01-b", inst, None, "sprintf(%s[%d], %s): %s" % (name, ext, show(fa)[:40], why), f.file, n.get("l"), f.name)
            elif bound + 1 <= ext:
                run.ob("C01-b", inst, True, "sprintf(%s[%d], %s): at most %d bytes + NUL" % (name, ext, show(fa)[:40], bound), f.file, n.get("l"), f.name)
            elif hard is not None and hard + 1 > ext:
                run.ob("C01-b", inst, False, "sprintf(%s[%d], %s): an LPC-controlled number can produce %d bytes + NUL" % (name, ext, show(fa)[:40], hard), f.file, n.get("l"), f.name,
                       what="%s: sprintf(%s, %s) of an LPC-controlled value can produce %d bytes but %s holds %d" % (f.name, name, show(fa)[:30], hard + 1, name, ext))
            else:
                run.ob("C01-b", inst, None, "sprintf(%s[%d], %s): fits only if the driver-internal numbers stay small (type range would need %d bytes)" % (name, ext, show(fa)[:40], bound + 1), f.file, n.get("l"), f.name)
    # (v)snprintf results used as an index
    for f in funcs:
        for b, i, n in f.nodes():
            if n.get("k") == "Asg" and strip(n["R"]).get("k") == "Call" and strip(n["R"]).get("fn") in ("vsnprintf", "snprintf") and strip(n["L"]).get("k") == "Ref":
                v = strip(n["L"])
                uses = []
                for b2, i2, n2 in f.nodes():
                    if n2.get("k") == "Sub" and any(x.get("k") == "Ref" and x.get("id") == v.get("id") and x.get("d") == v.get("d") for x in walk(n2["i"])):
                        uses.append((b2, i2, n2))
                if not uses:
                    continue
                run.saw(f)
                ok = True
                for b2, i2, n2 in uses:
                    clamp = False
                    # a dominating assignment `v = <const-ish bound>` under `v > bound`, or a guard v < bound
                    for b3, i3, n3 in f.nodes():
                        if n3.get("k") == "Asg" and strip(n3["L"]).get("id") == v.get("id") and n3 is not n and f.dominates(b.id, b3.id):
                            g3 = [atom_of(c, t) for c, t, B in cfgq.guards(f, b3.id)]
                            if any(op in (">", ">=") and strip(l).get("id") == v.get("id") for op, l, r in g3):
                                clamp = True
                    for c, t, B in cfgq.guards(f, b2.id):
                        op, l, r = atom_of(c, t)
                        if op in ("<", "<=") and strip(l).get("id") == v.get("id") and "sizeof" in show(r) + str(const_val(r)):
                            clamp = True
                    ok = ok and clamp
                run.ob("C01-b", "snprintf-result:%s:%s" % (rel(f.file), f.name), ok, "`%s` (untruncated length) indexes a buffer %d time(s); clamped: %s" % (show(n)[:50], len(uses), ok), f.file, n.get("l"), f.name,
                       what="%s uses the return value of %s as an index without clamping it to the buffer: a message longer than the buffer writes past it" % (f.name, strip(n["R"])["fn"]))

    # ---------------------------------------------------------------- C01-d
    ei = run.need(prog.func("eval_instruction"), "eval_instruction")
    run.saw(ei)
    S = [bid for bid in ei.reachable() if ei.blocks[bid].term and ei.blocks[bid].term["k"] == "SwitchStmt" and len(ei.blocks[bid].succ) > 100][0]
    heads = [bid for bid in ei.reachable() if any(p in ei.reachable() and ei.dominates(bid, p) for p in ei.blocks[bid].preds)]
    H = [h for h in heads if ei.dominates(h, S)][0]
    want = {"F_EFUN0": 0, "F_EFUN1": 1, "F_EFUN2": 2, "F_EFUN3": 3}
    seen_d = set()
    for s in ei.blocks[S].live_succ():
        lab = ei.blocks[s].label
        name = lab.get("src") if lab and lab.get("k") == "case" else ("default" if lab and lab.get("k") == "default" else None)
        if name not in want and name not in ("F_EFUNV", "default"):
            continue
        region = cfgq.reach_set(ei, [s], avoid_blocks=[H, S])
        disp = [(b, i, n) for b, i, n in ei.nodes() if b.id in region and n.get("k") == "Call" and not n.get("fn") and "efun_table" in show(n.get("fe"))]
        if not disp:
            continue
        seen_d.add(name)
        db, di, dn = disp[0]
        # CHECK_TYPES expansions: a branch on `(type & mask)` whose failing edge calls bad_argument, within the region, inside macro CHECK_TYPES
        chk_blocks = sorted({bid for bid in region if ei.branch_cond(bid) is not None and "CHECK_TYPES" in (strip(ei.branch_cond(bid)).get("m") or ())})
        # each check must lie on every path to the dispatch
        on_all = [c for c in chk_blocks if ei.reach_avoiding([s], lambda blk, t=db.id: blk.id == t, avoid_blocks=[c]) is None]
        if name in want:
            need = want[name]
            ok = len(on_all) >= need
            why = "%d CHECK_TYPES on every path to the dispatch (need %d)" % (len(on_all), need)
        elif name == "F_EFUNV":
            loop = [c for c in chk_blocks if c in cfgq.reach_set(ei, ei.blocks[c].live_succ(), avoid_blocks=[H, S])]
            ok = bool(loop)
            why = "argument loop with CHECK_TYPES over min_arg slots: %s" % ok
        else:
            ok = len(on_all) >= 1
            why = "one-argument default case: %d CHECK_TYPES on every path" % len(on_all)
        run.ob("C01-d", "dispatch:%s" % name, ok, why, ei.file, dn.get("l"), "eval_instruction", what="case %s calls an efun without checking its argument types (%s): the efun reads the wrong union member" % (name, why))
    miss = (set(want) | {"F_EFUNV"}) - seen_d
    if miss:
        run.need(False, "efun dispatch cases %s" % sorted(miss))

    # ---------------------------------------------------------------- C01-f
    STACKCHK = ("CHECK_AND_PUSH", "STACK_CHECK", "CHECK_STACK_OVERFLOW")
    C01F_CG = [None]
    for f in funcs:
        ordn = {}
        checks = [bid for bid in f.reachable() if f.branch_cond(bid) is not None and any(m in STACKCHK for x in walk(f.branch_cond(bid)) for m in (x.get("m") or ()))]
        # direct comparison with end_of_stack also counts
        checks += [bid for bid in f.reachable() if f.branch_cond(bid) is not None and "end_of_stack" in show(f.branch_cond(bid))]
        case_of = None
        for b, i, n in f.nodes():
            if not (n.get("k") == "Un" and n.get("op") == "++" and strip(n["e"]).get("n") == "sp" and strip(n["e"]).get("d") == "global"):
                continue
            run.saw(f)
            label = ""
            if f.name == "eval_instruction":
                sg = cfgq.switch_guard(f, b.id)
                labs = sorted({(l.get("src") or l.get("k")) for l in (sg[1] if sg else []) if l})
                label = ":" + "/".join(labs[:3])
            o = ordn.get(label, 0)
            ordn[label] = o + 1
            inst = "push:%s:%s%s:%d" % (rel(f.file), f.name, label, o)
            guarded = any(f.dominates(c, b.id) for c in checks)
            if f.name == "eval_instruction" and guarded:
                # the check must belong to the same opcode case (not an earlier iteration): dominated within the case region
                sg = cfgq.switch_guard(f, b.id)
                guarded = any(f.dominates(c, b.id) and (sg is None or f.dominates(sg[0], c)) for c in checks)
            # net non-increasing: a pop (sp--) dominates the push in the same function/case
            popped = False
            for b2, i2, n2 in f.nodes():
                if n2.get("k") == "Un" and n2.get("op") == "--" and strip(n2["e"]).get("n") == "sp" and strip(n2["e"]).get("d") == "global" and f.point_dominates((b2.id, i2), (b.id, i)):
                    sg = cfgq.switch_guard(f, b.id) if f.name == "eval_instruction" else None
                    if sg is None or f.dominates(sg[0], b2.id):
                        popped = True
                if n2.get("k") == "Call" and n2.get("fn") in ("pop_stack", "pop_n_elems", "pop_2_elems", "pop_3_elems", "free_string_svalue") and f.point_dominates((b2.id, i2), (b.id, i)):
                    sg = cfgq.switch_guard(f, b.id) if f.name == "eval_instruction" else None
                    if (sg is None or f.dominates(sg[0], b2.id)) and n2["fn"] != "free_string_svalue":
                        popped = True
            ok = guarded or popped
            reserved = None
            if not ok:
                # a helper (file-local or not: the call graph is whole-program) whose every call site is dominated, in the caller, by a stack-space check: the caller
                # reserved the slots up front (it cannot raise at this point); that the stack is balanced between the
                # reservation and the call is not decided here
                if C01F_CG[0] is None:
                    import callgraph as _cgm
                    C01F_CG[0] = _cgm.CallGraph(prog)
                sites = C01F_CG[0].sites.get(f.name, [])
                def caller_checks(g):
                    return [bid for bid in g.reachable() if g.branch_cond(bid) is not None and (any(m in STACKCHK for x in walk(g.branch_cond(bid)) for m in (x.get("m") or ())) or "end_of_stack" in show(g.branch_cond(bid)))]
                if sites and all(any(g.dominates(c, b2.id) for c in caller_checks(g)) for g, b2, i2, n2 in sites):
                    reserved = sorted({g.name for g, b2, i2, n2 in sites})
            if reserved:
                run.ob("C01-f", inst, None, "%s — the callers (%s) reserve the slots with a stack-space check before they call this helper; stack balance between the reservation and the call is not decided" % (show(n), ", ".join(reserved)), f.file, n.get("l"), f.name)
                continue
            run.ob("C01-f", inst, ok, "%s — %s" % (show(n), "stack-space check dominates" if guarded else ("a pop precedes it (net non-increasing)" if popped else "no stack-space check and no preceding pop")),
                   f.file, n.get("l"), f.name, what="%s pushes onto the value stack without checking for space (the stack has only a few slots of slack past end_of_stack)" % (f.name + label))

    # ---------------------------------------------------------------- C01-f bulk advances
    # `sp += E`: the whole amount must be covered by a check against end_of_stack with the same amount
    for f in funcs:
        ordb = 0
        for b, i, n in sorted([(b, i, n) for b, i, n in f.nodes() if n.get("k") == "Asg" and n.get("op") == "+=" and strip(n["L"]).get("k") == "Ref" and strip(n["L"]).get("n") == "sp" and strip(n["L"]).get("d") == "global"], key=lambda x: x[2].get("l") or 0):
            amt = strip(n["R"])
            cv = const_val(amt)
            run.saw(f)
            label = ""
            if f.name == "eval_instruction":
                sg = cfgq.switch_guard(f, b.id)
                labs = sorted({(l.get("src") or l.get("k")) for l in (sg[1] if sg else []) if l})
                label = ":" + "/".join(labs[:2])
            inst = "bulk-push:%s:%s%s:%d" % (rel(f.file), f.name, label, ordb)
            ordb += 1
            def linform(e, sign=1):
                """(sorted tuple of (name, coefficient), constant) of a +/- expression over variables, or None"""
                e = strip(e)
                v = const_val(e)
                if v is not None:
                    return ({}, sign * v)
                if e.get("k") == "Ref":
                    return ({e.get("n"): sign}, 0)
                if e.get("k") == "Bin" and e.get("op") in ("+", "-"):
                    a = linform(e["L"], sign)
                    b_ = linform(e["R"], sign if e["op"] == "+" else -sign)
                    if a is None or b_ is None:
                        return None
                    d = dict(a[0])
                    for k2, c2 in b_[0].items():
                        d[k2] = d.get(k2, 0) + c2
                    return ({k2: c2 for k2, c2 in d.items() if c2}, a[1] + b_[1])
                return None
            lf_amt = linform(amt)
            how = None
            # (a) the advance is itself the operand of the comparison:  if ((sp += n) >= end_of_stack) { undo; raise }
            c = f.branch_cond(b.id)
            if c is not None and any(x is n for x in walk(c)) and "end_of_stack" in show(c):
                how = "the advanced pointer is compared with end_of_stack in the same condition"
            # (b) a dominating test  sp + E >= end_of_stack  (possibly a conjunct of a raising branch) with the same amount
            if how is None:
                for bid in f.reachable():
                    cc = f.branch_cond(bid)
                    if cc is None or not f.dominates(bid, b.id) or bid == b.id:
                        continue
                    for x in walk(cc):
                        if x.get("k") == "Bin" and x.get("op") in (">=", ">") and "end_of_stack" in show(x["R"]):
                            lf = linform(x["L"])
                            if lf is not None and lf_amt is not None and lf[0].get("sp") == 1:
                                rest = ({k2: c2 for k2, c2 in lf[0].items() if k2 != "sp"}, lf[1])
                                if rest == lf_amt:
                                    how = "dominated by a comparison of sp + (%s) with end_of_stack" % show(amt)[:30]
            if how is None and cv is not None and cv <= 0:
                how = "non-positive constant"
            run.ob("C01-f", inst, how is not None, "%s - %s" % (show(n), how or "no comparison of sp + (%s) with end_of_stack dominates this advance" % show(amt)), f.file, n.get("l"), f.name,
                   what="%s advances the value-stack pointer by %s without checking that the evaluator stack has room for all of it" % (f.name + label, show(amt)))

    # ---------------------------------------------------------------- C01-h
    LEN_SINKS = {"memcpy": (2,), "memmove": (2,), "strncpy": (2,), "memset": (2,), "new_string": (0,), "int_new_string": (0,), "xalloc": (0,), "malloc": (0,), "realloc": (1,),
                 "extend_string": (1,), "int_extend_string": (1,), "__builtin_memcpy": (2,)}

    def is_mstr_size(n):
        return n.get("k") == "Mem" and n.get("f") == "size" and n.get("rec") in ("malloc_block_s", "block_s", "malloc_block_t", "block_t") and "MSTR_SIZE" in (n.get("m") or ()) \
            and not ({"COUNTED_STRLEN", "SVALUE_STRLEN", "SHARED_STRLEN"} & set(n.get("m") or ()))
    for f in funcs:
        ordn = 0
        # locals that hold a raw MSTR_SIZE value
        raw = {}
        for b, i, n in f.nodes():
            src = None
            if n.get("k") == "Asg" and n.get("op") == "=" and strip(n["L"]).get("k") == "Ref" and any(is_mstr_size(x) for x in walk(n["R"])):
                src, var = n, strip(n["L"])
            elif n.get("k") == "Decl":
                for v in n.get("vars", []):
                    if "init" in v and any(is_mstr_size(x) for x in walk(v["init"])):
                        raw[v.get("id")] = (b, i, n)
            if src is not None:
                raw[var.get("id")] = (b, i, n)
        for b, i, n in f.nodes():
            if not (n.get("k") == "Call" and n.get("fn") in LEN_SINKS):
                continue
            for ai in LEN_SINKS[n["fn"]]:
                if ai >= len(n.get("args", [])):
                    continue
                a = n["args"][ai]
                direct = any(is_mstr_size(x) for x in walk(a))
                via = [x for x in walk(a) if x.get("k") == "Ref" and x.get("d") in ("local",) and x.get("id") in raw]
                if not direct and not via:
                    continue
                run.saw(f)
                inst = "mstr-size:%s:%s:%s:%d" % (rel(f.file), f.name, n["fn"], ordn)
                ordn += 1
                # the saturated case must be excluded on this path: a guard or a conditional mentioning USHRT_MAX
                pts = [b.id] + [raw[x.get("id")][0].id for x in via]
                handled = any(("USHRT_MAX" in show(c) or "65535" in show(c)) for p_ in pts for c, t, B in cfgq.guards(f, p_)) or "USHRT_MAX" in show(a)
                for x in via:
                    rb, ri, rn = raw[x.get("id")]
                    if "USHRT_MAX" in show(rn) or "65535" in show(rn):
                        handled = True
                run.ob("C01-h", inst, handled, "%s: length argument `%s` comes from MSTR_SIZE; saturated (USHRT_MAX) case %s" % (n["fn"], show(a)[:40], "handled" if handled else "NOT handled (no strlen fallback on this path)"),
                       f.file, n.get("l"), f.name, what="%s passes the 16-bit saturating MSTR_SIZE to %s as a length: a string longer than 65535 bytes is copied truncated/unterminated" % (f.name, n["fn"]))

    # ---------------------------------------------------------------- C01-c
    import rules.C01c as c01c
    c01c.check(run, prog, tier, funcs)

    # ---- C01-i mapping internals held across LPC callbacks
    import callgraph
    import rules.C01i as c01i
    c01i.check(run, prog, tier, callgraph.CallGraph(prog))

    # ---- C01-e optional / multi-typed efun arguments
    import rules.C01e as c01e
    c01e.check(run, prog, tier, callgraph.CallGraph(prog))

    # ---- C01-j a copied function pointer owns what its deallocation releases (shared with C06-e)
    import rules.C06 as c06
    run.rule("C01-j", "use after free through function pointers: " + c06.FUNPTR_COPY_DESC, 1)
    c06.funptr_copy_rule(run, prog, "C01-j")

    # ---- C01-k bulk copies address a container's storage, not its header
    run.rule("C01-k", "no memcpy/memmove/memcmp operand is the header of an LPC container (buffer_t*, array_t*, mapping_t*): the bytes live in ->item; a header operand copies the reference count and size fields into LPC-visible data (program_t images written by save_binary are the reviewed exception)", 1)
    HDR = ("struct buffer_s *", "struct array_s *", "struct mapping_s *", "struct object_s *")
    nm = 0
    for f in sorted(prog.functions(), key=lambda x: (x.file, x.line)):
        sites = [(b, i, n) for b, i, n in f.calls() if n.get("fn") in ("memcpy", "memmove", "memcmp", "__builtin_memcpy", "__builtin_memmove") and len(n.get("args", [])) >= 3]
        if not sites:
            continue
        for j, (b, i, n) in enumerate(sorted(sites, key=lambda x: x[2].get("l") or 0)):
            bad = None
            touches = False
            for k in (0, 1):
                x = n["args"][k]
                while isinstance(x, dict) and x.get("k") in ("Cast", "ICast"):
                    x = x.get("e")
                t = (x or {}).get("t") or ""
                if any(w.get("k") == "Mem" and w.get("f") == "item" and w.get("rec") in ("buffer_s", "buffer_t", "array_s", "array_t") for w in walk(n["args"][k])) or t in HDR:
                    touches = True
                if t in HDR:
                    bad = (k, t, show(x)[:40])
            if not touches:
                continue
            nm += 1
            run.saw(f)
            run.ob("C01-k", "bulk-copy:%s:%s:%d" % (rel(f.file), f.name, j), bad is None, "%s: operands address item storage" % show(n)[:60] if bad is None else
                   "%s: operand %d `%s` is a %s header, not its ->item storage" % (show(n)[:60], bad[0] + 1, bad[2], bad[1]), f.file, n.get("l"), f.name,
                   what="%s copies from/to the header of an LPC container instead of its item storage" % f.name)
    run.need(nm >= 10, "bulk copies touching LPC container storage (found %d)" % nm)

    # ---- C01-l iterator cursors: every advance of the byte cursor is matched by a decrement of the bytes-left counter
    run.rule("C01-l", "foreach over a string (eval_instruction): on every path on which the hidden iterator's byte cursor u.lvalue_byte advances, its bytes-left counter (subtype of the same slot) is decreased before the opcode ends; a path that advances without counting reads past the end of the string", 1)
    ei = run.need(prog.func("eval_instruction"), "eval_instruction")
    adv = [(b, i, n) for b, i, n in ei.nodes() if ((n.get("k") == "Asg" and n.get("op") == "+=") or (n.get("k") == "Un" and n.get("op") == "++")) and strip(n["L"] if n.get("k") == "Asg" else n["e"]).get("k") == "Mem" and strip(n["L"] if n.get("k") == "Asg" else n["e"]).get("f") == "lvalue_byte"]
    run.need(adv, "advances of u.lvalue_byte in eval_instruction")
    ordl = 0
    for b, i, n in sorted(adv, key=lambda x: x[2].get("l") or 0):
        tgt = strip(n["L"] if n.get("k") == "Asg" else n["e"])
        base = show(strip(strip(tgt["b"])["b"])) if strip(tgt["b"]).get("k") == "Mem" else show(strip(tgt["b"]))
        decs = {b2.id for b2, i2, n2 in ei.nodes() if ((n2.get("k") == "Asg" and n2.get("op") == "-=") or (n2.get("k") == "Un" and n2.get("op") == "--")) and strip(n2["L"] if n2.get("k") == "Asg" else n2["e"]).get("k") == "Mem"
                and strip(n2["L"] if n2.get("k") == "Asg" else n2["e"]).get("f") == "subtype" and show(strip(strip(n2["L"] if n2.get("k") == "Asg" else n2["e"])["b"])) == base}
        sg = cfgq.switch_guard(ei, b.id)
        run.need(sg is not None, "opcode case of the cursor advance")
        p = None
        before = any(ei.dominates(d, b.id) and ei.dominates(sg[0], d) and d != sg[0] for d in decs)
        if b.id not in decs and not before:
            p = ei.reach_avoiding(ei.blocks[b.id].live_succ(), lambda blk, t=sg[0]: blk.id == t, avoid_blocks=decs)
        labs = sorted({(l.get("src") or l.get("k")) for l in (sg[1] if sg else []) if l})
        run.ob("C01-l", "iterator-advance:%s:%d" % ("/".join(labs[:1]), ordl), p is None, "%s is followed by a decrement of %s->subtype on every path to the end of the opcode" % (show(n)[:40], base) if p is None else
               "%s (line %s): path %s reaches the end of the opcode without decreasing %s->subtype - the loop then runs past the end of the string" % (show(n)[:40], n.get("l"), p[:8], base), ei.file, n.get("l"), "eval_instruction",
               what="foreach over a string advances its byte cursor without counting the byte (invalid multibyte sequence or NUL): heap over-read handed to LPC code")
        ordl += 1

    # ---- C01-m integer division of script values cannot trap
    run.rule("C01-m", "run-time arithmetic: every signed `/`, `%`, `/=`, `%=` whose divisor is an LPC number (a .number member, or a local assigned from one) is reached only with the divisor known not to be -1: MIN / -1 traps (SIGFPE) and kills the driver where the worst outcome must be an LPC error", 4)
    import divrule
    divrule.check(run, prog, "C01-m", lambda p: ("/src/" in p or "/lib/efuns/" in p or "/lib/lpc/" in p or "/lib/socket/" in p) and not any(p.endswith(u) for u in (
        "lib/lpc/lex.c", "lib/lpc/preprocess.c", "lib/lpc/compiler.c", "lib/lpc/grammar.c", "lib/lpc/grammar.y", "lib/lpc/program/parse_trees.c", "lib/lpc/program/icode.c", "lib/lpc/program/generate.c")), minimum=4)

    # ---- C01-n last-element accesses need a non-empty object
    run.rule("C01-n", "every subscript whose index has the form `V - 1` (V a variable, a member such as ->size, or strlen(..)) is reached only with V known to be positive (dominating test, or a single assignment from an expression that is at least 1): on an empty string or array the access lands in front of the object", 10)
    import rules.C01n as c01n
    c01n.check(run, prog)

    # ---- C01-o values borrowed from apply_ret_value are not used after the next apply
    run.rule("C01-o", "a pointer obtained from the apply family (it points to the single global apply_ret_value) or from check_valid_path(), and every pointer derived from it, is not dereferenced or handed on after a call that may store a new apply result: that store releases the old value", 20)
    import rules.C01o as c01o
    import callgraph as _cgm
    c01o.check(run, prog, _cgm.CallGraph(prog))

    # ---- C01-p a mapping's element count covers every node that was linked before an error leaves the function
    run.rule("C01-p", "lib/lpc/mapping.c: in a function that links new nodes into a mapping's hash table, every exit by error() that is reachable after a node was linked passes a store to that mapping's ->count first (keys()/values()/foreach allocate ->count elements and copy one per linked node, so an undercount is a heap overflow later)", 2)
    mu = prog.unit("lib/lpc/mapping.c")
    npf = 0
    for f in sorted(mu.funcs.values(), key=lambda x: x.line):
        if not f.file.endswith("lib/lpc/mapping.c"):
            continue
        links = set()
        for b, i, n in f.nodes():
            if n.get("k") == "Asg" and n.get("op") == "=":
                l = strip(n["L"])
                if l.get("k") == "Sub" and "mapping_node_s *" in (l.get("t") or "") and const_val(n["R"]) != 0 and "mapping_node_s **" in (strip(l["b"]).get("t") or ""):
                    links.add(b.id)
        if not links:
            continue
        counts = {b.id for b, i, n in f.nodes() if n.get("k") in ("Asg",) and strip(n["L"]).get("k") == "Mem" and strip(n["L"]).get("f") == "count" and strip(n["L"]).get("rec") in ("mapping_s", "mapping_t")}
        counts |= {b.id for b, i, n in f.nodes() if n.get("k") == "Un" and n.get("op") in ("++",) and strip(n["e"]).get("k") == "Mem" and strip(n["e"]).get("f") == "count" and strip(n["e"]).get("rec") in ("mapping_s", "mapping_t")}
        raises = [(b, i, n) for b, i, n in f.calls() if n.get("nr") or n.get("fn") in ("error", "mapping_too_large", "fatal")]
        raises = [(b, i, n) for b, i, n in raises if n.get("fn") != "fatal"]
        if not raises:
            continue
        npf += 1
        run.saw(f)
        bad = None
        for b, i, n in raises:
            starts = [s for l in links for s in f.blocks[l].live_succ()]
            p = f.reach_avoiding(starts, lambda blk, t=b.id: blk.id == t, avoid_blocks=counts) if b.id not in counts else None
            if p is not None:
                bad = (n.get("fn"), n.get("l"), p[:8])
                break
        run.ob("C01-p", "count-before-raise:%s" % f.name, bad is None, "every error exit after a node was linked passes a store to ->count" if bad is None else
               "%s() at line %s is reachable (path %s) after nodes were linked into the table without ->count having been brought up to date: the mapping keeps more nodes than it counts" % bad, f.file, bad[1] if bad else f.line, f.name,
               what="%s can raise an error with nodes linked that the mapping's count does not include" % f.name)
    run.need(npf >= 2, "functions that link mapping nodes and can raise (found %d)" % npf)

    # ---- C01-q snprintf-family results compared with the buffer size
    import rules.fitrule as fitrule
    run.rule("C01-q", "every comparison of a snprintf()/vsnprintf() result with the size handed to the call: the side taken as 'fits' contains only results <= size - 1; a text of exactly `size` characters is truncated and must not be used as complete (path names, log lines, error messages)", 5)
    fitrule.check(run, prog, "C01-q", lambda f: True, 5, 5, "the truncated text is used as if it were complete")

    # ---- C01-r count pass / fill pass agreement
    import rules.C01r as c01r
    c01r.check(run, prog, tier)
