"""C01-c placeholder (filled in below)."""


def check(run, prog, tier, funcs):
    return
