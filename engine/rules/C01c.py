"""C01-c — subscripts derived from LPC integers are range-checked (A4).

Flow-sensitive reaching definitions decide, at every subscript of an LPC container (array/class items,
buffer bytes, string characters), whether the index variable was assigned *directly* from an LPC value
(`x = (int) sp->u.number`, `x = size - sp->u.number`, ...).  For those first-level indices the dominating
branch facts must bound the variable below and above, and for element/byte containers the upper bound
must be strict with respect to the container's own size.  Three-valued verdict: proved / violated /
undecided; only `violated` (positive evidence: a missing side, or `<=` against the container's size)
alarms.  Indices that are derived further (i = start / 6 ...) are reported as undecided."""
import cfgq
from core import rel
from dataflow import solve
from facts import strip, show, walk, const_val, normalize_cond, atom_of

SCOPE_QUICK = ("src/interpret.c", "lib/lpc/operator.c", "lib/lpc/array.c", "lib/lpc/mapping.c", "lib/lpc/buffer.c", "lib/lpc/class.c", "lib/efuns/string.c",
               "lib/efuns/bits.c", "lib/efuns/unsorted.c", "lib/efuns/sscanf.c", "lib/efuns/sprintf.c", "lib/efuns/regexp.c", "lib/efuns/parse.c", "lib/efuns/file.c",
               "lib/efuns/maps.c", "lib/efuns/call_other.c", "lib/efuns/variable.c")


def is_src(n):
    return n.get("k") == "Mem" and n.get("f") == "number" and n.get("rec") == "svalue_u"


ALIAS = {}


def alias_kind(f, ref):
    """A local pointer all of whose definitions are `X->u.string`, `X->u.buf->item` or `X->item`."""
    key = (f.file, f.name, ref.get("id"))
    if key in ALIAS:
        return ALIAS[key]
    srcs = []
    for b, i, n in f.nodes():
        if n.get("k") == "Asg" and n.get("op") == "=" and strip(n["L"]).get("k") == "Ref" and strip(n["L"]).get("id") == ref.get("id"):
            srcs.append(strip(n["R"]))
        if n.get("k") == "Decl":
            for v in n.get("vars", []):
                if v.get("id") == ref.get("id") and "init" in v:
                    srcs.append(strip(v["init"]))
    out = None
    kinds = set()
    for r in srcs:
        if r.get("k") == "Mem" and r.get("f") == "string" and r.get("rec") == "svalue_u":
            kinds.add(("chars", show(strip(strip(r["b"])["b"])) if strip(r["b"]).get("k") == "Mem" else show(r)))
        elif r.get("k") == "Mem" and r.get("f") == "item" and r.get("rec") in ("buffer_s", "buffer_t"):
            kinds.add(("bytes", show(strip(r["b"]))))
        elif r.get("k") == "Mem" and r.get("f") == "item" and r.get("rec") in ("array_s", "array_t"):
            kinds.add(("items", show(strip(r["b"]))))
        else:
            kinds.add(None)
    if len(kinds) == 1 and None not in kinds:
        out = kinds.pop()
    ALIAS[key] = out
    return out


def container_of(sub, f=None):
    """(kind, base text) for subscripts of LPC containers; None otherwise."""
    b = strip(sub["b"])
    if f is not None and b.get("k") == "Ref" and b.get("d") == "local" and b.get("t", "").endswith("*"):
        return alias_kind(f, b)
    if b.get("k") == "Mem":
        if b.get("f") == "item" and b.get("rec") in ("array_s", "array_t"):
            return "items", show(strip(b["b"]))
        if b.get("f") == "item" and b.get("rec") in ("buffer_s", "buffer_t"):
            return "bytes", show(strip(b["b"]))
        if b.get("f") == "string" and b.get("rec") == "svalue_u":
            return "chars", show(strip(strip(b["b"])["b"])) if strip(b["b"]).get("k") == "Mem" else show(strip(b["b"]))
    return None


def check(run, prog, tier, funcs):
    run.rule("C01-c", "a subscript of an LPC array/buffer/string whose index was assigned directly from an LPC integer is dominated by a lower bound and by an upper bound; for arrays and buffers the upper bound against the container's size is strict", 12)
    scope = [f for f in funcs if tier == "thorough" or f.file.endswith(SCOPE_QUICK)]
    nsink = 0
    for f in sorted(scope, key=lambda x: (x.file, x.line)):
        # quick reject
        if not any(True for b, i, n in f.nodes() if is_src(n)):
            continue
        # reaching definitions: var id -> frozenset of def kinds ('lpc', 'derived', 'other')
        defs_of = {}

        def classify(rhs, st):
            r = strip(rhs)
            if r.get("k") == "Call":
                return "other"
            has_src = any(is_src(x) for x in walk(r))
            has_tainted = any(x.get("k") == "Ref" and x.get("d") in ("local", "param") and ("lpc" in st.get(x.get("id"), ()) or "derived" in st.get(x.get("id"), ())) for x in walk(r))
            if has_src:
                # direct: only +/- with constants or a size term; division/modulo make it derived
                if any(x.get("k") == "Bin" and x.get("op") in ("/", "%", "*", ">>", "<<", "&") for x in walk(r)):
                    return "derived"
                return "lpc"
            if has_tainted:
                if r.get("k") == "Ref":
                    return "copy:%s" % r.get("id")
                # a linear form  size - v  /  v + c  of a first-level index is still first-level
                lpc_only = all("lpc" in st.get(x.get("id"), ()) and "derived" not in st.get(x.get("id"), ()) for x in walk(r)
                               if x.get("k") == "Ref" and x.get("d") in ("local", "param") and (set(st.get(x.get("id"), ())) & {"lpc", "derived"}))
                if lpc_only and not any(x.get("k") == "Bin" and x.get("op") not in ("+", "-") for x in walk(r)) and not any(x.get("k") in ("Call", "Cond") for x in walk(r)):
                    return "lpc"
                return "derived"
            return "other"

        def transfer(record):
            def t(blk, st):
                for i, e in enumerate(blk.el):
                    if record is not None:
                        for n in walk(e, True):
                            if n.get("k") == "Sub" and container_of(n, f):
                                record.append((blk, i, n, st))
                    for n in walk(e, True):
                        k = n.get("k")
                        if k == "Asg" and strip(n["L"]).get("k") == "Ref" and strip(n["L"]).get("d") in ("local", "param"):
                            vid = strip(n["L"]).get("id")
                            if n.get("op") == "=":
                                c = classify(n["R"], st)
                                if c.startswith("copy:"):
                                    c2 = st.get(int(c[5:]), frozenset())
                                    st = dict(st)
                                    st[vid] = c2
                                else:
                                    st = dict(st)
                                    st[vid] = frozenset([c])
                            else:
                                cur = st.get(vid, frozenset(["other"]))
                                st = dict(st)
                                st[vid] = frozenset("derived" if x == "lpc" else x for x in cur) | (frozenset(["derived"]) if classify(n["R"], st) != "other" else frozenset())
                        elif k == "Decl":
                            for v in n.get("vars", []):
                                if "init" in v:
                                    c = classify(v["init"], st)
                                    st = dict(st)
                                    st[v.get("id")] = st.get(int(c[5:]), frozenset()) if c.startswith("copy:") else frozenset([c])
                        elif k == "Un" and n.get("op") in ("++", "--") and strip(n["e"]).get("k") == "Ref":
                            vid = strip(n["e"]).get("id")
                            if vid in st and "lpc" in st[vid]:
                                st = dict(st)
                                st[vid] = frozenset("derived" if x == "lpc" else x for x in st[vid])
                return st
            return t

        def join(a, b):
            out = dict(a)
            for k, v in b.items():
                out[k] = out.get(k, frozenset()) | v
            return out
        try:
            ins = solve(f, {}, transfer(None), None, join)
        except RuntimeError:
            continue
        rec = []
        tr = transfer(rec)
        for bid in sorted(f.reachable(), reverse=True):
            if bid in ins:
                tr(f.blocks[bid], ins[bid])
        ordn = {}
        for blk, i, n, st in rec:
            kind, base = container_of(n, f)
            idx = strip(n["i"])
            off = 0
            if idx.get("k") == "Bin" and idx.get("op") in ("+", "-") and const_val(idx["R"]) is not None:
                off = const_val(idx["R"]) * (1 if idx["op"] == "+" else -1)
                idx = strip(idx["L"])
            direct_src = any(is_src(x) for x in walk(idx))
            if idx.get("k") == "Ref" and idx.get("d") in ("local", "param"):
                kinds = st.get(idx.get("id"), frozenset())
            elif direct_src:
                kinds = frozenset(["lpc"])
            else:
                continue
            if not (kinds & {"lpc", "derived"}):
                continue
            run.saw(f)
            nsink += 1
            label = ""
            if f.name == "eval_instruction":
                sg = cfgq.switch_guard(f, blk.id)
                labs = sorted({(l.get("src") or l.get("k")) for l in (sg[1] if sg else []) if l})
                label = ":" + "/".join(labs[:2])
            key = (label, kind, base)
            o = ordn.get(key, 0)
            ordn[key] = o + 1
            inst = "index:%s:%s%s:%s[%s]:%d" % (rel(f.file), f.name, label, base, kind, o)
            vname = idx.get("n") if idx.get("k") == "Ref" else show(idx)
            if kinds != frozenset(["lpc"]):
                run.ob("C01-c", inst, None, "%s: index %s is derived from an LPC integer through further arithmetic or several definitions (%s)" % (show(n)[:40], vname, sorted(kinds)), f.file, n.get("l"), f.name)
                continue
            lower = upper = None
            strict_ok = None
            unsigned = "unsigned" in idx.get("t", "") or idx.get("t", "") in ("size_t",)
            for c, t, B in cfgq.guards(f, blk.id):
                op, l, r = atom_of(c, t)
                if op in ("true", "false"):
                    continue
                ls, rs = strip(l), strip(r)
                same_l = show(ls) == show(idx)
                same_r = show(rs) == show(idx)
                if not (same_l or same_r):
                    continue
                if same_r:
                    op = {"<": ">", ">": "<", "<=": ">=", ">=": "<=", "==": "==", "!=": "!="}[op]
                    ls, rs = rs, ls
                if op in (">=", ">"):
                    cv = const_val(rs)
                    if cv is not None and (cv + (1 if op == ">" else 0) + off >= 0):
                        lower = show(c)
                    elif cv is None:
                        lower = show(c)
                elif op in ("<", "<="):
                    upper = show(c)
                    pairs = base in show(rs) or "size" in show(rs) or "len" in show(rs).lower()
                    if kind in ("items", "bytes") and pairs:
                        strict = (op == "<" and off <= 0) or (op == "<=" and off < 0)
                        strict_ok = strict if strict_ok is None else (strict_ok and strict)
                elif op == "==":
                    lower = upper = show(c)
                    strict_ok = True if strict_ok is None else strict_ok
            if unsigned:
                lower = lower or "unsigned type"
            if lower and upper and (kind == "chars" or strict_ok):
                run.ob("C01-c", inst, True, "%s: %s bounded below by `%s` and above by `%s`" % (show(n)[:40], vname, lower[:40], upper[:50]), f.file, n.get("l"), f.name)
            elif lower and upper and strict_ok is None:
                run.ob("C01-c", inst, None, "%s: %s has bounds `%s` / `%s` but the upper bound is not visibly the container's size" % (show(n)[:40], vname, lower[:30], upper[:40]), f.file, n.get("l"), f.name)
            else:
                miss = []
                if not lower:
                    miss.append("no lower bound (a negative LPC integer indexes before the container)")
                if not upper:
                    miss.append("no upper bound")
                if lower and upper and strict_ok is False:
                    miss.append("upper bound `%s` admits index == size (one past the end)" % upper[:50])
                run.ob("C01-c", inst, False, "%s: %s comes straight from an LPC integer; %s" % (show(n)[:40], vname, "; ".join(miss)), f.file, n.get("l"), f.name,
                       what="%s%s indexes %s with an LPC-controlled integer: %s" % (f.name, label, base, "; ".join(miss)))
    run.extra["index_sinks"] = nsink
