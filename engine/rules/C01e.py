"""C01-e — an efun reads a pointer member of an argument only under a tag that makes it a pointer.

The dispatchers (F_EFUN0..3, F_EFUNV, the efun-pointer branch of call_function_pointer; see C01-d) test an
argument against its type mask only when
      k < 4  and  ( (max_arg != -1 and N < 4)  or  k < min_arg )            N = number of arguments passed
and a mask may allow several tags.  Everything else an efun must test itself.  This rule runs a small abstract
interpreter (design A8) over every f_<efun>, once per admissible argument count N:

  state   the argument index the stack pointer `sp` refers to, the argument index held by each local
          `svalue_t *`, and the set of tags each argument slot may still have
  sp      ++/--/+=/-=, pop_stack, pop_n_elems(k), pop_2_elems, pop_3_elems, push_* (+1), apply-style calls
          (consume their arguments); any other callee that can move sp makes the slot mapping unknown
  tags    start from the dispatcher's guarantee, refined on branch edges by `S->type == T`, `S->type & M`,
          `switch (S->type)`; branches on st_num_arg select the N they are feasible for

A read of u.string / u.arr / u.map / u.ob / u.buf / u.fp through a resolved argument slot whose tag set still
contains a tag for which that member is not a pointer is a violation (a number, or another object kind, is used
as that pointer).  Slots that cannot be resolved are counted as unresolved, never reported."""
import os
import re
import prep
from core import rel
from dataflow import solve
from facts import strip, show, walk, const_val, atom_of
from stale import implied_atoms

T = {"T_INVALID": 0, "T_LVALUE": 1, "T_NUMBER": 2, "T_STRING": 4, "T_ARRAY": 8, "T_OBJECT": 0x10, "T_MAPPING": 0x20, "T_FUNCTION": 0x40, "T_REAL": 0x80,
     "T_BUFFER": 0x100, "T_CLASS": 0x200}
REAL_TAGS = 2 | 4 | 8 | 0x10 | 0x20 | 0x40 | 0x80 | 0x100 | 0x200
T["T_ANY"] = REAL_TAGS
PTR = {"string": 4, "arr": 8 | 0x200, "map": 0x20, "ob": 0x10, "buf": 0x100, "fp": 0x40}
TAGNAME = {v: k for k, v in T.items() if k not in ("T_ANY", "T_INVALID", "T_LVALUE")}

# helpers that release a stack slot as one particular kind of value (they use that union member without looking at the tag)
TYPED_RELEASE = {"free_string_svalue": "string"}

SP_EFFECT = {"pop_stack": -1, "pop_2_elems": -2, "pop_3_elems": -3}
# callees that consume `narg` stacked arguments (argument position of the count) and leave nothing
CONSUMES = {"apply": 2, "safe_apply": 2, "apply_master_ob": 1, "safe_apply_master_ob": 1, "call_function_pointer": 1, "safe_call_function_pointer": 1, "call_efun_callback": 1, "call_direct": None}


def tagnames(m):
    return "|".join(n for v, n in sorted(TAGNAME.items()) if m & v) or "nothing"


def load_specs():
    """rows of predefs[] from the generated efuns_definition.h: name -> list of (token, min, max, [4 masks])"""
    path = os.path.join(prep.CACHE, "build", "lib", "efuns", "efuns_definition.h")
    if not os.path.exists(path):
        return None, path
    rows = []
    for line in open(path):
        m = re.match(r'\{"(\w+)",\s*(F_\w+)(?:\s*\|\s*F_ALIAS_FLAG)?,\s*\d+,\s*\d+,\s*(-?\d+),\s*(-?\d+),\s*([^,]+),\s*([^,]+),\s*([^,]+),\s*([^,]+),\s*([^,]+),', line)
        if not m:
            continue
        masks = []
        for s in m.groups()[5:9]:
            v = 0
            for tok in s.split("|"):
                v |= T.get(tok.strip(), 0)
            masks.append(v)
        rows.append({"word": m.group(1), "fn": "f_" + m.group(2)[2:].lower(), "min": int(m.group(3)), "max": int(m.group(4)), "masks": masks})
    return rows, path


def initial_mask(spec, N, j):
    if j < 0 or j >= N:
        return None
    if j < 4 and ((spec["max"] != -1 and N < 4) or j < spec["min"]):
        return spec["masks"][j] & REAL_TAGS
    return REAL_TAGS


class St:
    __slots__ = ("sp", "tags", "locs")

    def __init__(self, sp, tags=(), locs=()):
        self.sp, self.tags, self.locs = sp, tags, locs

    def key(self):
        return (self.sp, self.tags, self.locs)

    def __eq__(self, o):
        return isinstance(o, St) and self.key() == o.key()

    def __hash__(self):
        return hash(self.key())


def join_st(a, b, spec, N):
    if a == b:
        return a
    sp = a.sp if a.sp == b.sp else None
    ta, tb = dict(a.tags), dict(b.tags)
    tags = {}
    for k in set(ta) | set(tb):
        va = ta[k] if k in ta else initial_mask(spec, N, k)
        vb = tb[k] if k in tb else initial_mask(spec, N, k)
        tags[k] = None if (va is None or vb is None) else (va | vb)
    la, lb = dict(a.locs), dict(b.locs)
    locs = {k: (la.get(k) if (k in la and k in lb and la[k] == lb[k]) else None) for k in set(la) | set(lb)}
    return St(sp, tuple(sorted(tags.items(), key=lambda x: x[0])), tuple(sorted(locs.items())))


class Interp:
    def __init__(self, f, spec, touches_sp, cg):
        self.f, self.spec, self.touches_sp, self.cg = f, spec, touches_sp, cg
        self.nvars = set()
        # locals that are plain copies of st_num_arg
        defs = {}
        for b, i, n in f.nodes():
            if n.get("k") == "Decl":
                for v in n.get("vars", []):
                    if "init" in v:
                        defs.setdefault(v.get("id"), []).append(strip(v["init"]))
            elif n.get("k") == "Asg" and strip(n["L"]).get("k") == "Ref" and strip(n["L"]).get("d") in ("local", "param"):
                defs.setdefault(strip(n["L"]).get("id"), []).append(None if n.get("op") != "=" else strip(n["R"]))
            elif n.get("k") == "Un" and n.get("op") in ("++", "--") and strip(n["e"]).get("k") == "Ref":
                defs.setdefault(strip(n["e"]).get("id"), []).append(None)
        for vid, ds in defs.items():
            if len(ds) == 1 and ds[0] is not None and ds[0].get("k") == "Ref" and ds[0].get("n") == "st_num_arg":
                self.nvars.add(vid)
        self.reads = []

    # ---- expression evaluation under (N, St)
    def ival(self, e, N):
        e = strip(e)
        v = const_val(e)
        if v is not None:
            return v
        if e.get("k") == "Ref" and (e.get("n") == "st_num_arg" or e.get("id") in self.nvars):
            return N
        if e.get("k") == "Bin" and e.get("op") in ("+", "-"):
            a, b = self.ival(e["L"], N), self.ival(e["R"], N)
            if a is None or b is None:
                return None
            return a + b if e["op"] == "+" else a - b
        return None

    def slot_ptr(self, e, st, N):
        """argument index an svalue_t* expression points at, or None"""
        e = strip(e)
        k = e.get("k")
        if k == "Ref":
            if e.get("n") == "sp" and e.get("d") == "global":
                return st.sp
            if e.get("d") in ("local", "param"):
                return dict(st.locs).get(e.get("id"))
            return None
        if k == "Bin" and e.get("op") in ("+", "-"):
            base = self.slot_ptr(e["L"], st, N)
            off = self.ival(e["R"], N)
            if base is None and e.get("op") == "+":
                base, off = self.slot_ptr(e["R"], st, N), self.ival(e["L"], N)
            if base is None or off is None:
                return None
            return base + off if e["op"] == "+" else base - off
        if k == "Un" and e.get("op") in ("++", "--"):
            base = self.slot_ptr(e["e"], st, N)
            if base is None:
                return None
            if e.get("post"):
                return base
            return base + (1 if e["op"] == "++" else -1)
        if k == "Un" and e.get("op") == "&":
            return self.slot_lv(e["e"], st, N)
        if k == "Asg" and e.get("op") == "=":
            return self.slot_ptr(e["R"], st, N)
        return None

    def slot_lv(self, e, st, N):
        """argument index of an svalue_t lvalue expression (arg[k], *p)"""
        e = strip(e)
        if e.get("k") == "Sub":
            base = self.slot_ptr(e["b"], st, N)
            off = self.ival(e["i"], N)
            return None if base is None or off is None else base + off
        if e.get("k") == "Un" and e.get("op") == "*":
            return self.slot_ptr(e["e"], st, N)
        return None

    def slot_of_member(self, m, st, N):
        """m: Mem node `X->f` or `X.f` on an svalue: argument index of X"""
        if m.get("a"):
            return self.slot_ptr(m["b"], st, N)
        return self.slot_lv(m["b"], st, N)

    def mask(self, st, N, idx):
        d = dict(st.tags)
        if idx in d:
            return d[idx]
        return initial_mask(self.spec, N, idx)

    # ---- transfer
    def transfer(self, record):
        def t(blk, state):
            out = {}
            for N, st in state.items():
                out[N] = self.block(blk, st, N, record)
            return out
        return t

    def block(self, blk, st, N, record):
        f = self.f
        for i, e in enumerate(blk.el):
            nodes = list(walk(e, True))
            if record:
                stores = {id(strip(x["L"])) for x in nodes if x.get("k") == "Asg" and x.get("op") == "="}
                for n in nodes:
                    if n.get("k") == "Mem" and n.get("f") in PTR and n.get("rec") == "svalue_u" and id(n) not in stores:
                        u = strip(n["b"])
                        if u.get("k") != "Mem" or u.get("f") != "u":
                            continue
                        idx = self.slot_of_member(u, st, N)
                        self.reads.append((blk, n, N, idx, None if idx is None else self.mask(st, N, idx), show(n)[:40]))
                    elif n.get("k") == "Call" and n.get("fn") in TYPED_RELEASE and n.get("args"):
                        # a release helper that treats the slot as one particular kind of value reads that union member
                        idx = self.slot_ptr(n["args"][0], st, N)
                        self.reads.append((blk, {"k": "Mem", "f": TYPED_RELEASE[n["fn"]], "l": n.get("l")}, N, idx, None if idx is None else self.mask(st, N, idx), show(n)[:40]))
            # effects
            for n in nodes:
                k = n.get("k")
                if k == "Un" and n.get("op") in ("++", "--") and strip(n["e"]).get("k") == "Ref" and strip(n["e"]).get("n") == "sp" and strip(n["e"]).get("d") == "global":
                    st = St(None if st.sp is None else st.sp + (1 if n["op"] == "++" else -1), st.tags, st.locs)
                    if n["op"] == "++" and st.sp is not None:
                        st = self.set_tag(st, st.sp, None)
                elif k == "Asg" and strip(n["L"]).get("k") == "Ref" and strip(n["L"]).get("n") == "sp" and strip(n["L"]).get("d") == "global":
                    if n.get("op") in ("+=", "-="):
                        d = self.ival(n["R"], N)
                        st = St(None if (st.sp is None or d is None) else st.sp + (d if n["op"] == "+=" else -d), st.tags, st.locs)
                    else:
                        st = St(self.slot_ptr(n["R"], st, N), st.tags, st.locs)
                elif k == "Asg" and n.get("op") == "=" and strip(n["L"]).get("k") == "Ref" and strip(n["L"]).get("d") in ("local", "param") and "svalue_s *" in (strip(n["L"]).get("t") or ""):
                    locs = dict(st.locs)
                    locs[strip(n["L"]).get("id")] = self.slot_ptr(n["R"], st, N)
                    st = St(st.sp, st.tags, tuple(sorted(locs.items())))
                elif k == "Asg" and strip(n["L"]).get("k") == "Ref" and strip(n["L"]).get("d") in ("local", "param") and "svalue_s *" in (strip(n["L"]).get("t") or ""):
                    locs = dict(st.locs)
                    cur = locs.get(strip(n["L"]).get("id"))
                    d = self.ival(n["R"], N)
                    locs[strip(n["L"]).get("id")] = None if (cur is None or d is None or n.get("op") not in ("+=", "-=")) else (cur + d if n["op"] == "+=" else cur - d)
                    st = St(st.sp, st.tags, tuple(sorted(locs.items())))
                elif k == "Un" and n.get("op") in ("++", "--") and strip(n["e"]).get("k") == "Ref" and strip(n["e"]).get("d") in ("local", "param") and "svalue_s *" in (strip(n["e"]).get("t") or ""):
                    locs = dict(st.locs)
                    cur = locs.get(strip(n["e"]).get("id"))
                    locs[strip(n["e"]).get("id")] = None if cur is None else cur + (1 if n["op"] == "++" else -1)
                    st = St(st.sp, st.tags, tuple(sorted(locs.items())))
                elif k == "Decl":
                    for v in n.get("vars", []):
                        if "svalue_s *" in (v.get("t") or "") and "init" in v:
                            locs = dict(st.locs)
                            locs[v.get("id")] = self.slot_ptr(v["init"], st, N)
                            st = St(st.sp, st.tags, tuple(sorted(locs.items())))
                elif k == "Asg" and n.get("op") == "=" and strip(n["L"]).get("k") == "Mem" and strip(n["L"]).get("f") == "type" and strip(n["L"]).get("rec") in ("svalue_s", "svalue_t"):
                    idx = self.slot_of_member(strip(n["L"]), st, N)
                    if idx is not None:
                        st = self.set_tag(st, idx, None)   # the efun wrote the slot itself: no longer an argument
                elif k == "Asg" and n.get("op") == "=" and "svalue_s" == (strip(n["L"]).get("t") or "").replace("struct ", "").replace("svalue_t", "svalue_s"):
                    idx = self.slot_lv(n["L"], st, N)
                    if idx is not None:
                        st = self.set_tag(st, idx, None)
                elif k == "Call":
                    fn = n.get("fn")
                    if fn in SP_EFFECT:
                        st = St(None if st.sp is None else st.sp + SP_EFFECT[fn], st.tags, st.locs)
                    elif fn == "pop_n_elems":
                        d = self.ival(n["args"][0], N) if n.get("args") else None
                        st = St(None if (st.sp is None or d is None) else st.sp - d, st.tags, st.locs)
                    elif fn and fn.startswith("push_") and fn not in ("push_some_svalues", "push_control_stack", "push_function_context"):
                        sp = None if st.sp is None else st.sp + 1
                        st = St(sp, st.tags, st.locs)
                        if sp is not None:
                            st = self.set_tag(st, sp, None)
                    elif fn in CONSUMES and CONSUMES[fn] is not None and len(n.get("args", [])) > CONSUMES[fn]:
                        d = self.ival(n["args"][CONSUMES[fn]], N)
                        st = St(None if (st.sp is None or d is None) else st.sp - d, st.tags, st.locs)
                    elif n.get("nr"):
                        pass
                    else:
                        cal = self.cg.callees_of_call(f, n)
                        if cal & self.touches_sp:
                            effs = {net_effect(self, c) for c in cal & self.touches_sp}
                            if (len(effs) != 1 or None in effs) and N is not None:
                                # a helper that is handed the argument count: its effect depends on it
                                pis = [j for j, a in enumerate(n.get("args", [])) if self.ival(a, N) == N and strip(a).get("k") in ("Ref",)]
                                for pj in pis:
                                    e2 = {net_effect_n(self, c, pj, N) for c in cal & self.touches_sp}
                                    if len(e2) == 1 and None not in e2:
                                        effs = e2
                                        break
                            if len(effs) == 1 and None not in effs and st.sp is not None:
                                st = St(st.sp + effs.pop(), st.tags, st.locs)
                            else:
                                st = St(None, st.tags, st.locs)
        return st

    def set_tag(self, st, idx, m):
        d = dict(st.tags)
        d[idx] = m
        return St(st.sp, tuple(sorted(d.items(), key=lambda x: x[0])), st.locs)

    # ---- edges
    def type_expr_slot(self, e, st, N):
        e = strip(e)
        if e.get("k") == "Mem" and e.get("f") == "type" and e.get("rec") in ("svalue_s", "svalue_t"):
            return self.slot_of_member(e, st, N)
        return None

    def refine(self, c, truth, st, N):
        """returns new St, or False when the edge is infeasible for this N"""
        for a, t in implied_atoms(c, truth):
            op, l, r = atom_of(a, t)
            if op in ("true", "false"):
                l0 = strip(l)
                if l0.get("k") == "Bin" and l0.get("op") == "&":
                    for x, y in ((l0["L"], l0["R"]), (l0["R"], l0["L"])):
                        idx = self.type_expr_slot(x, st, N)
                        m = const_val(y)
                        if idx is not None and m is not None:
                            cur = self.mask(st, N, idx)
                            if cur is not None:
                                new = (cur & m) if op == "true" else (cur & ~m)
                                if new == 0:
                                    return False
                                st = self.set_tag(st, idx, new)
                else:
                    if l0.get("k") == "Ref" and l0.get("n") == "sp" and l0.get("d") == "global" and op == "false":
                        return False   # the value stack pointer is never NULL
                    v = self.ival(l0, N) if l0.get("k") in ("Ref", "Bin") else None
                    if v is not None and ((op == "true") != (v != 0)):
                        return False
                continue
            for x, y, o in ((l, r, op), (r, l, {"<": ">", ">": "<", "<=": ">=", ">=": "<="}.get(op, op))):
                idx = self.type_expr_slot(x, st, N)
                m = const_val(y)
                if idx is not None and m is not None and o in ("==", "!="):
                    cur = self.mask(st, N, idx)
                    if cur is not None:
                        new = (cur & m) if o == "==" else (cur & ~m)
                        if new == 0:
                            return False
                        st = self.set_tag(st, idx, new)
                    break
                a_, b_ = self.ival(x, N), self.ival(y, N)
                xs = strip(x)
                if a_ is not None and b_ is not None and (xs.get("n") == "st_num_arg" or xs.get("id") in self.nvars or (xs.get("k") == "Bin" and any(w.get("n") == "st_num_arg" or w.get("id") in self.nvars for w in walk(xs)))):
                    ok = {"==": a_ == b_, "!=": a_ != b_, "<": a_ < b_, ">": a_ > b_, "<=": a_ <= b_, ">=": a_ >= b_}[o]
                    if not ok:
                        return False
                    break
        return st

    def edge(self, blk, idx, s, state):
        f = self.f
        t = blk.term or {}
        if t.get("k") == "SwitchStmt":
            cond = t.get("cond") or (blk.el[-1] if blk.el else None)
            lab = f.blocks[s].label if s is not None else None
            out = {}
            for N, st in state.items():
                # operands of the switch: `S->type`, or `A->type | B->type` (a single-bit case value then fixes both)
                c0 = strip(cond) if cond is not None else None
                operands = []
                if c0 is not None:
                    if c0.get("k") == "Bin" and c0.get("op") == "|":
                        operands = [strip(c0["L"]), strip(c0["R"])]
                    else:
                        operands = [c0]
                # an assignment inside the operand: (sv = v->item + i)->type  -> not an argument slot
                slots = [self.type_expr_slot(o, st, N) for o in operands]
                if lab is None or not any(x is not None for x in slots):
                    if c0 is not None and lab is not None and lab.get("k") == "case":
                        v = self.ival(c0, N)
                        if v is not None and lab.get("lo") is not None and not (lab["lo"] <= v <= (lab.get("hi") if lab.get("hi") is not None else lab["lo"])):
                            continue
                    out[N] = st
                    continue
                cases = 0
                for x in blk.succ:
                    if x is not None and f.blocks[x].label and f.blocks[x].label.get("k") == "case" and f.blocks[x].label.get("lo") is not None:
                        cases |= f.blocks[x].label["lo"]
                feasible = True
                for sl in slots:
                    if sl is None:
                        continue
                    cur = self.mask(st, N, sl)
                    if cur is None:
                        continue
                    if lab.get("k") == "case" and lab.get("lo") is not None:
                        v = lab["lo"]
                        if len(slots) == 1:
                            new = cur & v
                        else:
                            # a | b == v: a is a subset of v's bits; tags are single bits, so a is one of v's bits
                            new = cur & v
                        if new == 0:
                            feasible = False
                            break
                        st = self.set_tag(st, sl, new)
                    elif lab.get("k") == "default" and len(slots) == 1:
                        new = cur & ~cases
                        if new == 0:
                            feasible = False
                            break
                        st = self.set_tag(st, sl, new)
                if feasible:
                    out[N] = st
            return out or None
        c = f.branch_cond(blk)
        if c is None or idx > 1:
            return state
        out = {}
        for N, st in state.items():
            r = self.refine(c, idx == 0, st, N)
            if r is False:
                continue
            out[N] = r
        return out or None


NET_EFFECT = {}
DUMMY_SPEC = {"word": "<helper>", "fn": "<helper>", "min": 0, "max": 0, "masks": [REAL_TAGS] * 4}


def net_effect(ctx, name):
    """constant change of sp between entry and every returning exit of a helper function, or None"""
    if name in NET_EFFECT:
        return NET_EFFECT[name]
    NET_EFFECT[name] = None          # recursion guard / unknown
    fs = ctx.cg.funcs.get(name, [])
    if len(fs) != 1:
        return None
    g = fs[0]
    it = Interp(g, DUMMY_SPEC, ctx.touches_sp, ctx.cg)
    try:
        ins = solve(g, {0: St(0)}, it.transfer(False), it.edge, make_join(DUMMY_SPEC))
    except (RuntimeError, RecursionError):
        return None
    tr = it.transfer(False)
    vals = set()
    for bid in g.reachable():
        blk = g.blocks[bid]
        if g.exit not in [x for x in blk.succ if x is not None] or bid not in ins:
            continue
        if blk.nr or any(m.get("k") == "Call" and (m.get("nr") or m.get("fn") in ("error", "error_handler", "fatal", "bad_arg", "bad_argument", "longjmp")) for e in blk.el for m in walk(e, True)):
            continue
        out = tr(blk, ins[bid])
        for idx, sx in enumerate(blk.succ):
            if sx == g.exit:
                o2 = it.edge(blk, idx, sx, out)
                if o2:
                    vals |= {st.sp for st in o2.values()}
    if len(vals) == 1 and None not in vals:
        NET_EFFECT[name] = vals.pop()
    return NET_EFFECT[name]


NET_EFFECT_N = {}


def net_effect_n(ctx, name, pi, N):
    """change of sp of a helper whose parameter `pi` carries the argument count N (f_filter -> filter_array(arg, num_arg)):
    the helper is interpreted with that parameter bound to N"""
    key = (name, pi, N)
    if key in NET_EFFECT_N:
        return NET_EFFECT_N[key]
    NET_EFFECT_N[key] = None
    fs = ctx.cg.funcs.get(name, [])
    if len(fs) != 1:
        return None
    g = fs[0]
    pid = None
    for p_ in g.params or []:
        if p_.get("pi") == pi and (p_.get("t") or "") in ("int", "long", "unsigned int", "short"):
            pid = p_.get("id")
    if pid is None:
        return None
    it = Interp(g, DUMMY_SPEC, ctx.touches_sp, ctx.cg)
    it.nvars = set(it.nvars) | {pid}
    try:
        ins = solve(g, {N: St(0)}, it.transfer(False), it.edge, make_join(DUMMY_SPEC))
    except (RuntimeError, RecursionError):
        return None
    tr = it.transfer(False)
    vals = set()
    for bid in g.reachable():
        blk = g.blocks[bid]
        if g.exit not in [x for x in blk.succ if x is not None] or bid not in ins:
            continue
        if blk.nr or any(m.get("k") == "Call" and (m.get("nr") or m.get("fn") in ("error", "error_handler", "fatal", "bad_arg", "bad_argument", "longjmp")) for e in blk.el for m in walk(e, True)):
            continue
        out = tr(blk, ins[bid])
        for idx, sx in enumerate(blk.succ):
            if sx == g.exit:
                o2 = it.edge(blk, idx, sx, out)
                if o2:
                    vals |= {st.sp for st in o2.values()}
    if len(vals) == 1 and None not in vals:
        NET_EFFECT_N[key] = vals.pop()
    return NET_EFFECT_N[key]


def make_join(spec):
    def join(a, b):
        if a == b:
            return a
        out = dict(a)
        for N, st in b.items():
            out[N] = join_st(out[N], st, spec, N) if N in out else st
        return out
    return join


def extend_consumers(prog):
    """functions that hand one of their own int parameters on as the argument count of an apply-style consumer consume that
    many stacked values themselves (clone_object -> call_create -> apply ...)."""
    changed = True
    rounds = 0
    while changed and rounds < 6:
        changed = False
        rounds += 1
        for g in prog.functions():
            if g.name in CONSUMES or not g.params:
                continue
            pidx = {p.get("id"): k for k, p in enumerate(g.params)}
            for b, i, n in g.calls():
                ci = CONSUMES.get(n.get("fn"))
                if ci is None or len(n.get("args", [])) <= ci:
                    continue
                a = strip(n["args"][ci])
                if a.get("k") == "Ref" and a.get("id") in pidx:
                    CONSUMES[g.name] = pidx[a.get("id")]
                    changed = True
                    break


def check(run, prog, tier, cg):
    extend_consumers(prog)
    run.rule("C01-e", "every read of a pointer member (u.string/u.arr/u.map/u.ob/u.buf/u.fp) of an efun argument slot happens under a tag set, guaranteed by the dispatcher or established by the efun's own tests, for which that member is a pointer", 150)
    specs, path = load_specs()
    run.need(specs, "generated efun table %s" % path)
    run.need(len(specs) >= 200, "predefs rows (found %d)" % len(specs))
    # functions that can move the value stack pointer
    writes_sp = set()
    for f in prog.functions():
        for b, i, n in f.nodes():
            t = None
            if n.get("k") == "Asg":
                t = strip(n["L"])
            elif n.get("k") == "Un" and n.get("op") in ("++", "--"):
                t = strip(n["e"])
            if t is not None and t.get("k") == "Ref" and t.get("n") == "sp" and t.get("d") == "global":
                writes_sp.add(f.name)
    # A callee can hand back a different sp only if it moves sp itself or directly calls something that does
    # (push_*/pop_* helpers).  Deeper chains (apply, load_object, error ...) follow the interpreter's calling
    # convention: they consume exactly the arguments they are told about, which SP_EFFECT/CONSUMES model.
    touches_sp = set(writes_sp)
    for g in prog.functions():
        for b, i, n in g.calls():
            if cg.callees_of_call(g, n) & writes_sp:
                touches_sp.add(g.name)
                break
    touches_sp -= set(CONSUMES) | {"error", "fatal", "bad_arg", "bad_argument", "free_svalue", "free_string_svalue", "int_free_svalue", "assign_svalue", "assign_svalue_no_free"}
    touches_sp.add("<unknown>")
    run.extra["functions_moving_sp"] = len(touches_sp)
    byfn = {}
    for s in specs:
        byfn.setdefault(s["fn"], []).append(s)
    nefun = nmissing = nreads = nunres = 0
    for fn in sorted(byfn):
        f = prog.func(fn)
        if f is None:
            nmissing += 1
            continue
        nefun += 1
        agg = {}   # (arg index, member) -> [worst verdict, detail, line]
        for spec in byfn[fn]:
            lo = spec["min"]
            hi = spec["max"] if spec["max"] != -1 else max(spec["min"], 4) + 2
            Ns = list(range(lo, hi + 1))
            it = Interp(f, spec, touches_sp, cg)
            init = {N: St(N - 1) for N in Ns}
            try:
                ins = solve(f, init, it.transfer(False), it.edge, make_join(spec))
            except RuntimeError:
                run.ob("C01-e", "efun:%s:diverged" % fn, None, "abstract interpretation did not converge", f.file, f.line, fn)
                continue
            tr = it.transfer(True)
            for bid in sorted(f.reachable(), reverse=True):
                if bid in ins:
                    tr(f.blocks[bid], ins[bid])
            for blk, n, N, idx, m, txt in it.reads:
                nreads += 1
                if idx is None or m is None or idx < 0 or idx >= N:
                    nunres += 1
                    continue
                member = n.get("f")
                badtags = m & ~PTR[member] & REAL_TAGS
                key = (idx, member)
                if badtags:
                    checked = idx < 4 and ((spec["max"] != -1 and N < 4) or idx < spec["min"])
                    why = "%s(): `%s` (line %s) reads u.%s of argument %d, which can still be %s when %d argument(s) are passed (%s)" % (
                        spec["word"], txt, n.get("l"), member, idx + 1, tagnames(badtags), N,
                        "the dispatcher only guarantees %s" % tagnames(spec["masks"][idx]) if checked else "the dispatcher does not type-check this argument in that call form")
                    if key not in agg or agg[key][0] is not False:
                        agg[key] = [False, why, n.get("l")]
                elif key not in agg:
                    agg[key] = [True, "u.%s of argument %d is read only under %s" % (member, idx + 1, tagnames(m)), n.get("l")]
        if not agg:
            continue
        run.saw(f)
        for (idx, member), (ok, why, line) in sorted(agg.items()):
            run.ob("C01-e", "efun:%s:arg%d:%s" % (fn, idx + 1, member), ok, why, f.file, line, fn,
                   what="%s uses argument %d as a %s pointer without having established its type" % (fn, idx + 1, member))
    run.extra["efuns_analysed"] = nefun
    run.extra["efun_specs_without_function"] = nmissing
    run.extra["pointer_member_reads"] = nreads
    run.extra["unresolved_reads"] = nunres
