"""C01-i — no iteration over a mapping's internals across an LPC callback unless the mapping is private.

Mapping nodes are freed by map_delete() and the bucket table is re-allocated by growMap(); both are
reachable from any LPC callback that can see the mapping.  An efun that keeps a `mapping_node_t *` or the
table pointer in a local across a call that can run LPC code and return (call_efun_callback, apply ...)
therefore walks freed memory when the callback edits that mapping - unless the callback cannot reach it:
the efun iterates its own copy (copyMapping/allocate_mapping result, or a table it allocated itself), or
it has established that the value stack holds the only reference (`ref > 1` leads to the copy).

Typestate as in C09-c (stale.py): node/table pointers go stale at a returning LPC call; a stale use puts
an obligation on the *root* of the pointer: every definition of the mapping variable it was loaded from
must be a private one.  Callbacks into the master object only (object_name() from sprintf("%O")) are
reported as undecided: the master is trusted mudlib code and would have to edit the value being printed."""
import callgraph
import cfgq
import stale
from core import rel
from facts import strip, show, walk, atom_of

PRIVATE_CTORS = {"copyMapping", "allocate_mapping", "allocate_mapping2", "mkmapping", "load_mapping_from_aggregate"}
ALLOCS = {"DXALLOC", "DMALLOC", "CALLOCATE", "ALLOCATE", "calloc", "malloc", "xalloc", "debugmalloc", "debugcalloc"}


def tracked_vars(f):
    out = {}
    for b, i, n in f.nodes(reachable_only=False):
        if n.get("k") == "Ref" and n.get("d") in ("local", "param") and "mapping_node" in (n.get("t") or ""):
            out[n.get("id")] = n.get("n")
        if n.get("k") == "Decl":
            for v in n.get("vars", []):
                if "mapping_node" in (v.get("t") or ""):
                    out[v.get("id")] = v.get("n")
    return out


def defs_of(f, vid):
    """[(block, rhs)] for every assignment / initialiser of a local."""
    out = []
    for b, i, n in f.nodes():
        if n.get("k") == "Asg" and n.get("op") == "=" and strip(n["L"]).get("k") == "Ref" and strip(n["L"]).get("id") == vid:
            out.append((b, i, strip(n["R"])))
        elif n.get("k") == "Decl":
            for v in n.get("vars", []):
                if v.get("id") == vid and "init" in v:
                    out.append((b, i, strip(v["init"])))
    return out


def sole_ref_guard(f, blk):
    """the block is reached only when `X->ref > 1` is false / `X->ref == 1` is true / `X->ref <= 1`."""
    for c, t, B in cfgq.guards(f, blk.id):
        op, l, r = atom_of(c, t)
        if op in ("true", "false"):
            continue
        ls = strip(l)
        if ls.get("k") == "Mem" and ls.get("f") == "ref" and show(strip(r)) == "1" and op in ("<=", "=="):
            return show(c)
    return None


def root_privacy(f, ref, depth=0, seen=None):
    """(True/False/None, text): are the mapping internals this pointer was loaded from private to f?"""
    seen = seen or set()
    vid = ref.get("id")
    if vid in seen or depth > 6:
        return None, "cyclic derivation"
    seen = seen | {vid}
    ds = defs_of(f, vid)
    if not ds:
        return (False, "%s is a parameter: the caller's mapping" % ref.get("n")) if ref.get("d") == "param" else (None, "no definition of %s found" % ref.get("n"))
    verdicts = []
    for blk, bi, r in ds:
        # peel  X->next, X[j], *X, &X[j], X + k, X->table
        e = r
        steps = 0
        while isinstance(e, dict) and steps < 8:
            steps += 1
            k = e.get("k")
            if k == "Mem" and e.get("f") in ("next", "table"):
                if e.get("f") == "table":
                    base = strip(e["b"])
                    verdicts.append(mapping_private(f, base, (blk.id, bi), depth, seen))
                    e = None
                    break
                e = strip(e["b"])
            elif k == "Sub":
                e = strip(e["b"])
            elif k == "Un" and e.get("op") in ("*", "&"):
                e = strip(e["e"])
            elif k == "Bin" and e.get("op") in ("+", "-"):
                e = strip(e["L"])
            else:
                break
        if e is None:
            continue
        if e.get("k") == "Ref" and e.get("d") in ("local", "param") and "mapping_node" in (e.get("t") or ""):
            if e.get("id") == vid:
                continue   # elt = elt->next: same root
            verdicts.append(root_privacy(f, e, depth + 1, seen))
        elif e.get("k") == "Call" and (e.get("fn") in ALLOCS or e.get("fn") in ("new_map_node",)):
            verdicts.append((True, "allocated here (%s)" % e.get("fn")))
        elif e.get("k") in ("Int",) or (e.get("k") == "Cast" and show(e) in ("0", "NULL")):
            continue
        else:
            verdicts.append((None, "derived from `%s`" % show(r)[:50]))
    if not verdicts:
        return None, "no root found"
    if any(v[0] is False for v in verdicts):
        return next(v for v in verdicts if v[0] is False)
    if any(v[0] is None for v in verdicts):
        return next(v for v in verdicts if v[0] is None)
    return True, "; ".join(sorted({v[1] for v in verdicts}))


def mapping_private(f, base, use_pt, depth, seen):
    """base: the expression X in `X->table`."""
    if base.get("k") == "Ref" and base.get("d") in ("local", "param"):
        ds = defs_of(f, base.get("id"))
        if not ds:
            return False, "iterates the caller's mapping `%s`" % base.get("n")
        out = []
        for b2, i2, r in ds:
            if r.get("k") == "Call" and r.get("fn") in PRIVATE_CTORS:
                out.append((True, "%s = %s(..)" % (base.get("n"), r.get("fn"))))
                continue
            g = sole_ref_guard(f, b2)
            if g:
                out.append((True, "%s = %s only when `%s` (the stack slot holds the only reference)" % (base.get("n"), show(r)[:30], g)))
                continue
            # a later re-definition that dominates the iteration overrides this one
            later = [(b3, i3) for b3, i3, r3 in ds if (b3.id, i3) != (b2.id, i2) and r3.get("k") == "Call" and r3.get("fn") in PRIVATE_CTORS
                     and f.point_dominates((b3.id, i3), use_pt) and f.point_dominates((b2.id, i2), (b3.id, i3))]
            if later:
                continue
            out.append((False, "%s = %s: a mapping LPC code can still reach, neither copied nor shown to be singly referenced" % (base.get("n"), show(r)[:40])))
        bad = [o for o in out if o[0] is False]
        return bad[0] if bad else (True, "; ".join(o[1] for o in out))
    return False, "iterates `%s` directly (a shared mapping)" % show(base)[:40]


def check(run, prog, tier, cg):
    run.rule("C01-i", "a mapping_node_t*/table pointer used after a call that can run LPC code and return belongs to a mapping the callback cannot reach: a copy made by the efun, a table it allocated, or a mapping shown to have ref == 1", 3)
    ret_lpc = cg.reaches(callgraph.LPC_SEEDS | {"<unknown>"}, barriers={"fatal"} | callgraph.RAISE_SEEDS)
    not_master = cg.reaches(callgraph.LPC_SEEDS | {"<unknown>"}, barriers={"fatal", "apply_master_ob", "safe_apply_master_ob"} | callgraph.RAISE_SEEDS)
    n = 0
    for f in sorted(prog.functions(), key=lambda x: (x.file, x.line)):
        tv = tracked_vars(f)
        if not tv:
            continue

        def kill(c, st):
            cal = cg.callees_of_call(f, c)
            if cal & not_master:
                return "strong"
            if cal & ret_lpc:
                return "master"
            return None
        try:
            res = stale.analyse(f, tv, kill, subscript_is_use=True)
        except RuntimeError:
            continue
        by_site = res.stale_by_site()
        if not by_site:
            continue
        run.saw(f)
        # one obligation per held variable
        held = {}
        for blk, nd, ref, what, sites in res.uses:
            if sites:
                held.setdefault(ref.get("id"), []).append((blk, nd, ref, what, sites))
        for vid in sorted(held, key=lambda v: tv[v]):
            blk, nd, ref, what, sites = held[vid][0]
            n += 1
            strength = "strong" if any(res.kills[s] == "strong" for u in held[vid] for s in u[4]) else "master"
            ok, why = root_privacy(f, ref)
            site = sorted(sites, key=lambda s: s[2] or 0)[0]
            inst = "held:%s:%s:%s" % (rel(f.file), f.name, tv[vid])
            if ok:
                run.ob("C01-i", inst, True, "%s is used after %s() returned; its mapping is private: %s" % (what, site[3], why), f.file, nd.get("l"), f.name)
            elif strength == "master" or ok is None:
                run.ob("C01-i", inst, None, "%s is used after %s() (line %s): %s%s" % (what, site[3], site[2], why, "; only master applies intervene" if strength == "master" else ""), f.file, nd.get("l"), f.name)
            else:
                run.ob("C01-i", inst, False, "%s is used at line %s after %s() (line %s) ran LPC code: %s" % (what, nd.get("l"), site[3], site[2], why), f.file, nd.get("l"), f.name,
                       what="%s walks a mapping's nodes across the LPC callback %s() although the callback can delete from or grow that mapping (%s)" % (f.name, site[3], why))
    run.extra["held_mapping_pointers"] = n
