"""C01-n — `a[len - 1]` needs len > 0.

An index of the form `V - 1` (last element / last character) is evaluated in the type of V; when V is a
length that can be zero the access lands one element in front of the object (or, for unsigned V, far
behind it).  Every such subscript whose base is script-sized data must be reached only with V known
to be positive."""
import cfgq
from core import rel
from facts import strip, show, walk, const_val, atom_of, normalize_cond
from stale import implied_atoms


def positive_atoms(f, bid, vtext, need=1):
    """a dominating fact that shows V >= need"""
    for c, truth, B in cfgq.guards(f, bid):
        for a, tr in implied_atoms(c, truth):
            op, l, r = atom_of(a, tr)
            if op == "true" and show(strip(l)) == vtext and need <= 1:
                return "`%s` tested non-zero at line %s" % (vtext, strip(a).get("l"))
            if r is None:
                continue
            k = const_val(r)
            if show(strip(l)) == vtext and k is not None and ((op == ">" and k >= need - 1) or (op == ">=" and k >= need) or (op == "!=" and k == 0 and need <= 1)):
                return "`%s %s %s` at line %s" % (vtext, op, k, strip(a).get("l"))
            # 0 < V
            k2 = const_val(l)
            if show(strip(r)) == vtext and k2 is not None and ((op == "<" and k2 >= need - 1) or (op == "<=" and k2 >= need)):
                return "`%s %s %s` at line %s" % (k2, op, vtext, strip(a).get("l"))
    return None


def check(run, prog, RULE="C01-n"):
    n_sites = 0
    for f in sorted(prog.functions(), key=lambda x: (x.file, x.line)):
        if not ("/src/" in f.file or "/lib/efuns/" in f.file or "/lib/lpc/" in f.file or "/lib/socket/" in f.file):
            continue
        seen = set()
        for b, i, n in f.nodes():
            if n.get("k") != "Sub":
                continue
            ix = strip(n["i"])
            if not (ix.get("k") == "Bin" and ix.get("op") == "-" and (const_val(ix["R"]) or 0) >= 1 and const_val(ix["R"]) <= 8):
                continue
            need = const_val(ix["R"])
            v = strip(ix["L"])
            if v.get("k") not in ("Ref", "Mem", "Call"):
                continue
            if v.get("k") == "Call" and v.get("fn") != "strlen":
                continue
            # arrays of declared extent indexed by a loop counter are the business of the compiler; we want lengths
            vtext = show(v)
            key = (n.get("l"), vtext)
            if key in seen:
                continue
            seen.add(key)
            n_sites += 1
            why = positive_atoms(f, b.id, vtext, need)
            # a `V - 1` index inside a loop `for (V = ...; V > 0; V--)` is covered by the loop guard above; also
            # accept an assignment V = <expr> + K (K >= 1) or V = constant >= 1 that dominates the use with no other writer
            if why is None and v.get("k") == "Ref" and v.get("d") in ("local", "param"):
                defs = [(b2, i2, n2) for b2, i2, n2 in f.nodes() if (n2.get("k") == "Asg" and strip(n2["L"]).get("k") == "Ref" and strip(n2["L"]).get("id") == v.get("id")) or
                        (n2.get("k") == "Un" and n2.get("op") in ("++", "--") and strip(n2["e"]).get("id") == v.get("id") and strip(n2["e"]).get("k") == "Ref")]
                decl = [vv for b2, i2, n2 in f.nodes() if n2.get("k") == "Decl" for vv in n2.get("vars", []) if vv.get("id") == v.get("id") and "init" in vv]
                asg = [d for d in defs if d[2].get("k") == "Asg"]
                incs = [d for d in defs if d[2].get("k") == "Un" and d[2].get("op") == "++"]
                if asg and len(asg) + len(incs) == len(defs) and not decl and all(d[2].get("op") == "=" and (const_val(d[2]["R"]) or 0) >= need for d in asg):
                    why = "`%s` starts at %s and is only incremented" % (vtext, "/".join(sorted({str(const_val(d[2]["R"])) for d in asg})))
                elif len(defs) + len(decl) == 1:
                    r = defs[0][2]["R"] if defs and defs[0][2].get("k") == "Asg" and defs[0][2].get("op") == "=" else (decl[0]["init"] if decl else None)
                    if r is not None:
                        r0 = strip(r)
                        if (const_val(r0) or 0) >= need or (r0.get("k") == "Bin" and r0.get("op") == "+" and ((const_val(r0["R"]) or 0) >= need or (const_val(r0["L"]) or 0) >= need)):
                            why = "`%s` is assigned once, from `%s`" % (vtext, show(r0)[:40])
            # certain only when V is the length of a string the script supplied; other unproven sites are undecided
            verdict = True if why else None
            if not why and v.get("k") == "Ref" and v.get("d") in ("local", "param"):
                # only definitions that can reach this use
                def reaches(b2, i2):
                    return (b2.id == b.id and i2 < i) or b.id in cfgq.reach_set(f, b2.live_succ())
                defs = [d for d in defs if reaches(d[0], d[1])]
                srcs = [d[2]["R"] for d in defs if d[2].get("k") == "Asg" and d[2].get("op") == "="] + [vv["init"] for vv in decl]
                def script_len(r):
                    r0 = strip(r)
                    lenlike = (r0.get("k") == "Call" and r0.get("fn") == "strlen") or any("STRLEN" in str(x.get("m") or "") for x in walk(r)) or any(x.get("k") == "Mem" and x.get("f") == "size" and any(y.get("k") == "Mem" and y.get("f") == "string" for y in walk(x)) for x in walk(r))
                    data = any(x.get("k") == "Mem" and x.get("f") == "string" for x in walk(r)) or any(x.get("k") == "Ref" and x.get("d") == "param" and "char" in (x.get("t") or "") for x in walk(r))
                    return lenlike and data
                def positive_copy(d):
                    # `V = W` executed only where W is known positive
                    n2 = d[2]
                    if n2.get("k") != "Asg" or n2.get("op") != "=":
                        return False
                    w = strip(n2["R"])
                    return w.get("k") in ("Ref", "Mem") and positive_atoms(f, d[0].id, show(w), need) is not None
                plain = [d for d in defs if not positive_copy(d)]
                srcs = [d[2]["R"] for d in plain if d[2].get("k") == "Asg" and d[2].get("op") == "="] + [vv["init"] for vv in decl]
                if srcs and len(srcs) == len(plain) + len(decl) and all(script_len(r) for r in srcs):
                    verdict = False
            run.saw(f)
            run.ob(RULE, "last:%s:%s:%s" % (rel(f.file), f.name, show(strip(n))[:48]), verdict,
                   "%s: %s" % (show(strip(n))[:60], why) if why else
                   "`%s` at line %s indexes with `%s - K` and no dominating test shows `%s` to be at least K: for an empty string/array this reads or writes in front of the object" % (show(strip(n))[:60], n.get("l"), vtext, vtext),
                   f.file, n.get("l"), f.name, what="%s accesses element `%s - 1` without knowing that %s > 0" % (f.name, vtext, vtext))
    run.need(n_sites >= 10, "`x[len - 1]` accesses (found %d)" % n_sites)
