"""C01-o — a value borrowed from apply_ret_value dies at the next apply.

apply(), safe_apply(), apply_master_ob(), call_function_pointer() ... return a pointer to the single global
`apply_ret_value` (check_valid_path() returns the string inside it).  The next call that stores a new result
there releases the old one: every pointer a caller still holds to the old result, or to anything inside it
(`stmp->u.string`), dangles from then on.

Typestate (stale.analyse with derived pointers):
  borrow   a local assigned from a call of a *borrower* (a function whose return value is, or points into,
           apply_ret_value - computed as a closure over `return` statements), or from an expression that
           mentions a borrowed local
  kill     a call that may store a new apply result and return
  use      dereference of a borrowed local, or handing it to a call"""
import callgraph
import cfgq
import stale
from core import rel
from facts import strip, show, walk, const_val

GLOBAL = "apply_ret_value"


def mentions_global(e):
    return any(x.get("k") == "Ref" and x.get("n") == GLOBAL for x in walk(e))


def borrowers(prog):
    """functions whose return value is or points into apply_ret_value"""
    out = set()
    rets = {}
    for f in prog.functions():
        rl = []
        for b, i, e in f.elements():
            if e.get("k") == "Return" and "e" in e:
                rl.append(e["e"])
        rets[f.name] = (f, rl)
    changed = True
    while changed:
        changed = False
        for name, (f, rl) in rets.items():
            if name in out or "*" not in (f.rt or ""):
                continue
            hit = False
            for r in rl:
                r0 = strip(r)
                if mentions_global(r):
                    hit = True
                elif r0.get("k") == "Call" and r0.get("fn") in out:
                    hit = True
                elif r0.get("k") == "Ref" and r0.get("d") == "local":
                    # a local assigned from a borrower / from the global
                    for b2, i2, n2 in f.nodes():
                        if n2.get("k") == "Asg" and n2.get("op") == "=" and strip(n2["L"]).get("id") == r0.get("id") and strip(n2["L"]).get("k") == "Ref":
                            rr = strip(n2["R"])
                            if mentions_global(n2["R"]) or (rr.get("k") == "Call" and rr.get("fn") in out):
                                hit = True
                            # chained: ret_path = apply_ret_value.u.string = string_copy(..)
                            if rr.get("k") == "Asg" and mentions_global(rr["L"]):
                                hit = True
            if hit:
                out.add(name)
                changed = True
    return out


def writers(prog):
    out = set()
    for f in prog.functions():
        for b, i, n in f.nodes():
            if n.get("k") == "Asg" and mentions_global(n["L"]):
                out.add(f.name)
    return out


def holds_borrow(f, res, blk, call, ref, tracked, bor):
    """is `ref` borrowed (present in the state) when the call is made?  Re-run the block's transfer up to the call."""
    st = dict(res.ins.get(blk.id, {}))
    # cheap re-evaluation: a variable is borrowed at the call if it is in the block's in-state and not reassigned
    # before, or was assigned from a borrower / a borrowed variable earlier in this block
    borrowed = set(st)
    for e in blk.el:
        hit = False
        for m in walk(e, True):
            if m is call:
                hit = True
        if hit:
            break
        for m in walk(e, True):
            if m.get("k") == "Asg" and m.get("op") == "=" and strip(m["L"]).get("k") == "Ref":
                r0 = strip(m["R"])
                vid = strip(m["L"]).get("id")
                if (r0.get("k") == "Call" and r0.get("fn") in bor) or (r0.get("k") != "Call" and any(x.get("k") == "Ref" and x.get("id") in borrowed for x in walk(m["R"]))):
                    borrowed.add(vid)
                else:
                    borrowed.discard(vid)
    return ref.get("id") in borrowed


def check(run, prog, cg, RULE="C01-o"):
    bor = borrowers(prog)
    run.need(len(bor) >= 4 and "apply" in bor, "functions returning (into) apply_ret_value (found %s)" % sorted(bor)[:8])
    wr = writers(prog)
    run.need("apply" in wr or "apply_low" in wr, "writers of apply_ret_value (found %s)" % sorted(wr))
    # destruct_object / reset_interpreter only clear it; the stores that matter are the result stores
    no_return = {"fatal"} | callgraph.RAISE_SEEDS
    killers = cg.reaches(wr - {"reset_interpreter"}, barriers=no_return)
    own = lambda c: (c.get('fn') or '').startswith('assign_svalue') and any(mentions_global(a) for a in c.get('args', [])[1:])

    def derived_locals(f, seed):
        tracked = dict(seed)
        changed = True
        while changed:
            changed = False
            for b, i, n in f.nodes():
                if n.get("k") == "Asg" and n.get("op") == "=" and strip(n["L"]).get("k") == "Ref" and strip(n["L"]).get("d") in ("local", "param"):
                    tgt, r = strip(n["L"]), n["R"]
                    if "*" in (tgt.get("t") or "") and tgt.get("id") not in tracked:
                        r0 = strip(r)
                        if (r0.get("k") == "Call" and r0.get("fn") in bor) or (r0.get("k") != "Call" and any(x.get("k") == "Ref" and x.get("id") in tracked for x in walk(r))):
                            tracked[tgt.get("id")] = tgt.get("n")
                            changed = True
                elif n.get("k") == "Decl":
                    for vv in n.get("vars", []):
                        if "init" in vv and "*" in (vv.get("t") or "") and vv.get("id") not in tracked:
                            r0 = strip(vv["init"])
                            if (r0.get("k") == "Call" and r0.get("fn") in bor) or (r0.get("k") != "Call" and any(x.get("k") == "Ref" and x.get("id") in tracked for x in walk(vv["init"]))):
                                tracked[vv.get("id")] = vv.get("n")
                                changed = True
        return tracked

    # a store reached only through the snooper's receive_snoop() hook needs a non-interactive snooper that the
    # master allowed to snoop: reported as undecided
    killers_strong = cg.reaches(wr - {"reset_interpreter"}, barriers=no_return | {"receive_snoop"}, cut_edges=cg.snoop_edges())

    def mk_kill(f):
        def kill(n, st):
            if n.get("fn") in no_return:
                return None
            cs = cg.callees_of_call(f, n)
            if cs & killers_strong:
                return "apply"
            if cs & killers:
                return "snoop"
            return None
        return kill

    # callee summaries: which pointer parameters does a function still use after it made an apply itself?
    late_params = {}
    for f in prog.functions():
        if ("/src/" not in f.file and "/lib/" not in f.file) or (f.name in bor and f.name in wr):
            continue
        ptr_params = {p.get("id"): p.get("n") for p in (f.params or []) if "*" in (p.get("t") or "") and "(" not in (p.get("t") or "")}
        if not ptr_params or not any(cg.callees_of_call(f, n) & killers for b, i, n in f.calls() if n.get("fn") not in no_return):
            continue
        tracked = derived_locals(f, ptr_params)
        res = stale.analyse(f, tracked, mk_kill(f), derive=True, fresh_call=lambda c: c.get('fn') in bor, own_call=own, init_state={pid: frozenset() for pid in ptr_params})
        late = {}
        for blk, n, ref, what, ks in res.uses:
            if ks and ref.get("id") in ptr_params:
                k0 = sorted(ks, key=lambda s: (res.kills.get(s) != "apply", s[2] or 0))[0]
                late.setdefault(ref.get("pi"), (n.get("l"), what, k0, res.kills.get(k0)))
        if late:
            late_params[f.name] = late
    run.note("C01-o: %d functions use a pointer parameter after an apply of their own" % len(late_params))

    n_b = 0
    for f in sorted(prog.functions(), key=lambda x: (x.file, x.line)):
        if "/src/" not in f.file and "/lib/" not in f.file:
            continue
        if f.name in bor and f.name in wr:
            continue    # the apply family itself
        tracked = derived_locals(f, {})
        if not tracked:
            continue
        res = stale.analyse(f, tracked, mk_kill(f), derive=True, fresh_call=lambda c: c.get('fn') in bor, own_call=own)
        if not res.kills:
            n_b += len(tracked)
            continue
        seen = set()
        # a still valid borrowed value handed to a function that makes an apply and uses the parameter afterwards
        for blk, n, ref, what, ks in res.uses:
            if n.get("k") == "Call" and n.get("fn") in late_params and not ks and blk.id in res.ins:
                for j, a in enumerate(n.get("args", [])):
                    if strip(a) is ref and j in late_params[n["fn"]] and holds_borrow(f, res, blk, n, ref, tracked, bor):
                        l2, w2, k2, strength = late_params[n["fn"]][j]
                        n_b += 1
                        run.saw(f)
                        run.ob(RULE, "lent:%s:%s:%s->%s" % (rel(f.file), f.name, ref.get("n"), n["fn"]), False if strength == "apply" else None,
                               ("" if strength == "apply" else "(only through the snooper's receive_snoop(): not decided) ") + "`%s` points into apply_ret_value when it is handed to %s() at line %s; %s() makes an apply of its own (%s() at line %s) and uses that parameter afterwards (%s at line %s)" % (
                                   ref.get("n"), n["fn"], n.get("l"), n["fn"], k2[3], k2[2], w2, l2), f.file, n.get("l"), f.name,
                               what="%s lends a value borrowed from apply_ret_value to %s(), which outlives it" % (f.name, n["fn"]))
        for blk, n, ref, what, ks in res.uses:
            key = (ref.get("id"), n.get("l"), what)
            if key in seen:
                continue
            seen.add(key)
            n_b += 1
            if not ks:
                continue
            # handing the stale pointer to free_*/a comparison with 0 is not a dereference; passing to a call is
            ks2 = sorted(ks, key=lambda s: (res.kills.get(s) != "apply", s[2] or 0))
            verdict = False if res.kills.get(ks2[0]) == "apply" else None
            # a callee that was itself found to kill only through the snoop path
            if verdict is False and ks2[0][3] in late_params and all(v[3] != "apply" for v in late_params[ks2[0][3]].values()) and not (cg.callees_of_call(f, {"fn": ks2[0][3]}) & killers_strong):
                verdict = None
            run.saw(f)
            run.ob(RULE, "borrowed:%s:%s:%s:%s" % (rel(f.file), f.name, ref.get("n"), what[:30]), verdict,
                   ("" if verdict is False else "(only through the snooper's receive_snoop(): not decided) ") + "`%s` (%s) at line %s still points into the result of an earlier apply, but %s() at line %s may have stored a new result in apply_ret_value and released the old one" % (
                       ref.get("n"), what, n.get("l"), ks2[0][3], ks2[0][2]),
                   f.file, n.get("l"), f.name, what="%s uses a value borrowed from apply_ret_value after another apply" % f.name)
        # one discharged obligation per function that holds borrowed values and is clean
        if not any(o["rule"] == RULE and o["func"] == f.name and o["ok"] is not True for o in run.obls):
            run.saw(f)
            run.ob(RULE, "borrowed:%s:%s" % (rel(f.file), f.name), True, "%d borrowed local(s) (%s): no use after a later apply" % (len(tracked), ", ".join(sorted(tracked.values()))[:60]), f.file, f.line, f.name)
    run.need(n_b >= 20, "uses of values borrowed from apply_ret_value (found %d)" % n_b)
