"""C01-r — count pass and fill pass walk the same thing.

Many efuns size their result in one loop and fill it in a second one.  The fill loop must not be able to run
further than the count loop did: every way out of the count loop exists in the fill loop under the same (or a
weaker) condition.  Decided for loop pairs that walk the same cursor (same start value) on both sides of an
allocation whose size comes from a counter of the first loop; a fill store that is itself behind a bound test
needs no agreement."""
import cfgq
import loops
from core import rel
from facts import strip, show, walk, const_val, normalize_cond

ALLOC_PREFIX = ("allocate_",)
ALLOC = {"new_string", "int_new_string", "xalloc", "DXALLOC", "DMALLOC", "malloc", "allocate_in_mem_block"}


def _stores(f, body):
    out = {}
    for b in body:
        for e in f.blocks[b].el:
            for x in walk(e):
                t = None
                if x.get("k") == "Asg":
                    t = strip(x["L"])
                elif x.get("k") == "Un" and x.get("op") in ("++", "--"):
                    t = strip(x["e"])
                if t is not None and t.get("k") == "Ref" and t.get("id") is not None:
                    out.setdefault(t["id"], []).append((b, x))
    return out


def _init_before(f, head, body, vid, after=None):
    """text of the last value stored into the variable on the way into the loop (in a block dominating the header, outside the body)"""
    best = None
    for b, i, n in f.nodes():
        if b.id in body or not f.dominates(b.id, head):
            continue
        if after is not None and (b.id in after[1] or not f.dominates(after[0], b.id) or b.id == after[0]):
            continue        # the walk is started again after the first loop
        if n.get("k") == "Asg" and n.get("op") == "=" and strip(n["L"]).get("id") == vid:
            if best is None or f.point_dominates(best[0], (b.id, i)):
                best = ((b.id, i), show(n["R"]))
        elif n.get("k") == "Decl":
            for v in n.get("vars", ()):
                if v.get("id") == vid and isinstance(v.get("init"), dict):
                    if best is None or f.point_dominates(best[0], (b.id, i)):
                        best = ((b.id, i), show(v["init"]))
    return best[1] if best else None


def _atoms(c, truth):
    c0, t0 = normalize_cond(c, truth)
    c0 = strip(c0)
    if isinstance(c0, dict) and c0.get("k") == "Bin" and c0.get("op") == "&&" and t0:
        return _atoms(c0["L"], True) | _atoms(c0["R"], True)
    if isinstance(c0, dict) and c0.get("k") == "Bin" and c0.get("op") == "||" and not t0:
        return _atoms(c0["L"], False) | _atoms(c0["R"], False)
    return frozenset([("" if t0 else "!") + "(" + show(c0) + ")"])


def _exit_conditions(f, head, body):
    out = []
    for b, s in loops.exits(f, body):
        if f.blocks[s].nr or any(x.get("k") == "Call" and (x.get("nr") or x.get("fn") == "fatal") for e in f.blocks[s].el for x in walk(e)):
            continue        # leaving through fatal()/error() is not a bound
        at = set()
        c = f.branch_cond(b)
        if c is not None and len(f.blocks[b].succ) >= 2 and f.blocks[b].succ[0] != f.blocks[b].succ[1]:
            at |= _atoms(c, f.blocks[b].succ[0] == s)
        out.append((b, frozenset(at)))
    return out


def _continue_paths(f, head, body, cap=200):
    """atom sets of the simple paths header -> ... -> header inside the loop; None when there are too many"""
    out = []
    count = [0]

    def dfs(b, atoms, seen):
        if count[0] > cap:
            return
        blk = f.blocks[b]
        succ = blk.live_succ()
        c = f.branch_cond(b)
        for s in succ:
            a2 = atoms
            if c is not None and len(blk.succ) >= 2 and blk.succ[0] != blk.succ[1]:
                a2 = atoms | _atoms(c, blk.succ[0] == s)
            if s == head:
                out.append(frozenset(a2))
                count[0] += 1
            elif s in body and s not in seen:
                dfs(s, a2, seen | {s})
    dfs(head, frozenset(), {head})
    return None if count[0] > cap else out


def _neg(a):
    return a[1:] if a.startswith("!") else "!" + a


def check(run, prog, tier):
    run.rule("C01-r", "count pass / fill pass: where one loop counts, an allocation is sized from that count and a second loop walking the same cursor from the same start fills the result, every way out of the count loop is also a way out of the fill loop under the same or a weaker condition (otherwise the fill loop goes on where the count stopped and stores past the allocation); a fill loop whose stores are all behind their own bound test needs no agreement; pairs whose filters differ in other ways are undecided", 6)
    n_inst = 0
    for f in sorted(prog.functions(), key=lambda x: (x.file, x.line)):
        if "/repo/" not in f.file and "/lib/" not in f.file and "/src/" not in f.file:
            continue
        if f.name == "yyparse":
            continue
        ls = loops.natural_loops(f)
        if len(ls) < 2:
            continue
        allocs = [(b, i, c) for b, i, c in f.calls() if (c.get("fn") or "") in ALLOC or (c.get("fn") or "").startswith(ALLOC_PREFIX)]
        if not allocs:
            continue
        done = set()
        for ai, (h1, b1) in enumerate(ls):
            for (h2, b2) in ls[ai + 1:]:
                if b1 & b2 or not f.dominates(h1, h2):
                    continue
                # the fill loop is not an inner loop of some third loop
                if any(h2 in b3 and h3 != h2 and h1 not in b3 for h3, b3 in ls) or any(h1 in b3 and h3 != h1 and h2 not in b3 for h3, b3 in ls):
                    continue
                mid = [(b, i, c) for b, i, c in allocs if b.id not in b1 and b.id not in b2 and f.dominates(h1, b.id) and f.dominates(b.id, h2)]
                if not mid:
                    continue
                s1, s2 = _stores(f, b1), _stores(f, b2)
                ctr = [v for v in s1 if any(any(y.get("k") == "Ref" and y.get("id") == v for a in c.get("args", []) for y in walk(a)) for b, i, c in mid)]
                if not ctr:
                    continue
                cursors = []
                for v in s1:
                    if v in s2 and v not in ctr:
                        i1, i2 = _init_before(f, h1, b1, v), _init_before(f, h2, b2, v, after=(h1, b1))
                        if i1 is not None and i1 == i2:
                            cursors.append(v)
                if not cursors:
                    continue
                # the fill loop stores through a subscript / ->item[]
                fills = [(b, x) for b in b2 for e in f.blocks[b].el for x in walk(e) if x.get("k") == "Asg" and any(y.get("k") == "Sub" for y in walk(x["L"]))]
                if not fills:
                    continue
                key = (h1, h2)
                if key in done:
                    continue
                done.add(key)
                n_inst += 1
                run.saw(f)
                name = {x.get("id"): x.get("n") for b, i, x in f.nodes() if x.get("k") == "Ref"}
                inst = "twin:%s:%s:%d" % (rel(f.file), f.name, len([k for k in done if True]) - 1)
                ctr_names = {name.get(v) for v in ctr}
                e2 = _exit_conditions(f, h2, b2)
                # the count survives into the fill loop: not stored there, or only counted down by the loop test itself
                import re
                intact = set()
                for v in ctr:
                    st2 = [x for b_, x in s2.get(v, [])]
                    if all(x.get("k") == "Un" and x.get("op") == "--" for x in st2):
                        intact.add(name.get(v))
                bounded = [at for b, at in e2 if any(any(cn and re.search(r"\b%s\b" % re.escape(cn), a) for cn in intact) or "->size" in a or ".size" in a for a in at)]
                if bounded:
                    run.ob("C01-r", inst, True, "the fill loop (line %s) is bounded by the count itself: it leaves on %s" % (f.line_of_block(h2), " / ".join(sorted(bounded[0]))[:100]), f.file, f.line_of_block(h2), f.name)
                    continue
                p1 = _continue_paths(f, h1, b1)
                p2 = _continue_paths(f, h2, b2)
                if p1 is None or p2 is None or not p1 or not p2:
                    run.ob("C01-r", inst, None, "loop pair at lines %s/%s has too many paths to compare" % (f.line_of_block(h1), f.line_of_block(h2)), f.file, f.line_of_block(h2), f.name)
                    continue
                vocab = {a.lstrip("!") for P in p1 for a in P}
                verdict, why = True, None
                for P2 in p2:
                    P2r = frozenset(a for a in P2 if a.lstrip("!") in vocab)
                    if any(P1 <= P2r for P1 in p1):
                        continue
                    if all(any(_neg(a) in P2r for a in P1) for P1 in p1):
                        verdict = False
                        why = "the fill loop (line %s) goes round again when %s; under these conditions the count loop (line %s) over the same `%s` has stopped or taken no step: the fill pass finds more than was counted and stores past the allocation" % (
                            f.line_of_block(h2), " and ".join(sorted(P2r))[:160], f.line_of_block(h1), name.get(cursors[0]))
                        break
                    if verdict is True:
                        verdict = None
                        why = "the fill loop (line %s) continues under %s, which the count loop (line %s) neither matches nor excludes" % (f.line_of_block(h2), " and ".join(sorted(P2r))[:120], f.line_of_block(h1))
                run.ob("C01-r", inst, verdict, why or "every way round the fill loop (line %s, %d paths) is a way round the count loop (line %s, %d paths) over `%s`" % (f.line_of_block(h2), len(p2), f.line_of_block(h1), len(p1), name.get(cursors[0])),
                       f.file, f.line_of_block(h2), f.name, what="%s: the fill pass can run further than the count pass that sized its result" % f.name)
    run.need(n_inst >= 6, "count/fill loop pairs (found %d)" % n_inst)
