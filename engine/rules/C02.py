"""C02 — compiling any source text is safe and leaves the compiler reusable (structural clauses).

C02-a  growth functions grow: every realloc of a compiler table uses a size that was increased (in the
       argument or in a dominating statement), or is an exact fit computed from the data stored next
C02-b  budgeted copy loops of the lexer: in a loop that spends one unit of a space budget per iteration,
       no iteration path stores more cursor bytes than it charges; cursor stores into yytext are guarded
C02-c  per-compile state is released on every exit of epilog (parser state, lexer, scratchpad, locals)
C02-d  error accounting: yyerror counts; load_object creates no object when errors were counted
C02-e  fatal() is reachable from compile_file only through the 'cannot happen' table; compile_file's
       re-entrancy flag (shared instance with C05-d)
C02-f  the locals table invariant: whoever drops a local's sem_value also removes it from the live range"""
import facts
import cfgq
import callgraph
from core import rel
from facts import strip, show, walk, const_val, normalize_cond, atom_of

COMPILER_UNITS = ("lib/lpc/compiler.c", "lib/lpc/compiler.h", "lib/lpc/lex.c", "lib/lpc/preprocess.c", "lib/misc/scratchpad.c", "lib/lpc/identifier.c",
                  "lib/lpc/program/icode.c", "lib/lpc/program/generate.c", "lib/lpc/program/parse_trees.c", "lib/lpc/grammar.c", "lib/lpc/grammar.y", "lib/lpc/program.c")
FATAL_TABLE = {
    "i_generate_node": "unknown parse-node kind: internal compiler inconsistency, not reachable from source text",
    "binary_int_op": "unknown opcode constant-folded: internal inconsistency",
    "add_predefines": "configuration-time predefines only",
    "add_quoted_predefine": "configuration-time predefines only",
    "init_instrs": "start-up table initialisation",
    "scratch_summary": "debug dump",
    "xalloc": "out of memory",
    "int_new_string": "out of memory",
    "int_alloc_cstring": "out of memory",
    "sfindblock": "string table corruption detected (internal)",
    "realloc_mem_block": "out of memory",
    "yyerror": None,
    "error_handler": "failed longjmp / no error context: internal",
    "dealloc_object": "reference count reached 0 on a live object: internal inconsistency",
}


def in_units(f):
    return any(f.file.endswith(u) for u in COMPILER_UNITS)


def iteration_weight(f, H, weight):
    """Max over acyclic paths of one iteration of loop head H of the sum of weight(block)."""
    body = {H}
    backs = [p for p in f.blocks[H].preds if p in f.reachable() and f.dominates(H, p)]
    st = list(backs)
    while st:
        x = st.pop()
        if x in body:
            continue
        body.add(x)
        st.extend(p for p in f.blocks[x].preds if p in f.reachable())
    memo = {}
    on = set()

    def dfs(b):
        if b in memo:
            return memo[b]
        if b in on:
            return 0
        on.add(b)
        best = 0
        for s in f.blocks[b].live_succ():
            if s == H or s not in body:
                continue
            best = max(best, dfs(s))
        on.discard(b)
        memo[b] = best + weight(b)
        return memo[b]
    return dfs(H), body



def _pdominates(f, a, b):
    """block a post-dominates block b"""
    pd = f.pdom()
    cur = b
    seen = set()
    while cur is not None and cur not in seen:
        if cur == a:
            return True
        seen.add(cur)
        nxt = pd.get(cur)
        if nxt == cur:
            break
        cur = nxt
    return False


def _conj_atoms(c, truth):
    """atoms that hold when condition c evaluates to `truth` (conjunctions on the true side, disjunctions on the false side)"""
    c0 = strip(c)
    if c0.get("k") == "Bin" and c0.get("op") == "&&" and truth:
        return _conj_atoms(c0["L"], True) + _conj_atoms(c0["R"], True)
    if c0.get("k") == "Bin" and c0.get("op") == "||" and not truth:
        return _conj_atoms(c0["L"], False) + _conj_atoms(c0["R"], False)
    if c0.get("k") == "Un" and c0.get("op") == "!":
        return _conj_atoms(c0["e"], not truth)
    if truth:
        return [c0]
    inv = {">": "<=", ">=": "<", "<": ">=", "<=": ">", "==": "!=", "!=": "=="}
    if c0.get("k") == "Bin" and c0.get("op") in inv:
        return [dict(c0, op=inv[c0["op"]])]
    return []

def check(run, prog, tier):
    run.rule("C02-a", "every realloc of a compiler table grows it: the size argument contains an increasing update, or its capacity variable was increased in a dominating statement, or it is an exact fit (strlen+1 of the text copied next)", 6)
    run.rule("C02-b", "lexer copy loops that spend one unit of a space budget per iteration charge every extra byte they store; SAVEC-style cursor stores into yytext are bounded by a comparison with yytext+MAXLINE", 10)
    run.rule("C02-c", "epilog releases the parser state, the lexer input, the scratchpad and the locals table on every return", 3)
    run.rule("C02-d", "yyerror increments num_parse_error (unless already above the report cap); load_object cannot reach object creation from the edge `num_parse_error > 0`", 2)
    run.rule("C02-e", "fatal() is reachable from compile_file only via the reviewed 'cannot happen' callers; the re-entrancy flag of compile_file is cleared on error paths", 2)
    run.rule("C02-f", "locals table: one sem_value count per entry - a function that decrements sem_value of entries also shrinks the live range (current_number_of_locals) in the same function; a store of a new entry is followed unconditionally by sem_value++ of the stored identifier; no function raises the count of entries it does not add; an entry popped by `--index` is guarded by index > 0", 5)

    funcs = [f for f in prog.functions() if in_units(f)]
    run.need(len(funcs) > 100, "compiler units")

    # ---- C02-a
    for f in sorted(funcs, key=lambda x: (x.file, x.line)):
        ordn = 0
        for b, i, n in f.nodes():
            if not (n.get("k") == "Call" and n.get("fn") in ("realloc", "xrealloc")):
                continue
            run.saw(f)
            inst = "grow:%s:%s:%d" % (rel(f.file), f.name, ordn)
            ordn += 1
            size = n["args"][1]
            ok, why = False, "size `%s` is not visibly larger than the old capacity" % show(size)[:60]
            # (1) increasing update inside the argument
            for x in walk(size):
                if x.get("k") == "Asg" and x.get("op") in ("+=", "<<=", "*=") and (const_val(x["R"]) is None or const_val(x["R"]) > 0):
                    ok, why = True, "size argument contains `%s`" % show(x)
            # (2) capacity variable(s) increased in a dominating statement
            if not ok:
                names = {show(x) for x in walk(size) if x.get("k") in ("Ref", "Mem") and not (x.get("k") == "Ref" and x.get("d") in ("func", "enum"))}
                for b2, i2, n2 in f.nodes(skip_cf=False):
                    if n2.get("k") == "Asg" and n2.get("op") in ("+=", "<<=", "*=") and show(strip(n2["L"])) in names and f.point_dominates((b2.id, i2), (b.id, i)):
                        ok, why = True, "`%s` dominates the reallocation" % show(n2)
                    if n2.get("k") == "Asg" and n2.get("op") == "=" and show(strip(n2["L"])) in names and f.point_dominates((b2.id, i2), (b.id, i)):
                        r = strip(n2["R"])
                        if r.get("k") == "Bin" and r.get("op") in ("+", "*", "<<") and show(strip(n2["L"])) in show(r):
                            ok, why = True, "`%s` dominates the reallocation" % show(n2)
                        # `cap = cap ? cap * 2 : 8`: grows when non-zero, starts at a positive constant otherwise
                        if r.get("k") == "Cond" and show(strip(n2["L"])) == show(strip(r.get("c") or {})):
                            a, b_ = strip(r["a"]), strip(r["b"])
                            grows = a.get("k") == "Bin" and a.get("op") in ("+", "*", "<<") and show(strip(n2["L"])) in show(a) and (const_val(a["R"]) or 0) >= (2 if a.get("op") == "*" else 1)
                            if grows and (const_val(b_) or 0) > 0:
                                ok, why = True, "`%s` dominates the reallocation" % show(n2)[:60]
            # (2b) the size is a local that was computed as <capacity> + <something> before the call
            if not ok:
                for x in walk(size):
                    if x.get("k") == "Ref" and x.get("d") == "local":
                        for b2, i2, n2 in f.nodes(skip_cf=False):
                            r = None
                            if n2.get("k") == "Decl":
                                for vv in n2.get("vars", []):
                                    if vv.get("id") == x.get("id") and "init" in vv:
                                        r = strip(vv["init"])
                            elif n2.get("k") == "Asg" and n2.get("op") == "=" and strip(n2["L"]).get("id") == x.get("id") and strip(n2["L"]).get("k") == "Ref":
                                r = strip(n2["R"])
                            if r is not None and r.get("k") == "Bin" and r.get("op") in ("+", "*", "<<") and f.point_dominates((b2.id, i2), (b.id, i)) and \
                                    any(y.get("k") in ("Ref", "Mem") and y.get("d") in ("global", "static", None) and y.get("k") != "Int" for y in walk(r["L"])) and (const_val(r["R"]) is None or const_val(r["R"]) > 0):
                                ok, why = True, "`%s = %s` dominates the reallocation" % (x.get("n"), show(r)[:50])
            # (3) exact fit
            if not ok:
                s = strip(size)
                if s.get("k") == "Bin" and s.get("op") == "+" and strip(s["L"]).get("fn") == "strlen" and const_val(s["R"]) == 1:
                    ok, why = True, "exact fit strlen(%s)+1" % show(strip(s["L"])["args"][0])
            # (4) size is the function's own parameter: the caller decides (scratch_realloc)
            if not ok:
                s = strip(size)
                if any(x.get("k") == "Ref" and x.get("d") == "param" for x in walk(s)) and not any(x.get("k") == "Mem" and any(y.get("k") == "Ref" and y.get("d") == "param" for y in walk(x)) for x in walk(s)):
                    ok, why = True, "size is a parameter of %s (allocator wrapper)" % f.name
            run.ob("C02-a", inst, ok, "%s — %s" % (show(n)[:60], why), f.file, n.get("l"), f.name, what="%s 'grows' a table without enlarging it: %s" % (f.name, why))

    # ---- C02-b
    yl = run.need(prog.func("yylex"), "yylex")
    for f in [x for x in funcs if x.file.endswith(("lex.c", "preprocess.c"))]:
        # loops whose condition decrements a local budget variable
        heads = [bid for bid in f.reachable() if any(p in f.reachable() and f.dominates(bid, p) for p in f.blocks[bid].preds)]
        for H in heads:
            c = f.branch_cond(H)
            if c is None:
                continue
            dec = None
            for x in walk(c):
                if x.get("k") == "Un" and x.get("op") == "--" and strip(x["e"]).get("d") == "local":
                    dec = strip(x["e"])
            if dec is None:
                continue

            def cursor_store(n):
                if n.get("k") != "Asg":
                    return False
                l = strip(n["L"])
                if l.get("k") == "Un" and l.get("op") == "*":
                    inner = strip(l["e"])
                    return inner.get("k") == "Un" and inner.get("op") == "++"
                return False

            def weight(bid):
                w = 0
                for e in f.blocks[bid].el:
                    for n in walk(e, True):
                        if cursor_store(n):
                            w += 1
                        if bid != H and n.get("k") == "Un" and n.get("op") == "--" and strip(n["e"]).get("id") == dec.get("id"):
                            w -= 1
                        if n.get("k") == "Un" and n.get("op") == "++" and strip(n["e"]).get("id") == dec.get("id") and not n.get("post", 0) is None:
                            pass
                return w
            total, body = iteration_weight(f, H, weight)
            nst = sum(1 for bid in body for e in f.blocks[bid].el for n in walk(e, True) if cursor_store(n))
            if nst == 0:
                continue
            run.saw(f)
            # `l++` (nothing copied) iterations only help; stores beyond the charge overflow the destination
            inst = "budget-loop:%s:%s:%s" % (f.name, dec.get("n"), sorted(body)[-1] - H if False else f.line_of_block(H))
            run.ob("C02-b", "budget-loop:%s:%s@%d" % (f.name, dec.get("n"), len([h for h in heads if h > H])), total <= 1,
                   "loop on budget `%s` (line %s): at most %d byte(s) stored per unit charged" % (dec.get("n"), f.line_of_block(H), total), f.file, f.line_of_block(H), f.name,
                   what="%s: a copy loop bounded by the space budget `%s` can store %d bytes in an iteration that charges one: the destination buffer overflows for inputs made of such iterations" % (f.name, dec.get("n"), total))
    # SAVEC-style stores: cursor into yytext guarded
    for f in [x for x in funcs if x.file.endswith(("lex.c", "preprocess.c"))]:
        ordn = 0
        for b, i, n in f.nodes():
            if n.get("k") == "Asg" and "SAVEC" in (n.get("m") or ()):
                l = strip(n["L"])
                if not (l.get("k") == "Un" and l.get("op") == "*"):
                    continue
                g = [atom_of(c, t) for c, t, B in cfgq.guards(f, b.id)]
                ok = any(op == "<" and "yytext" in show(r) and ("MAXLINE" in show(r) or const_val(strip(r).get("R")) is not None) for op, l2, r in g)
                run.ob("C02-b", "savec:%s:%d" % (f.name, ordn), ok, "%s under cursor < yytext + MAXLINE - k: %s" % (show(n), ok), f.file, n.get("l"), f.name, what="%s stores a token byte into yytext without the MAXLINE bound" % f.name)
                ordn += 1

    # ---- C02-c
    ep = run.need(prog.func("epilog"), "epilog")
    run.saw(ep)
    cp = run.need(prog.func("clean_parser"), "clean_parser")
    for step, fns in (("lexer", ("end_new_file",)), ("scratchpad", ("scratch_destroy", "clean_parser")), ("locals", ("clean_up_locals", "clean_parser"))):
        blocks = [b.id for b, i, n in ep.calls(fns)]
        p = ep.reach_avoiding([ep.entry], lambda blk: ep.exit in blk.live_succ() and not blk.nr, avoid_blocks=blocks) if blocks else [0]
        run.ob("C02-c", "release:" + step, p is None, "every return of epilog passes %s" % "/".join(fns) if p is None else "epilog can return without %s (path %s)" % ("/".join(fns), p[:8]), ep.file, ep.line, "epilog",
               what="epilog can return without releasing the %s: the next compile starts from stale state" % step)
    inner = {n.get("fn") for b, i, n in cp.calls()}
    run.ob("C02-c", "clean_parser", {"clean_up_locals", "scratch_destroy"} <= inner, "clean_parser calls %s" % sorted(inner & {"clean_up_locals", "scratch_destroy", "free_all_local_names"}), cp.file, cp.line, "clean_parser",
           what="clean_parser no longer resets locals/scratchpad")

    # ---- C02-d
    ye = run.need(prog.func("yyerror"), "yyerror")
    run.saw(ye)
    incs = [b.id for b, i, n in ye.nodes() if n.get("k") == "Un" and n.get("op") == "++" and strip(n["e"]).get("n") == "num_parse_error"]
    cap_edges = set()
    for bid in ye.reachable():
        c = ye.branch_cond(bid)
        if c is not None and atom_of(c, True)[0] == ">" and strip(atom_of(c, True)[1]).get("n") == "num_parse_error":
            cap_edges.add((bid, ye.blocks[bid].succ[0]))
    p = ye.reach_avoiding([ye.entry], lambda blk: ye.exit in blk.live_succ() and not blk.nr, avoid_blocks=incs, avoid_edges=cap_edges) if incs else [0]
    run.ob("C02-d", "yyerror-counts", p is None, "every path through yyerror increments num_parse_error (or it is already above the report cap)" if p is None else "yyerror can return without counting the error", ye.file, ye.line, "yyerror",
           what="a compile error can be reported without being counted: compilation 'succeeds' with a broken program")
    lo = run.need(prog.func("load_object"), "load_object")
    geo = [b.id for b, i, n in lo.calls("get_empty_object")]
    bad = None
    for bid in lo.reachable():
        c = lo.branch_cond(bid)
        if c is not None and atom_of(c, True)[0] == ">" and strip(atom_of(c, True)[1]).get("n") == "num_parse_error" and const_val(atom_of(c, True)[2]) == 0:
            s = lo.blocks[bid].succ[0]
            if s is not None and geo:
                p2 = lo.reach_avoiding([s], lambda blk: blk.id in geo)
                if p2 is not None:
                    bad = p2
            tested = True
    run.ob("C02-d", "no-object-on-errors", bad is None and bool(geo), "get_empty_object is unreachable from the edge `num_parse_error > 0`" if bad is None else "path %s creates an object although compile errors were counted" % bad[:8],
           lo.file, lo.line, "load_object", what="load_object creates an object from a program that had compile errors")

    # ---- C02-e
    cg = callgraph.CallGraph(prog)
    reach = cg.reachable_from(["compile_file"], barriers={"fatal", "apply_master_ob", "safe_apply_master_ob", "apply", "safe_apply", "load_object"})
    callers = sorted(x for x in reach if "fatal" in cg.edges.get(x, ()) and x != "fatal")
    unknown = [x for x in callers if x not in FATAL_TABLE]
    run.ob("C02-e", "fatal-reach", not unknown, "fatal() callers reachable from compile_file (not through LPC applies): %s — all reviewed" % callers if not unknown else "unreviewed fatal() caller(s) reachable from compile_file: %s" % unknown,
           None, None, None, what="source text can reach fatal() through %s: compilation can terminate the driver" % unknown)
    # guard flag: same instance as C05-d
    cf = run.need(prog.func("compile_file"), "compile_file")
    eff = callgraph.Effects(cg)
    eh = prog.func("error_handler")
    for b, i, n in cf.nodes():
        if n.get("k") == "Asg" and n.get("op") == "=" and strip(n["L"]).get("d") in ("slocal", "static") and const_val(n["R"]) not in (None, 0):
            gname = strip(n["L"])["n"]
            resets = [b2.id for b2, i2, n2 in cf.nodes() if n2.get("k") == "Asg" and strip(n2["L"]).get("n") == gname and const_val(n2["R"]) == 0]
            region = cfgq.reach_set(cf, [b.id], avoid_blocks=[r for r in resets if r != b.id])
            raising = sorted({n3.get("fn") for b3, i3, n3 in cf.nodes() if n3.get("k") == "Call" and b3.id in region and n3.get("fn") and eff.call_may_raise(cf, n3) and not n3.get("nr")})
            cleared = any(n4.get("k") == "Asg" and strip(n4["L"]).get("n") == gname and const_val(n4["R"]) == 0 for b4, i4, n4 in eh.nodes()) or any(True for _ in cf.calls("save_context"))
            run.ob("C02-e", "guard:%s:%s:%s" % (rel(cf.file), cf.name, gname), (not raising) or cleared, "static %s; raising calls before its reset: %s; cleared on the error path: %s" % (gname, raising, cleared), cf.file, n.get("l"), cf.name,
                   what="compile_file's re-entrancy flag '%s' stays set when %s raises: every later compile is refused" % (gname, raising[:3]))

    # ---- C02-f
    comp = prog.unit("lib/lpc/compiler.c")
    for f in sorted([x for x in comp.funcs.values() if x.file.endswith("compiler.c")], key=lambda x: x.line):
        decs = [(b, i, n) for b, i, n in f.nodes() if n.get("k") == "Un" and n.get("op") == "--" and strip(n["e"]).get("f") == "sem_value"
                and any(t in show(n) for t in ("locals_ptr[", "locals["))]
        if not decs:
            continue
        run.saw(f)
        shrink = any((n.get("k") == "Asg" and strip(n["L"]).get("n") == "current_number_of_locals" and const_val(n["R"]) == 0) or
                     (n.get("k") == "Un" and n.get("op") == "--" and strip(n["e"]).get("n") == "current_number_of_locals") for b, i, n in f.nodes())
        run.ob("C02-f", "sem-value:%s" % f.name, shrink, "%s drops sem_value of locals-table entries and %s the live range" % (f.name, "shrinks" if shrink else "DOES NOT shrink"), f.file, decs[0][2].get("l"), f.name,
               what="%s decrements sem_value of entries that stay in the live range of the locals table: the abort path (clean_up_locals) decrements them again and the identifier (possibly an efun name) becomes undefined for later compiles" % f.name)

    # C02-f, acquisition side: every entry of the locals table owns exactly one count
    def tbl(e):
        e = strip(e)
        return e.get("k") == "Sub" and strip(e["b"]).get("k") == "Ref" and strip(e["b"]).get("n") in ("locals_ptr", "locals")
    nent = 0
    for f in sorted([x for x in comp.funcs.values() if x.file.endswith("compiler.c")], key=lambda x: x.line):
        stores = [(b, i, n) for b, i, n in f.nodes() if n.get("k") == "Asg" and n.get("op") == "=" and tbl(n["L"])]
        incs = [(b, i, n) for b, i, n in f.nodes() if n.get("k") == "Un" and n.get("op") == "++" and strip(n["e"]).get("k") == "Mem" and strip(n["e"]).get("f") == "sem_value"]
        for b, i, n in stores:
            nent += 1
            run.saw(f)
            src = strip(n["R"])
            same = [(b2, i2, n2) for b2, i2, n2 in incs if show(strip(strip(n2["e"])["b"])) == show(src) or tbl(strip(n2["e"])["b"])]
            uncond = [x for x in same if x[0].id == b.id or (f.dominates(b.id, x[0].id) and x[0].id in f.pdom() and _pdominates(f, x[0].id, b.id))]
            ok = bool(uncond)
            run.ob("C02-f", "entry-count:%s" % f.name, ok,
                   "the entry stored at line %s gets its own sem_value count unconditionally" % n.get("l") if ok else
                   ("the entry stored at line %s is counted only under a condition (%s): a second entry of the same identifier (redeclared local, unnamed arguments) shares one count, and releasing both takes the identifier's own count away - an efun or simul_efun of that name becomes undefined for every later compile" % (n.get("l"), "sem_value++ at line %s" % same[0][2].get("l")) if same
                    else "the entry stored at line %s gets no sem_value count, but every release path takes one" % n.get("l")),
                   f.file, n.get("l"), f.name, what="%s: a locals-table entry without a count of its own" % f.name)
        for b, i, n in incs:
            if tbl(strip(n["e"])["b"]) and not stores:
                nent += 1
                run.saw(f)
                run.ob("C02-f", "count-without-entry:%s" % f.name, False, "%s raises sem_value of entries it does not add (line %s): the count is never taken back" % (f.name, n.get("l")), f.file, n.get("l"), f.name,
                       what="%s raises sem_value of existing locals-table entries: the identifier stays defined after its last entry is gone" % f.name)
        # an entry popped by index: the index stays inside this function's part of the table
        for b, i, n in f.nodes():
            if n.get("k") == "Sub" and strip(n["b"]).get("n") == "locals_ptr" and strip(n["i"]).get("k") == "Un" and strip(n["i"]).get("op") == "--" and not strip(n["i"]).get("post"):
                cnt = show(strip(strip(n["i"])["e"]))
                g_ok = False
                for c, truth, gb in cfgq.guards(f, b.id):
                    for a in _conj_atoms(c, truth):
                        e, t = normalize_cond(a, True) if isinstance(a, dict) else (a, True)
                        e = strip(e)
                        if e.get("k") == "Bin" and e.get("op") in (">", "!=", ">=") and show(strip(e["L"])) == cnt and (const_val(e["R"]) == 0 and e["op"] in (">", "!=") or const_val(e["R"]) == 1 and e["op"] == ">=") and t:
                            g_ok = True
                        if e.get("k") == "Ref" and show(e) == cnt and t:
                            g_ok = True
                nent += 1
                run.ob("C02-f", "pop-index:%s" % f.name, g_ok, "locals_ptr[--%s] runs only while %s > 0" % (cnt, cnt) if g_ok else
                       "locals_ptr[--%s] at line %s is not guarded by %s > 0: the caller's count includes declarations that add_local_name() refused, and the pop reads locals_ptr[-1]" % (cnt, n.get("l"), cnt),
                       f.file, n.get("l"), f.name, what="%s pops below its own part of the locals table" % f.name)
    run.need(nent >= 2, "locals-table entry stores / indexed pops (found %d)" % nent)

    # ---- C02-g lexer state across tokens/compilations
    import rules.C02g as c02g
    c02g.check(run, prog, tier, callgraph.CallGraph(prog))

    # ---- C02-h every kind of permanent identifier that a compilation can redefine is tracked for clean-up
    run.rule("C02-h", "identifier table: the mask tested before an identifier is put on the dirty list (whose entries free_unused_identifiers() resets after each compilation) covers every token bit with which permanent identifiers are created (the second argument of find_or_add_perm_ident at all call sites, and direct stores of IHE_* bits); free_unused_identifiers() resets or drains every static it writes on every path from its entry", 4)
    perm_bits = 0
    nsrc = 0
    for f in prog.functions():
        for b, i, n in f.calls("find_or_add_perm_ident"):
            if len(n.get("args", [])) >= 2 and const_val(n["args"][1]) is not None:
                perm_bits |= const_val(n["args"][1])
                nsrc += 1
        for b, i, n in f.nodes():
            if n.get("k") == "Asg" and n.get("op") in ("|=",) and strip(n["L"]).get("k") == "Mem" and strip(n["L"]).get("f") == "token" and strip(n["L"]).get("rec") in ("ident_hash_elem_s", "ident_hash_elem_t") and const_val(n["R"]) is not None:
                perm_bits |= const_val(n["R"])
                nsrc += 1
    run.need(nsrc >= 3 and perm_bits, "creation sites of permanent identifiers (found %d)" % nsrc)
    ident = prog.unit("lib/lpc/identifier.c")
    dirty_sites = []
    for f in ident.funcs.values():
        if not f.file.endswith("identifier.c") or f.name == "free_unused_identifiers":
            continue
        for b, i, n in f.nodes():
            if n.get("k") == "Asg" and n.get("op") == "=" and strip(n["L"]).get("k") == "Ref" and strip(n["L"]).get("n") == "ident_dirty_list":
                dirty_sites.append((f, b, i, n))
    run.need(dirty_sites, "insertions into ident_dirty_list")
    for j, (f, b, i, n) in enumerate(sorted(dirty_sites, key=lambda x: (x[0].name, x[3].get("l") or 0))):
        run.saw(f)
        masks = []
        for c, t, B in cfgq.guards(f, b.id):
            c0, t0 = normalize_cond(c, t)
            c0 = strip(c0)
            if c0.get("k") == "Bin" and c0.get("op") == "&":
                for x, y in ((strip(c0["L"]), c0["R"]), (strip(c0["R"]), c0["L"])):
                    if x.get("k") == "Mem" and x.get("f") == "token" and const_val(y) is not None:
                        masks.append((const_val(y), t0))
        # early-return style: `if (!(token & M)) return;` shows up as guard (token & M) true as well
        pos = [m for m, t0 in masks if t0]
        mask = 0
        for m in pos:
            mask |= m
        ok = bool(pos) and (perm_bits & ~mask) == 0
        run.ob("C02-h", "dirty-mask:%s:%d" % (f.name, j), ok, "dirty-list insertion at line %s is taken for token & 0x%x; permanent identifiers are created with bits 0x%x" % (n.get("l"), mask, perm_bits) if ok else
               "dirty-list insertion at line %s only for token & 0x%x, but permanent identifiers also carry 0x%x: redefining such a name (e.g. a simul efun) in one file leaves its function/global/class number set for every later compilation" % (n.get("l"), mask, perm_bits & ~mask),
               f.file, n.get("l"), f.name, what="%s does not track every kind of permanent identifier on the dirty list (missing bits 0x%x)" % (f.name, perm_bits & ~mask))

    import rules.C02i as c02i
    c02i.check(run, prog, tier)
    c02i.check_rebase(run, prog)

    # C02-h, second half: the clean-up runs on every path
    import rules.identreset as identreset
    identreset.check(run, prog, "C02-h", "redefinitions of efun/simul_efun names (function_num, global_num, class_num of permanent identifiers) leak into the next compilation, which then resolves the name to a slot of its own function table")

    # ---- C02-o bytes versus element index in the compiler's memory blocks
    import rules.unitsrule as unitsrule
    unitsrule.check(run, prog, "C02-o", lambda f, text: True, 20,
                    "the compiler reads or writes its block at the wrong place (out of bounds for large programs)")

    # ---- C02-p pointers into a memory block across calls that can grow it
    import rules.C02p as c02p
    c02p.check(run, prog, tier)

    # ---- C02-q state of the compiler proper across compilations
    import rules.C02q as c02q
    import callgraph as _cg
    c02q.check(run, prog, tier, _cg.CallGraph(prog))

    # ---- C02-r predefined macros are not changed by a compilation
    import rules.C02r as c02r
    c02r.check(run, prog, tier)
