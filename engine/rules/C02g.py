"""C02-g — the lexer carries no state from one compilation (or token) into the next.

"Compiling any other file gives the same program it would give in a fresh driver" needs every piece of
lexer state that a compilation modifies to be back at its start value when the next one begins.  For
each file-scope/static scalar or pointer of lib/lpc/lex.c and lib/lpc/preprocess.c that is written while
yylex runs, one of these must hold:

  reset      start_new_file()/end_new_file() assign it on every path (or drain it with `while (V) ..`),
             or compile_file() assigns it before yyparse()
  statistic  it is only ever updated (++, +=) and never read otherwise
  inductive  its writers are all in one function and constant propagation shows it holds its static
             initial value again at every return of that function (a per-token flag that is set and
             consumed inside one yylex() call)

Anything else survives into the next token/compilation and is read there: violation."""
import cfgq
from core import rel
from dataflow import solve
from facts import strip, show, walk, const_val, atom_of

UNITS = ("lib/lpc/lex.c", "lib/lpc/preprocess.c")
RESETTERS = ("start_new_file", "end_new_file")


def postdominates(f, a, b):
    pd = f.pdom()
    x = b
    seen = set()
    while x is not None and x not in seen:
        if x == a:
            return True
        seen.add(x)
        x = pd.get(x)
    return False


def written_var(n):
    if n.get("k") == "Asg":
        t = strip(n["L"])
    elif n.get("k") == "Un" and n.get("op") in ("++", "--"):
        t = strip(n["e"])
    else:
        return None
    if t.get("k") == "Ref" and t.get("d") in ("global", "static", "slocal"):
        return t
    return None


def unconditional_resets(f, upto=None):
    """variables assigned (=) in a block every execution of f passes (or, with `upto`, that dominates that point),
    plus variables drained by a `while (V)` loop that every execution passes."""
    out = {}
    for b, i, n in f.nodes():
        if n.get("k") == "Asg" and n.get("op") == "=":
            t = written_var(n)
            if t is None:
                continue
            if (upto is None and postdominates(f, b.id, f.entry)) or (upto is not None and f.point_dominates((b.id, i), upto)):
                out[t["n"]] = "%s() line %s" % (f.name, n.get("l"))
    if upto is None:
        for bid in f.reachable():
            blk = f.blocks[bid]
            c = f.branch_cond(bid)
            if c is None or not blk.term or blk.term.get("k") not in ("WhileStmt", "ForStmt"):
                continue
            c0 = strip(c)
            if c0.get("k") == "Ref" and c0.get("d") in ("global", "static") and postdominates(f, bid, f.entry):
                out[c0["n"]] = "%s() drains it: `while (%s)` line %s" % (f.name, c0["n"], blk.term.get("l"))
    return out


def const_at_returns(f, name, init):
    """possible values of static `name` at each return of f, entry value = 'E' (inductively the initial value)."""
    def transfer(blk, st):
        for e in blk.el:
            for n in walk(e, True):
                t = written_var(n)
                if t is not None and t["n"] == name:
                    if n.get("k") == "Asg" and n.get("op") == "=" and const_val(n["R"]) is not None:
                        st = frozenset([const_val(n["R"])])
                    else:
                        st = frozenset(["T"])
        return st

    def edge(blk, idx, s, st):
        c = f.branch_cond(blk)
        if c is None or idx > 1:
            return st
        op, l, r = atom_of(c, idx == 0)
        l0 = strip(l)
        if l0.get("k") == "Ref" and l0.get("n") == name:
            if op == "false" or (op == "==" and const_val(r) == 0):
                return frozenset([0]) if any(x in (0, "E", "T") for x in st) else None
            if op == "true" or (op == "!=" and const_val(r) == 0):
                return frozenset(x for x in st if x != 0) or None
        return st
    ins = solve(f, frozenset(["E"]), transfer, edge, lambda a, b: a | b)
    vals = {}
    for bid in f.reachable():
        if bid not in ins:
            continue
        blk = f.blocks[bid]
        st = ins[bid]
        for e in blk.el:
            for n in walk(e, True):
                t = written_var(n)
                if t is not None and t["n"] == name:
                    st = frozenset([const_val(n["R"])]) if (n.get("k") == "Asg" and n.get("op") == "=" and const_val(n["R"]) is not None) else frozenset(["T"])
                if n.get("k") == "Return":
                    vals[n.get("l")] = st
        if f.exit in [s for s in blk.succ if s is not None] and not any(n.get("k") == "Return" for e in blk.el for n in walk(e, True)):
            vals["end:%d" % bid] = st
    return vals


def check(run, prog, tier, cg):
    run.rule("C02-g", "every lexer static written while yylex runs is reset by start_new_file/end_new_file/compile_file, is a pure statistic, or provably holds its initial value again at every return of the one function that writes it", 15)
    glob = prog.globals()
    reach = cg.reachable_from(["yylex"])
    written, read, plain_write = {}, {}, {}
    for fn in sorted(reach):
        for f in cg.funcs.get(fn, []):
            if not f.file.endswith(UNITS):
                continue
            pure = set()
            for b, i, n in f.nodes():
                t = written_var(n)
                if t is None:
                    continue
                written.setdefault(t["n"], set()).add(f.name)
                pure.add(id(t))
                if n.get("k") == "Asg" and n.get("op") == "=":
                    plain_write.setdefault(t["n"], set()).add(f.name)
            for b, i, e in f.elements():
                top = strip(e)
                for n in walk(e):
                    if n.get("k") == "Ref" and n.get("d") in ("global", "static", "slocal") and id(n) not in pure:
                        read.setdefault(n["n"], set()).add(f.name)
                    # `if (++v == K)`: the updated value is consumed by the enclosing expression
                    if n is not top and n.get("k") in ("Un", "Asg") and written_var(n) is not None and not (n.get("k") == "Un" and n.get("op") not in ("++", "--")):
                        read.setdefault(written_var(n)["n"], set()).add(f.name)
    resets = {}
    for nm in RESETTERS:
        f = run.need(prog.func(nm), nm)
        run.saw(f)
        for v, w in unconditional_resets(f).items():
            resets.setdefault(v, w)
    cf = run.need(prog.func("compile_file"), "compile_file")
    yp = [(b, i, n) for b, i, n in cf.calls("yyparse")]
    run.need(yp, "yyparse call in compile_file")
    for v, w in unconditional_resets(cf, (yp[0][0].id, yp[0][1])).items():
        resets.setdefault(v, w + " (before yyparse)")
    # functions compile_file calls on every path before yyparse (prolog ...), and what those call unconditionally
    def before_parse(f, upto, depth):
        for b, i, c in f.calls():
            if (upto is not None and not f.point_dominates((b.id, i), upto)) or (upto is None and not postdominates(f, b.id, f.entry)):
                continue
            if upto is not None and (b.id, i) == upto:
                continue
            for gname in sorted(cg.callees_of_call(f, c)):
                for g in cg.funcs.get(gname, []):
                    if gname in seen_fn or g.name in RESETTERS:
                        continue
                    seen_fn.add(gname)
                    for v, w in unconditional_resets(g).items():
                        resets.setdefault(v, w + " (called by compile_file before yyparse)")
                    if depth < 3:
                        before_parse(g, None, depth + 1)
    seen_fn = set()
    before_parse(cf, (yp[0][0].id, yp[0][1]), 0)
    run.need(len(resets) >= 12, "per-compilation resets in start_new_file/end_new_file/compile_file (found %d)" % len(resets))
    n = 0
    for v in sorted(written):
        g = glob.get(v)
        if g is None or not (g.get("file") or "").endswith(UNITS):
            continue
        t = g.get("t") or ""
        if "[" in t:
            continue   # buffers: contents are covered by the cursors that index them
        n += 1
        inst = "lexstate:%s" % v
        where = rel(g.get("file") or "")
        if v in resets:
            run.ob("C02-g", inst, True, "%s is re-initialised for every compilation: %s" % (v, resets[v]), g.get("file"), g.get("l"), None)
            continue
        if v not in read and v not in plain_write:
            run.ob("C02-g", inst, True, "%s is only ever incremented/accumulated while lexing and never read there (a statistic)" % v, g.get("file"), g.get("l"), None)
            continue
        ws = sorted(written[v])
        init = g.get("init")
        if len(ws) == 1 and read.get(v, set()) <= {ws[0]}:
            f = prog.func(ws[0])
            # (d) assigned at the start of its only user, before anything reads it
            first = [(b, i, n) for b, i, n in f.nodes() if n.get("k") == "Asg" and n.get("op") == "=" and written_var(n) is not None and written_var(n)["n"] == v and const_val(n["R"]) is not None and postdominates(f, b.id, f.entry) and f.dominates(b.id, b.id)]
            first = [x for x in first if all(f.point_dominates((x[0].id, x[1]), (b2.id, i2)) for b2, i2, e2 in f.elements() for n2 in walk(e2) if n2.get("k") == "Ref" and n2.get("n") == v and n2.get("d") in ("global", "static", "slocal") and (b2.id, i2) != (x[0].id, x[1]))]
            if first:
                run.ob("C02-g", inst, True, "%s is used only by %s(), which assigns it (line %s) before any other access on every call" % (v, ws[0], first[0][2].get("l")), g.get("file"), g.get("l"), ws[0])
                continue
        if len(ws) == 1:
            f = prog.func(ws[0])
            vals = const_at_returns(f, v, init)
            leak = {k: sorted(map(str, s)) for k, s in vals.items() if not (s <= frozenset([0, "E"]))}
            if not leak:
                run.ob("C02-g", inst, True, "%s is written only in %s() and is 0 again at each of its %d exits (set and consumed within one call)" % (v, ws[0], len(vals)), g.get("file"), g.get("l"), ws[0])
                continue
            k = sorted(leak, key=str)[0]
            run.ob("C02-g", inst, False, "%s is written only in %s() but can still be %s when it returns (line %s; %d such exits) and no per-compilation reset exists; it is read by %s" % (v, ws[0], "/".join(leak[k]), k, len(leak), sorted(read.get(v, []))[:3]),
                   g.get("file"), g.get("l"), ws[0], what="lexer state `%s` survives the token/compilation that set it: the next token or file is lexed differently than in a fresh driver" % v)
            continue
        run.ob("C02-g", inst, False, "%s is written by %s while lexing, read by %s, and neither start_new_file nor end_new_file nor compile_file resets it on every path" % (v, ws[:4], sorted(read.get(v, []))[:3]),
               g.get("file"), g.get("l"), None, what="lexer state `%s` is carried from one compilation into the next" % v)
    run.extra["lexer_state_variables"] = n
