"""C02-i..l — clauses generalised from defects found by auditing the lexer/preprocessor.

C02-i  an index that grows inside a loop driven by the source text and is used to store into an array is
       compared with a bound on every iteration before the store
C02-j  a size test that only *reports* (lexerror/yyerror return) must not fall through into the very copy it
       was written to protect
C02-k  no branch condition is an assignment of non-null pointer arithmetic (`if ((outptr = last_nl + 1))`):
       such a test is constantly true and moves the cursor where a comparison was meant
C02-l  #if arithmetic and constant folding never divide a signed integer by a source-chosen value without
       excluding -1 (MIN / -1 traps)"""
import cfgq
import divrule
from core import rel
from facts import strip, show, walk, const_val, atom_of
from stale import implied_atoms

UNITS = ("lib/lpc/lex.c", "lib/lpc/preprocess.c", "lib/lpc/compiler.c", "lib/lpc/grammar.c", "lib/lpc/program/icode.c",
         "lib/lpc/program/generate.c", "lib/lpc/program/parse_trees.c", "lib/lpc/program/scratchpad.c", "lib/lpc/identifier.c")
REPORTERS = ("lexerror", "yyerror", "yyerrorp", "yywarn", "yywarnp")
COPIERS = {"strcpy": 0, "strcat": 0, "memcpy": 0, "memmove": 0, "strncpy": 0, "sprintf": 0, "stpcpy": 0}


def in_units(f):
    return any(f.file.endswith(u) for u in UNITS) or f.file.endswith(("grammar.y", "grammar.c"))


def cyclic_blocks(f):
    cache = f.__dict__.setdefault("_cyclic", None)
    if cache is not None:
        return cache
    out = set()
    for b in f.reachable():
        if b in cfgq.reach_set(f, f.blocks[b].live_succ()):
            out.add(b)
    f.__dict__["_cyclic"] = out
    return out


def refs(e):
    return {(x.get("d"), x.get("n"), x.get("id")) for x in walk(e) if x.get("k") == "Ref" and x.get("d") in ("local", "param", "global", "static")}


def check(run, prog, tier):
    run.rule("C02-i", "lexer/preprocessor: a local index that is incremented as part of a store `A[i++] = x` / `A[++i] = x` inside a loop is compared with a bound (relational or equality test mentioning the index, or a test of the cursor it is derived from) on every way into that store", 8)
    run.rule("C02-j", "lexer/preprocessor: when a size test only reports the overflow (lexerror/yyerror return to the caller), control does not continue from the report into a copy through the pointer the test was about", 2)
    run.rule("C02-k", "compiler units: no branch condition is an assignment whose right-hand side is pointer arithmetic (never null, so the test is constantly true and the assignment is a mistyped comparison)", 3)
    run.rule("C02-l", "compile-time arithmetic (#if expressions, constant folding): signed `/` and `%` by a value taken from the source text are reached only with the divisor known not to be -1", 2)

    funcs = [f for f in sorted(prog.functions(), key=lambda x: (x.file, x.line)) if in_units(f)]
    run.need(len(funcs) > 50, "compiler-unit functions (found %d)" % len(funcs))

    # ---- C02-i
    ni = 0
    for f in funcs:
        cyc = None
        for b, i, n in f.nodes():
            if n.get("k") != "Asg" or n.get("op") != "=":
                continue
            l = strip(n["L"])
            if l.get("k") != "Sub":
                continue
            ix = strip(l.get("i") if "i" in l else l.get("x") or {})
            if not (ix.get("k") == "Un" and ix.get("op") in ("++",) and strip(ix["e"]).get("k") == "Ref" and strip(ix["e"]).get("d") == "local"):
                continue
            if cyc is None:
                cyc = cyclic_blocks(f)
            if b.id not in cyc:
                continue
            v = strip(ix["e"])
            ni += 1
            run.saw(f)
            tested = None
            # a comparison mentioning the index, in the same loop, that every way into the store passes (either
            # a one-sided guard, or the `if (i == MAX) { flush; i = 0; }` form whose both arms continue to the store)
            for B in sorted(cyc):
                if B == b.id or not f.dominates(B, b.id) or B not in cfgq.reach_set(f, b.live_succ()):
                    continue
                c = f.branch_cond(B)
                if c is None:
                    continue
                for a, tr in list(implied_atoms(c, True)) + list(implied_atoms(c, False)):
                    op, x, y = atom_of(a, tr)
                    if op in ("<", "<=", ">", ">=", "==", "!=") and any(r[2] == v.get("id") for r in refs(a)):
                        tested = (show(strip(a))[:50], strip(a).get("l"))
            # when the array has a declared extent and the tests give a constant upper bound, the largest index
            # the tests admit must be inside the array (`for (n = 0; n < K;) a[++n] = ..` admits a[K])
            ext = l.get("ext")
            ub, neq = None, set()
            for c, truth, B in cfgq.guards(f, b.id):
                for a, tr in implied_atoms(c, truth):
                    op, x, y = atom_of(a, tr)
                    if y is None or const_val(y) is None or strip(x).get("id") != v.get("id") or strip(x).get("k") != "Ref":
                        continue
                    k = const_val(y)
                    if op == "<":
                        ub = k - 1 if ub is None else min(ub, k - 1)
                    elif op == "<=":
                        ub = k if ub is None else min(ub, k)
                    elif op == "!=":
                        neq.add(k)
            while ub is not None and ub in neq:
                ub -= 1
            if tested and ext and ub is not None:
                top = ub + (0 if ix.get("post") else 1)
                if top > ext - 1:
                    run.ob("C02-i", "index:%s:%s:%s@%s" % (rel(f.file), f.name, v.get("n"), show(strip(l.get("b") or {}))[:24]), False,
                           "`%s` at line %s: the tests in the loop admit %s <= %d, so the store can land on element %d of an array of %d" % (show(l)[:40], n.get("l"), v.get("n"), ub, top, ext),
                           f.file, n.get("l"), f.name, what="%s can store one element past the end of %s" % (f.name, show(strip(l.get("b") or {}))[:24]))
                    continue
            # also accepted: the store's own statement tests the bound (`if (++n == K) break; a[n] = ..` has no ++ in the subscript)
            run.ob("C02-i", "index:%s:%s:%s@%s" % (rel(f.file), f.name, v.get("n"), show(strip(l.get("b") or {}))[:24]), bool(tested),
                   "`%s` is tested (`%s`, line %s) inside the loop before `%s`" % (v.get("n"), tested[0], tested[1], show(l)[:40]) if tested else
                   "`%s` at line %s stores through an index that grows on every iteration, and no test of `%s` inside the loop dominates the store: long enough input writes past the array" % (show(l)[:40], n.get("l"), v.get("n")),
                   f.file, n.get("l"), f.name, what="%s fills %s with an unchecked growing index" % (f.name, show(strip(l.get("b") or {}))[:24]))
    run.need(ni >= 3, "growing-index stores in loops (found %d)" % ni)

    # ---- C02-j
    nj = 0
    for f in funcs:
        for b, i, n in f.calls():
            if n.get("fn") not in REPORTERS:
                continue
            # the size test this report belongs to: nearest dominating relational comparison against a constant bound
            atoms = []
            for c, truth, B in cfgq.guards(f, b.id):
                for a, tr in implied_atoms(c, truth):
                    op, x, y = atom_of(a, tr)
                    if op in ("<", "<=", ">", ">=") and y is not None and const_val(y) is not None and const_val(y) >= 16:
                        atoms.append((a, tr, B))
            if not atoms:
                continue
            a, tr, B = atoms[0]   # guards() lists the nearest dominator first
            vs = {r for r in refs(a) if r[0] in ("local", "param")}
            ptrs = {r[2] for r in vs}
            if not ptrs:
                continue
            # copies through one of these variables reachable from the report without re-entering the test
            after = cfgq.reach_set(f, b.live_succ(), avoid_blocks=[B])
            # what the report branch itself assigns is taken as a repair (truncation) of that variable
            repaired = set()
            for e in b.el:
                for m in walk(e, True):
                    if m.get("k") == "Asg" and strip(m["L"]).get("k") == "Ref":
                        repaired.add(strip(m["L"]).get("id"))
            hits = []
            for x in sorted(after):
                for e in f.blocks[x].el:
                    for m in walk(e, True):
                        dest = None
                        if m.get("k") == "Call" and m.get("fn") in COPIERS and m.get("args"):
                            dest = m["args"][COPIERS[m["fn"]]]
                        if dest is not None and f.dominates(B, x) and any(r[2] in ptrs and r[2] not in repaired for r in refs(dest)):
                            hits.append((m.get("fn"), show(strip(dest))[:30], m.get("l")))
            nj += 1
            run.saw(f)
            run.ob("C02-j", "report:%s:%s:%s" % (rel(f.file), f.name, show(strip(a))[:50]), not hits,
                   "after the report of `%s` no copy through %s is reachable without a new test" % (show(strip(a))[:50], sorted(r[1] for r in vs)) if not hits else
                   "`%s` only reports at line %s (the reporter returns) and control goes on to %s(%s, ..) at line %s: the copy the test was written for still runs with the oversized length" % (show(strip(a))[:60], n.get("l"), hits[0][0], hits[0][1], hits[0][2]),
                   f.file, n.get("l"), f.name, what="%s reports an oversized item and then copies it anyway" % f.name)
    run.need(nj >= 2, "size tests that report through lexerror/yyerror (found %d)" % nj)

    # ---- C02-k
    nk = 0
    for f in funcs:
        for bid in sorted(f.reachable()):
            c = f.branch_cond(bid)
            if c is None:
                continue
            for a, tr in implied_atoms(c, True):
                a0 = strip(a)
                if a0.get("k") != "Asg" or a0.get("op") != "=":
                    continue
                nk += 1
                r = strip(a0["R"])
                arith = r.get("k") == "Bin" and r.get("op") in ("+", "-") and (r.get("t") or "").endswith("*")
                if arith:
                    run.saw(f)
                run.ob("C02-k", "cond-assign:%s:%s:%d" % (rel(f.file), f.name, nk), not arith,
                       "condition `%s` assigns a value that can be null/zero" % show(a0)[:50] if not arith else
                       "condition `%s` at line %s assigns pointer arithmetic, which is never null: the branch is always taken and `%s` is moved where a comparison was meant" % (show(a0)[:60], a0.get("l"), show(strip(a0["L"]))[:20]),
                       f.file, a0.get("l"), f.name, what="%s tests an assignment of pointer arithmetic (constantly true)" % f.name)
    run.need(nk >= 5, "assignments used as conditions (found %d)" % nk)

    # ---- C02-l
    divrule.check(run, prog, "C02-l", lambda p: any(p.endswith(u) for u in UNITS) or p.endswith(("grammar.y", "grammar.c")), evaluators=("cond_get_exp",), minimum=2)


def check_rebase(run, prog):
    """C02-n: frame pointers into tables that are reallocated are rebased with an offset taken from a pointer of the
    same index space.  Index spaces are read off the code: two global pointers that are advanced by the same
    expression in the same function (`locals_ptr += current_number_of_locals; runtime_locals_ptr +=
    current_number_of_locals`) index their tables alike; a pointer advanced by a different expression
    (`type_of_locals_ptr += max_num_locals`) does not."""
    run.rule("C02-n", "compiler tables: after a reallocation a frame pointer is rebased (`P = base + off`) with an offset that was measured on a pointer of the same index space (pointers advanced by the same expression in lock step), not on one that moves by a different amount per nested frame", 2)
    funcs = [f for f in sorted(prog.functions(), key=lambda x: (x.file, x.line)) if in_units(f)]
    # lock-step classes
    adv = {}
    for f in funcs:
        for b, i, n in f.nodes():
            if n.get("k") == "Asg" and n.get("op") in ("+=", "-=") and strip(n["L"]).get("k") == "Ref" and strip(n["L"]).get("d") in ("global", "static") and (strip(n["L"]).get("t") or "").endswith("*"):
                adv.setdefault((f.name, show(strip(n["R"]))), set()).add(strip(n["L"]).get("n"))
    cls = {}
    for (fn, e), names in adv.items():
        for nm in names:
            cls.setdefault(nm, set()).add(e)
    nreb = 0
    for f in funcs:
        for b, i, n in f.nodes():
            if not (n.get("k") == "Asg" and n.get("op") == "=" and strip(n["L"]).get("k") == "Ref" and strip(n["L"]).get("d") in ("global", "static")):
                continue
            P = strip(n["L"]).get("n")
            r = strip(n["R"])
            if P not in cls or not (r.get("k") == "Bin" and r.get("op") == "+" and strip(r["R"]).get("k") == "Ref" and strip(r["R"]).get("d") == "local"):
                continue
            off = strip(r["R"])
            # where the offset was measured: off = Q - C (assignment or initialiser), the last one that dominates
            qs = []
            for b2, i2, n2 in f.nodes():
                e = None
                if n2.get("k") == "Asg" and n2.get("op") == "=" and strip(n2["L"]).get("id") == off.get("id") and strip(n2["L"]).get("k") == "Ref":
                    e = strip(n2["R"])
                elif n2.get("k") == "Decl":
                    for vv in n2.get("vars", []):
                        if vv.get("id") == off.get("id") and "init" in vv:
                            e = strip(vv["init"])
                if e is not None and e.get("k") == "Bin" and e.get("op") == "-" and f.point_dominates((b2.id, i2), (b.id, i)):
                    q = [x.get("n") for x in walk(e["L"]) if x.get("k") == "Ref" and x.get("d") in ("global", "static")]
                    if q:
                        qs.append((n2.get("l") or 0, b2.id, i2, q[0]))
            if not qs:
                continue
            # the dominating definition closest to the use
            qs.sort()
            Q = qs[-1][3]
            for cand in reversed(qs):
                if all(f.point_dominates((c[1], c[2]), (cand[1], cand[2])) or c is cand for c in qs):
                    Q = cand[3]
                    break
            nreb += 1
            run.saw(f)
            same = Q == P or (Q in cls and cls[Q] & cls[P])
            run.ob("C02-n", "rebase:%s:%s:%s" % (rel(f.file), f.name, P), bool(same),
                   "%s is rebased with the offset of %s, which advances in lock step with it (%s)" % (P, Q, sorted(cls[P])[0]) if same else
                   "%s is rebased with an offset measured on %s, but %s moves by `%s` per nested frame and %s by `%s`: after a reallocation inside a nested function the frame pointer is off by the difference" % (
                       P, Q, P, sorted(cls[P])[0], Q, sorted(cls.get(Q, {"?"}))[0]), f.file, n.get("l"), f.name,
                   what="%s rebases %s with the offset of a pointer from another index space (%s)" % (f.name, P, Q))
    run.need(nreb >= 2, "rebased frame pointers (found %d)" % nreb)
