"""C02-p — pointers into a compiler memory block do not survive a call that can grow that block.

mem_block[K].block is realloc()ed by add_to_mem_block / allocate_in_mem_block / insert_in_mem_block when the block
is full, so a local that holds an address inside the block (FUNCTION_TEMP(n), FUNCTION_RENTRY(n), &FUNCTION_FLAGS(n),
a cast of .block) is stale after any call that may grow block K.  Typestate (engine/stale.py) per block K: tracked =
pointer locals assigned from an expression over mem_block[K].block, kill = calls whose transitive closure reaches a
growth primitive for K (or for a block chosen at run time)."""
import stale
import callgraph
from core import rel
from facts import strip, show, walk, const_val

PRIMS = {"add_to_mem_block": 0, "allocate_in_mem_block": 0, "insert_in_mem_block": 0}


def _block_of(e, depth=0):
    """K if the VALUE of the expression is an address inside mem_block[K].block (pointer arithmetic on .block, the
    address of an element or of a member of an element); None when it is something loaded from the block."""
    e = strip(e)
    if not isinstance(e, dict) or depth > 12:
        return None
    k = e.get("k")
    if k == "Mem" and e.get("f") == "block":
        b = strip(e["b"])
        if b.get("k") == "Sub" and strip(b["b"]).get("n") == "mem_block":
            c = const_val(b["i"])
            return c if c is not None else "any"
        return None
    if k == "Bin" and e.get("op") in ("+", "-"):
        return _block_of(e["L"], depth + 1) if _block_of(e["L"], depth + 1) is not None else (_block_of(e["R"], depth + 1) if e.get("op") == "+" else None)
    if k == "Un" and e.get("op") == "&":
        x = strip(e["e"])
        if x.get("k") == "Sub":
            return _block_of(x["b"], depth + 1)
        if x.get("k") == "Un" and x.get("op") == "*":
            return _block_of(x["e"], depth + 1)
        if x.get("k") == "Mem":
            return _block_of(x["b"], depth + 1) if x.get("a") else _block_of({"k": "Un", "op": "&", "e": x["b"]}, depth + 1)
        return None
    if k == "Cond":
        a = _block_of(e.get("a"), depth + 1)
        return a if a is not None else _block_of(e.get("b"), depth + 1)
    return None


# calls behind these never grow a block of the compilation in progress: LPC code and error handling cannot re-enter
# the compiler (compile_file refuses a nested compilation), and fatal() does not return
BARRIERS = {"apply_low", "apply", "safe_apply", "apply_master_ob", "safe_apply_master_ob", "call_function_pointer", "safe_call_function_pointer",
            "eval_instruction", "call_program", "error", "error_handler", "throw_error", "fatal", "load_object", "compile_file", "debug_message", "debug_message_with_src"}


def check(run, prog, tier):
    run.rule("C02-p", "compiler units: a pointer local that holds an address inside mem_block[K].block (taken through FUNCTION_TEMP/FUNCTION_RENTRY/... or a cast of .block) is not dereferenced after a call that may grow block K (add_to_mem_block / allocate_in_mem_block / insert_in_mem_block for K, directly or through callees) unless it is assigned again first: the block moves when it is full, and the write goes to freed memory while the real table keeps the old value", 10)
    cg = callgraph.CallGraph(prog)
    funcs = [f for f in prog.functions() if "/lib/lpc/" in f.file]
    # growth summaries: function name -> set of K / 'any'
    grows = {}
    for f in prog.functions():
        s = set()
        for b, i, n in f.calls():
            if n.get("fn") in PRIMS and n.get("args"):
                k = const_val(n["args"][PRIMS[n["fn"]]])
                s.add(k if k is not None else "any")
        if s:
            grows[f.name] = s
    changed = True
    while changed:
        changed = False
        for a, bs in cg.edges.items():
            if a in BARRIERS:
                continue
            cur = grows.get(a, set())
            new = set(cur)
            for b in bs:
                if b in PRIMS:
                    continue
                new |= grows.get(b, set())
            if new != cur:
                grows[a] = new
                changed = True
    for p in PRIMS:
        grows.pop(p, None)
    n_inst = 0
    for f in sorted(funcs, key=lambda x: (x.file, x.line)):
        # pointer locals tied to a block
        tied = {}
        for b, i, n in f.nodes():
            pairs = []
            if n.get("k") == "Asg" and n.get("op") == "=" and strip(n["L"]).get("k") == "Ref" and strip(n["L"]).get("id") is not None and "*" in (strip(n["L"]).get("t") or ""):
                pairs.append((strip(n["L"]).get("id"), strip(n["L"]).get("n"), n["R"]))
            elif n.get("k") == "Decl":
                for v in n.get("vars", ()):
                    if isinstance(v.get("init"), dict) and "*" in (v.get("t") or "") and v.get("id") is not None:
                        pairs.append((v["id"], v.get("n"), v["init"]))
            for vid, name, rhs in pairs:
                k = _block_of(rhs)
                if k is not None and k != "any":
                    tied.setdefault(k, {})[vid] = name
        for K, tv in sorted(tied.items(), key=lambda x: str(x[0])):
            def kill(c, st, K=K, f=f):
                fn = c.get("fn")
                if fn in PRIMS and c.get("args"):
                    k = const_val(c["args"][PRIMS[fn]])
                    return "grows the block" if (k is None or k == K) else None
                hit = set()
                for g in cg.callees_of_call(f, c):
                    gs = grows.get(g, set())
                    if K in gs or "any" in gs:
                        hit.add(g)
                return ("may grow the block through %s" % sorted(hit)[0]) if hit else None
            res = stale.analyse(f, tv, kill, subscript_is_use=True)
            # variables assigned from another block's address elsewhere are still covered: every assignment refreshes
            by_var = {}
            for blk, n, ref, what, sites in res.uses:
                by_var.setdefault(ref.get("id"), []).append((n, what, sites))
            for vid, name in sorted(tv.items(), key=lambda x: x[1] or ""):
                uses = by_var.get(vid, [])
                if not uses:
                    continue
                n_inst += 1
                run.saw(f)
                bad = [(n, what, sites) for n, what, sites in uses if sites]
                inst = "blockptr:%s:%s:%s" % (rel(f.file), f.name, name)
                if bad:
                    n, what, sites = bad[0]
                    site = sorted(sites, key=lambda s: (s[2] or 0))[0]
                    run.ob("C02-p", inst, False, "`%s` points into mem_block[%s]; %s() at line %s %s, and `%s` at line %s still uses the old address" % (name, K, site[3], site[2], res.kills.get(site), what, n.get("l")),
                           f.file, n.get("l"), f.name, what="%s uses a pointer into a compiler table after a call that can reallocate the table (heap write after free when the table is exactly full)" % f.name)
                else:
                    run.ob("C02-p", inst, True, "`%s` (into mem_block[%s]): %d uses, none after a call that can grow the block without a fresh assignment" % (name, K, len(uses)), f.file, f.line, f.name)
    run.need(n_inst >= 10, "pointer locals into compiler memory blocks (found %d)" % n_inst)
