"""C02-q — compiler state that one compilation leaves behind.

The reset-completeness scan of C02-g (engine/rules/C02g.py), run over the compiler proper (compiler.c, the generated
grammar, icode.c, generate.c, parse_trees.c, the scratchpad) instead of the lexer: every file-scope variable that is
written while yyparse() runs must be re-initialised for every compilation by prolog()/compile_file()/start_new_file()
/end_new_file(), or be listed below with the reason it may keep its value.  The table was produced by reading every
variable the scan reported (audit, notes/replays/C02-audit-3/TABLE.md: one real leak, repaired); a new variable, or
a listed one that loses the property its reason names, is a violation."""
import rules.C02g as c02g
from core import rel

UNITS = ("lib/lpc/compiler.c", "lib/lpc/grammar.c", "lib/lpc/program/icode.c", "lib/lpc/program/generate.c", "lib/lpc/program/parse_trees.c", "lib/misc/scratchpad.c")

# name -> (class, reason).  a = reset on every way out of a compilation (by the named function), b = set before use,
# c = cache / capacity / id that cannot change the compiled program
TABLE = {
    "context": ("b", "read only in statement actions, each after `context = 0` (function body, function literal) or the catch/time_expression set"),
    "current_type": ("b", "written by the `type` rule and local declarations, read later in the same production"),
    "current_id_number": ("c", "monotonic program id, the apply-cache key only"),
    "current_num_values": ("b", "read for `$n` inside a functional, after the write that saved the old value; restored on the way out"),
    "push_state": ("a", "every unit given to generate() ends with an opcode that calls end_pushes() first", "end_pushes"),
    "push_start": ("b", "read only while push_state != 0, which is set after push_start is written"),
    "pop_value_depth": ("b", "balanced ++/-- inside insert_pop_value()"),
    "optimizer_state": ("b", "set in generate_function() before the only call of optimize()"),
    "optimize_depth": ("b", "set in generate_function() before the only call of optimize()"),
    "last_local_refs": ("b", "set in optimizer_start_function() before use"),
    "optimizer_num_locals": ("b", "set in optimizer_start_function() before use"),
    "init_switches": ("c", "grow-only array; pointer and capacity change together; the count is reset by i_initialize_parser()"),
    "max_init_switches": ("c", "capacity of init_switches"),
    "current_number_of_locals": ("a", "clean_up_locals() on every epilog() exit", "clean_up_locals"),
    "max_num_locals": ("a", "clean_up_locals() on every epilog() exit", "clean_up_locals"),
    "locals_ptr": ("a", "clean_up_locals() on every epilog() exit", "clean_up_locals"),
    "type_of_locals_ptr": ("a", "clean_up_locals() on every epilog() exit", "clean_up_locals"),
    "runtime_locals_ptr": ("a", "clean_up_locals() on every epilog() exit", "clean_up_locals"),
    "locals": ("c", "buffer that only grows; every slot read was written in the same function"),
    "locals_size": ("c", "capacity of locals"),
    "type_of_locals": ("c", "buffer that only grows"),
    "type_of_locals_size": ("c", "capacity of type_of_locals"),
    "runtime_locals": ("c", "buffer that only grows"),
    "free_block_list": ("a", "release_tree()/free_tree() on every completed compilation", "free_tree"),
    "parse_block_list": ("a", "release_tree()/free_tree() on every completed compilation", "free_tree"),
    "next_node": ("a", "release_tree()/free_tree() on every completed compilation", "free_tree"),
    "last_node": ("a", "release_tree()/free_tree() on every completed compilation", "free_tree"),
    "scr_last": ("a", "scratch_destroy() on every epilog() exit", "scratch_destroy"),
    "scr_tail": ("a", "scratch_destroy() on every epilog() exit", "scratch_destroy"),
    "overload_warnings": ("a", "epilog() empties the queue on every path (remove_overload_warnings / show_overload_warnings), whatever the warnings pragma says at the end of the file", "epilog"),
}


class _Collect:
    def __init__(self, run):
        self.run = run
        self.obs = []
        self.extra = {}

    def rule(self, *a):
        pass

    def need(self, x, w=""):
        return self.run.need(x, w)

    def saw(self, f):
        self.run.saw(f)

    def note(self, x):
        pass

    def ob(self, rule, inst, ok, why, *a, **k):
        self.obs.append((inst, ok, why, a))


def check(run, prog, tier, cg):
    run.rule("C02-q", "compiler proper (compiler.c, grammar, icode.c, generate.c, parse_trees.c, scratchpad): every file-scope variable written while yyparse() runs is re-initialised for every compilation, is a statistic, is provably back at its initial value when its only writer returns, or is listed with the reason it may keep its value (set before use / released by a named function on every epilog() exit / capacity or id); for the listed 'released by' entries the named function still writes the variable and epilog() still reaches it on every path", 25)
    saved_units = c02g.UNITS
    col = _Collect(run)
    orig = cg.reachable_from
    try:
        c02g.UNITS = UNITS
        cg.reachable_from = lambda roots, barriers=(): orig(["yyparse"], barriers)
        c02g.check(col, prog, tier, cg)
    finally:
        c02g.UNITS = saved_units
        cg.reachable_from = orig
    ep = run.need(prog.func("epilog"), "epilog")
    glob = prog.globals()
    n = 0
    for inst, ok, why, a in col.obs:
        name = inst.split(":", 1)[1]
        n += 1
        g = glob.get(name, {})
        if ok is True:
            run.ob("C02-q", "state:" + name, True, why, g.get("file"), g.get("l"), None)
            continue
        ent = TABLE.get(name)
        if ent is None:
            run.ob("C02-q", "state:" + name, False, "%s - and it is not one of the reviewed variables that may keep their value" % why, g.get("file"), g.get("l"), None,
                   what="compiler state `%s` is carried from one compilation into the next: the same source can compile differently depending on what was compiled before" % name)
            continue
        okk, extra = True, ""
        if ent[0] == "a" and len(ent) > 2:
            fn = prog.func(ent[2])
            writes = fn is not None and (fn.name == "epilog" or any((c02g.written_var(x) or {}).get("n") == name for b, i, x in fn.nodes()))
            # epilog reaches the releasing function on every path (directly or through clean_parser)
            def reaches(f, target, depth=0):
                blocks = {b.id for b, i, c in f.calls() if c.get("fn") == target}
                for b, i, c in f.calls():
                    g2 = prog.func(c.get("fn")) if c.get("fn") in ("clean_parser", "release_tree", "end_pushes", "remove_overload_warnings", "show_overload_warnings") else None
                    if g2 is not None and depth < 2 and reaches(g2, target, depth + 1):
                        blocks.add(b.id)
                if not blocks:
                    return False
                return f.reach_avoiding([f.entry], lambda blk: f.exit in blk.live_succ() and not blk.nr, avoid_blocks=blocks) is None
            if ent[2] == "epilog":
                emptied = {b.id for b, i, c in ep.calls() if c.get("fn") in ("remove_overload_warnings", "show_overload_warnings")}
                every = bool(emptied) and ep.reach_avoiding([ep.entry], lambda blk: ep.exit in blk.live_succ() and not blk.nr, avoid_blocks=emptied) is None
                okk, extra = every, "" if every else ": a path through epilog() leaves the queue as it is"
            elif ent[2] in ("end_pushes",):
                okk = writes
            else:
                every = reaches(ep, ent[2])
                okk = writes and every
                extra = "" if okk else ": %s() %s" % (ent[2], "no longer writes it" if not writes else "is not reached on every path through epilog()")
        run.ob("C02-q", "state:" + name, okk, "reviewed (%s): %s%s" % (ent[0], ent[1], extra), g.get("file"), g.get("l"), None,
               what="compiler state `%s` is no longer released for the next compilation%s" % (name, extra))
    run.need(n >= 25, "compiler state variables (found %d)" % n)
