"""C02-r - the predefined macros are the same for every compilation.

The define table holds the driver's predefines (DEF_IS_PREDEF, created once, kept by free_defines(0)) next to the
defines of the file being compiled.  A compilation may hide nothing and change nothing in a predefined entry:
  * DEF_IS_UNDEFINED is set only on an entry that was tested not to be predefined (so "predefined" and "undefined"
    never hold together - add_define() relies on that when it reuses an undefined entry in place);
  * exps / nargs / flags of an existing entry are overwritten only under such a test, or under the test that the
    entry is undefined (which, by the first clause, is not a predefine), or on an entry allocated in the same function;
  * DEF_IS_PREDEF is never masked off.
The function that creates predefines (the one that stores DEF_IS_PREDEF) is the start-up path and exempt."""
import cfgq
import facts
from core import rel
from facts import strip, show, walk, normalize_cond
from stale import implied_atoms


def _is_defn(e):
    e = strip(e)
    return e.get("k") == "Mem" and e.get("rec") in ("defn_s", "defn") and e.get("f") in ("flags", "exps", "nargs")



def _known(f, b, xid):
    """what the branch facts at block b say about the entry in variable xid: (not predefined, undefined, allocated here)"""
    not_predef = undefined = fresh = False
    if xid is None:
        return (False, False, False)
    for c, t, B in cfgq.guards(f, b.id):
        for a_, t_ in implied_atoms(c, t):
            e, tt = normalize_cond(a_, t_)
            e = strip(e)
            if e.get("k") == "Bin" and e.get("op") == "&" and any(y.get("k") == "Mem" and y.get("f") == "flags" and strip(y.get("b") or {}).get("id") == xid for y in walk(e)):
                if facts.any_in_macro(e, "DEF_IS_PREDEF") and not tt:
                    not_predef = True
                if facts.any_in_macro(e, "DEF_IS_UNDEFINED") and tt:
                    undefined = True
    for b2, i2, n2 in f.nodes():
        if n2.get("k") == "Asg" and n2.get("op") == "=" and strip(n2["L"]).get("k") == "Ref" and strip(n2["L"]).get("id") == xid \
                and any(y.get("k") == "Call" and "alloc" in (y.get("fn") or "").lower() for y in walk(n2["R"])) and f.dominates(b2.id, b.id):
            fresh = True
    return (not_predef, undefined, fresh)

def check(run, prog, tier):
    run.rule("C02-r", "preprocessor: a compilation leaves the predefined macros as they are - DEF_IS_UNDEFINED is set, and exps/nargs/flags of an existing entry are overwritten, only where the entry was tested not to be DEF_IS_PREDEF (or tested to be undefined, which no predefine ever is, or allocated right there); DEF_IS_PREDEF is never masked off. Otherwise `#undef X` + `#define X ..` in one file changes X for every file compiled afterwards", 5)
    nst = 0
    for f in sorted(prog.functions(), key=lambda x: (x.file, x.line)):
        if not rel(f.file).startswith("lib/lpc/"):
            continue
        stores = [(b, i, n) for b, i, n in f.nodes() if n.get("k") == "Asg" and _is_defn(n["L"])]
        if not stores:
            continue
        if any(n.get("op") == "=" and strip(n["L"]).get("f") == "flags" and facts.any_in_macro(n["R"], "DEF_IS_PREDEF") for b, i, n in stores):
            continue        # creates predefines: start-up
        for j, (b, i, n) in enumerate(stores):
            L = strip(n["L"])
            x = strip(L.get("b") or {})
            xid = x.get("id") if x.get("k") == "Ref" else None
            nst += 1
            run.saw(f)
            not_predef, undefined, fresh = _known(f, b, xid)
            if not (not_predef or undefined or fresh) and x.get("d") == "param" and f.static:
                # a file-local helper that is handed the entry: what every caller knows about it at the call
                pis = [p_.get("pi") for p_ in f.params or [] if p_.get("id") == xid]
                sites = [(g, b2, n2) for g in prog.functions() for b2, i2, n2 in g.calls(f.name)]
                ks = []
                for g, b2, n2 in sites:
                    a = strip(n2["args"][pis[0]]) if pis and len(n2.get("args", [])) > pis[0] else {}
                    ks.append(_known(g, b2, a.get("id")) if a.get("k") == "Ref" and a.get("id") is not None else (False, False, False))
                if ks:
                    not_predef, undefined, fresh = all(k_[0] for k_ in ks), all(k_[1] for k_ in ks), all(k_[2] for k_ in ks)
                    if not (not_predef or undefined or fresh) and all(any(k_) for k_ in ks):
                        not_predef = True       # each caller knows one of the three
            op = n.get("op")
            if op == "&=":
                ok = not facts.any_in_macro(n["R"], "DEF_IS_PREDEF")
                why = "`%s` clears bits other than DEF_IS_PREDEF" % show(n)[:50] if ok else "`%s` (line %s) takes DEF_IS_PREDEF off an entry: free_defines(0) then frees it with the file's own defines" % (show(n)[:50], n.get("l"))
            elif op == "|=" and facts.any_in_macro(n["R"], "DEF_IS_UNDEFINED"):
                ok = not_predef or fresh
                why = "`%s` on an entry tested not to be predefined" % show(n)[:50] if ok else \
                    "`%s` (line %s) hides an entry that may be a predefine: add_define() reuses an undefined entry in place and clears its flags, so `#undef` + `#define` of a predefined name changes it for every later compilation" % (show(n)[:50], n.get("l"))
            elif op == "|=":
                ok, why = True, "`%s` sets a bit that is not DEF_IS_UNDEFINED" % show(n)[:50]
            else:
                ok = not_predef or undefined or fresh
                why = "`%s` on an entry that is %s" % (show(n)[:40], "not predefined" if not_predef else "undefined (never a predefine)" if undefined else "allocated here") if ok else \
                    "`%s` (line %s) overwrites an entry that may be a predefine" % (show(n)[:50], n.get("l"))
            run.ob("C02-r", "predef:%s:%d" % (f.name, j), ok, why, f.file, n.get("l"), f.name, what="%s changes a predefined macro during a compilation" % f.name)
    run.need(nst >= 5, "stores to define-table entries during compilation (found %d)" % nst)
