"""C04 — every evaluation is bounded by the configured limits.

C04-a  the evaluation-cost tick is unavoidable and exact: every cycle through the dispatch switch of
       eval_instruction passes the `--eval_cost` test, whose zero branch records ES_MAX_EVAL_COST and raises;
       because the test is an exact-zero test, eval_cost may only be decremented by that one site
C04-b  who may refill the budget (writers of eval_cost)
C04-c  call depth: the only increments of csp are guarded by the depth test; control_stack is allocated
       with the tested bound
C04-d  catch cannot swallow limit errors: do_catch re-raises both limit states, and the re-raise carries
       the state to enclosing catches
C04-e  size limits at growth sites (arrays, buffers, mapping nodes, strings)"""
import facts
import cfgq
import callgraph
from core import rel
from facts import strip, show, walk, const_val, normalize_cond, atom_of

REFILL_OK = {
    "backend": "top of the driver loop, once per iteration",
    "clear_state": "driver state reset before the loop",
    "call_heart_beat": "per heart_beat call",
    "process_user_command": "per buffered user command: one per user and backend cycle (turn flags), so the number of refills per cycle is bounded by the number of connections",
    "call_out": "per call_out of the sweep, like a heart_beat (a call_out made by a callback lands at least one second ahead of the clock, outside the running sweep, so the number of refills per sweep is bounded by what was pending)",
    "look_for_objects_to_swap": "per object reset/clean_up",
    "preload_objects": "per preloaded file",
    "main": "start-up",
    "init_console_user": "console connect",
    "eval_instruction": "the zero branch itself, so that error handling has a budget",
    "sig_usr2": "operator abort: sets the budget to 1 so that the next tick raises",
}
ARRAY_NOGROW = {
    "slice_array": "result is a sub-range of an existing array",
    "subtract_array": "result no larger than the minuend",
    "intersect_array": "result no larger than an operand",
}
STRING_ALLOC = {"new_string": 0, "int_new_string": 0, "extend_string": 1, "int_extend_string": 1}


def mentions(e, macro):
    return facts.any_in_macro(e, macro)


def terms(e):
    e = strip(e)
    if e.get("k") == "Bin" and e.get("op") in ("+", "*"):
        return terms(e["L"]) + terms(e["R"])
    if e.get("k") == "Asg" and e.get("op") == "=":
        return terms(e["R"])
    if const_val(e) is not None:
        return []
    return [e]


def limit_guard(f, bid, macro, about=None):
    """A dominating atom that compares something with CONFIG_INT(macro) and holds on the non-error edge.
    about: optional set of variable names one of which must appear in the comparison."""
    for c, t, B in cfgq.guards(f, bid):
        if mentions(c, macro):
            txt = show(c)
            if about is None or any(a in txt for a in about):
                return c, t
    return None


def check(run, prog, tier):
    run.rule("C04-a", "eval_instruction: every cycle through the dispatch switch passes the `--eval_cost` test; its zero branch sets ES_MAX_EVAL_COST before error(); eval_cost is decremented only there (exact-zero test)", 3)
    run.rule("C04-b", "eval_cost is assigned only at the driver's task boundaries (table) — LPC-reachable refills are findings", 8)
    run.rule("C04-c", "csp is incremented only in push_control_stack/setup_fake_frame, each dominated by the MaxCallDepth test that sets ES_STACK_FULL and raises; control_stack has MaxCallDepth elements", 4)
    run.rule("C04-d", "do_catch re-raises ES_MAX_EVAL_COST and ES_STACK_FULL after popping its context, and the state survives the pop for enclosing catches", 3)
    run.rule("C04-e", "every growth site of an array, buffer, mapping or string is dominated by a comparison with the matching configured maximum (or cannot exceed an operand)", 20)

    ei = run.need(prog.func("eval_instruction"), "eval_instruction")
    run.saw(ei)
    # ---- C04-a
    T = None
    for bid in ei.reachable():
        c = ei.branch_cond(bid)
        if c is None:
            continue
        e, t = normalize_cond(c, True)
        e = strip(e)
        if e.get("k") == "Un" and e.get("op") == "--" and strip(e["e"]).get("n") == "eval_cost":
            T = (bid, t)
    run.need(T, "`--eval_cost` test in eval_instruction")
    S = [bid for bid in ei.reachable() if ei.blocks[bid].term and ei.blocks[bid].term["k"] == "SwitchStmt" and len(ei.blocks[bid].succ) > 100]
    run.need(S, "dispatch switch in eval_instruction")
    p = ei.reach_avoiding(ei.blocks[S[0]].live_succ(), lambda blk: blk.id == S[0], avoid_blocks=[T[0]])
    run.ob("C04-a", "tick-on-every-cycle", p is None, "every cycle through the dispatch switch passes the eval_cost test" if p is None else "cycle %s re-enters the dispatch without ticking" % p[:10],
           ei.file, ei.line_of_block(T[0]), "eval_instruction", what="eval_instruction can loop without consuming evaluation cost")
    zb = ei.blocks[T[0]].succ[1] if T[1] else ei.blocks[T[0]].succ[0]  # edge where --eval_cost == 0
    # zero branch: set_error_state(ES_MAX_EVAL_COST) then error()
    zreg = cfgq.reach_set(ei, [zb], avoid_blocks=[S[0]])
    sets = [(b, i, n) for b, i, n in ei.calls("set_error_state") if b.id in zreg and mentions(n["args"][0], "ES_MAX_EVAL_COST")]
    errs = [(b, i, n) for b, i, n in ei.calls("error") if b.id in zreg]
    okz = bool(sets) and bool(errs) and all(any(ei.point_dominates((sb.id, si), (b.id, i)) for sb, si, sn in sets) for b, i, n in errs) and S[0] not in zreg
    if not okz:
        # the zero branch may have been moved into a small file-local helper: look again with such helpers spliced in
        ez = prog.funci("eval_instruction")
        if ez is not ei:
            Tz = None
            for bid in ez.reachable():
                c = ez.branch_cond(bid)
                if c is None:
                    continue
                e, t = normalize_cond(c, True)
                e = strip(e)
                if e.get("k") == "Un" and e.get("op") == "--" and strip(e["e"]).get("n") == "eval_cost":
                    Tz = (bid, t)
            Sz = [bid for bid in ez.reachable() if ez.blocks[bid].term and ez.blocks[bid].term["k"] == "SwitchStmt" and len(ez.blocks[bid].succ) > 100]
            if Tz and Sz:
                zbz = ez.blocks[Tz[0]].succ[1] if Tz[1] else ez.blocks[Tz[0]].succ[0]
                zr = cfgq.reach_set(ez, [zbz], avoid_blocks=[Sz[0]])
                sets = [(b, i, n) for b, i, n in ez.calls("set_error_state") if b.id in zr and mentions(n["args"][0], "ES_MAX_EVAL_COST")]
                errs = [(b, i, n) for b, i, n in ez.calls("error") if b.id in zr]
                okz = bool(sets) and bool(errs) and all(any(ez.point_dominates((sb.id, si), (b.id, i)) for sb, si, sn in sets) for b, i, n in errs) and Sz[0] not in zr
    run.ob("C04-a", "zero-branch", okz, "zero branch: set_error_state(ES_MAX_EVAL_COST) dominates error(); the branch never falls into the dispatch" if okz else "zero branch does not record ES_MAX_EVAL_COST before raising (or falls through)",
           ei.file, ei.line_of_block(zb), "eval_instruction", what="the eval-cost error is raised without the uncatchable marker")
    # writers of eval_cost
    arith = []
    assigns = []
    for f in prog.functions():
        for b, i, n in f.nodes():
            k = n.get("k")
            tgt = None
            if k == "Asg" and strip(n["L"]).get("n") == "eval_cost" and strip(n["L"]).get("d") == "global":
                if n.get("op") == "=":
                    assigns.append((f, n))
                else:
                    arith.append((f, n))
            elif k == "Un" and n.get("op") in ("--", "++") and strip(n["e"]).get("n") == "eval_cost" and strip(n["e"]).get("d") == "global":
                if not (f.name == "eval_instruction" and b.id == T[0]):
                    arith.append((f, n))
            elif k == "Un" and n.get("op") == "&" and strip(n["e"]).get("n") == "eval_cost":
                arith.append((f, n))
    run.ob("C04-a", "single-decrement", not arith, "eval_cost is decremented only by the tick" if not arith else "other arithmetic on eval_cost: %s" % [(f.name, show(n)) for f, n in arith],
           (arith[0][0].file if arith else ei.file), (arith[0][1].get("l") if arith else None), (arith[0][0].name if arith else "eval_instruction"),
           what="eval_cost is changed by %s: the exact-zero test `!--eval_cost` can be stepped over and never fire" % [(f.name, show(n)) for f, n in arith])
    # ---- C04-b
    ordn = {}
    for f, n in assigns:
        o = ordn.get(f.name, 0)
        ordn[f.name] = o + 1
        inst = "refill:%s:%s:%d" % (rel(f.file), f.name, o)
        why = REFILL_OK.get(f.name)
        if why is None:
            import helpers
            own = helpers.owners(prog, f.name, set(REFILL_OK))
            if own:
                why = "file-local helper of %s: %s" % (", ".join(sorted(own)), "; ".join(REFILL_OK[o] for o in sorted(own)))
        if why is None and const_val(n["R"]) == 1:
            why = "stores the constant 1: the budget is cut to its last tick (the next instruction raises), never refilled"
        run.ob("C04-b", inst, why is not None, "%s — %s" % (show(n), why or "an LPC-callable efun resets the evaluation budget: a program can run forever by calling it in its loop"), f.file, n.get("l"), f.name,
               what="%s refills eval_cost" % f.name)

    # ---- C04-c
    incs = []
    for f in prog.functions():
        for b, i, n in f.nodes():
            if n.get("k") == "Un" and n.get("op") == "++" and strip(n["e"]).get("n") == "csp" and strip(n["e"]).get("d") == "global":
                incs.append((f, b, i, n))
            if n.get("k") == "Asg" and strip(n["L"]).get("n") == "csp" and strip(n["L"]).get("d") == "global" and n.get("op") in ("+=",):
                incs.append((f, b, i, n))
            # csp = csp + K
            if n.get("k") == "Asg" and n.get("op") == "=" and strip(n["L"]).get("n") == "csp" and strip(n["L"]).get("d") == "global":
                r = strip(n["R"])
                if r.get("k") == "Bin" and r.get("op") == "+" and any(strip(a).get("n") == "csp" and (const_val(b_) or 0) > 0 for a, b_ in ((r["L"], r["R"]), (r["R"], r["L"]))):
                    incs.append((f, b, i, n))
    run.need(incs, "csp increments")
    for f, b, i, n in incs:
        run.saw(f)
        g = limit_guard(f, b.id, "__MAX_CALL_DEPTH__")
        ok = g is not None and f.name in ("push_control_stack", "setup_fake_frame")
        # the failing edge sets ES_STACK_FULL and raises
        marks = False
        if g is not None:
            for bid in f.reachable():
                c = f.branch_cond(bid)
                if c is not None and mentions(c, "__MAX_CALL_DEPTH__"):
                    e, t = normalize_cond(c, True)
                    full = f.blocks[bid].succ[0] if (atom_of(c, True)[0] == "==") else f.blocks[bid].succ[1]
                    if full is not None:
                        blk = f.blocks[full]
                        txt = " ".join(show(e2) for e2 in blk.el)
                        marks = blk.nr and ("ES_STACK_FULL" in txt) and "error(" in txt
        run.ob("C04-c", "depth:%s" % f.name, ok and marks, "csp++ dominated by the MaxCallDepth test (%s); full branch sets ES_STACK_FULL and raises (%s)" % (g is not None, marks), f.file, n.get("l"), f.name,
               what="%s pushes a control frame without the call-depth test" % f.name)
    sc = run.need(prog.func("save_context"), "save_context")
    g = any(mentions(ec, "__MAX_CALL_DEPTH__") for bid in sc.reachable() for ec in [sc.branch_cond(bid)] if ec is not None)
    run.ob("C04-c", "save_context-depth", g, "save_context applies the same depth test and refuses" if g else "save_context does not test the depth", sc.file, sc.line, "save_context")
    alloc = None
    for f in prog.functions():
        for b, i, n in f.nodes():
            if n.get("k") == "Asg" and strip(n["L"]).get("n") == "control_stack":
                for c in walk(n["R"]):
                    if c.get("k") == "Call" and c.get("fn") in ("calloc", "xcalloc", "malloc", "xalloc"):
                        alloc = (f, n, c)
    run.need(alloc, "allocation of control_stack")
    run.ob("C04-c", "stack-extent", mentions(alloc[2], "__MAX_CALL_DEPTH__"), "control_stack allocated as %s" % show(alloc[2])[:80], alloc[0].file, alloc[1].get("l"), alloc[0].name,
           what="control_stack is not allocated with MaxCallDepth elements")

    # ---- C04-d
    dc = run.need(prog.func("do_catch"), "do_catch")
    run.saw(dc)
    for flag in ("ES_MAX_EVAL_COST", "ES_STACK_FULL"):
        tests = [bid for bid in dc.reachable() if dc.branch_cond(bid) is not None and strip(dc.branch_cond(bid)).get("fn") == "get_error_state" and mentions(dc.branch_cond(bid), flag)]
        inst = "reraise:%s" % flag
        if not tests:
            run.ob("C04-d", inst, False, "do_catch does not test %s after a caught error" % flag, dc.file, dc.line, "do_catch", what="catch() swallows the %s error" % flag)
            continue
        tb = tests[0]
        s = dc.blocks[tb].succ[0]
        reg = cfgq.reach_set(dc, [s]) if s is not None else set()
        pops = [(b, i, n) for b, i, n in dc.calls("pop_context") if b.id == s]
        errs = [(b, i, n) for b, i, n in dc.calls("error") if b.id == s]
        ok1 = bool(pops) and bool(errs) and dc.blocks[s].nr
        # the normal exit is not reachable from the test's true edge
        exits = dc.reach_avoiding([s], lambda blk: dc.exit in blk.live_succ() and not blk.nr) if s is not None else [0]
        ok1 = ok1 and exits is None
        # the state must survive pop_context (which clears it): set again between the pop and error(), in the same block
        keeps = False
        if pops and errs:
            pb, pi, pn = pops[0]
            eb, ei_, en = errs[0]
            for b, i, n in dc.calls("set_error_state"):
                if b.id == s and pi < i < ei_ and mentions(n["args"][0], flag):
                    keeps = True
        # or pop_context does not clear the state
        pcx = prog.func("pop_context")
        clears = any(True for _ in pcx.calls("clear_error_state"))
        ok2 = keeps or not clears
        run.ob("C04-d", inst, ok1 and ok2, "%s: test true -> pop_context -> %serror() (never returns normally): %s; state survives the pop for enclosing catches: %s" % (flag, "set_error_state -> " if keeps else "", ok1, ok2),
               dc.file, dc.line_of_block(tb), "do_catch",
               what="a nested catch() swallows the %s error: pop_context() clears the state before the re-raise, so the enclosing catch sees an ordinary error" % flag if ok1 else "catch() swallows the %s error" % flag)
    # the tests are on the jump branch before anything else can return
    callers = sorted({f.name for f in prog.functions() for _ in f.calls("clear_error_state")})
    # error_handler may clear the state too, but only where the error is NOT going to a catch frame: do_catch() must still
    # see the flags after the jump.  Every clearing call in error_handler must be unable to reach the catch-path longjmp.
    eh_ok = True
    eh_why = ""
    ehf = prog.func("error_handler")
    if "error_handler" in callers and ehf is not None:
        catch_jumps = [b.id for b, i, n in ehf.calls() if n.get("fn") in ("longjmp", "_longjmp", "siglongjmp") and any(
            atom_of(c, t)[0] == "==" and "framekind" in show(c) and (mentions(c, "FRAME_CATCH") or "FRAME_CATCH" in show(c)) for c, t, B in cfgq.guards(ehf, b.id))]
        for b, i, n in ehf.calls("clear_error_state"):
            if any(cj in cfgq.reach_set(ehf, [b.id]) for cj in catch_jumps):
                eh_ok = False
                eh_why = "clear_error_state() at line %s can be followed by the jump into do_catch(): the catch would no longer see a limit error" % n.get("l")
        if not catch_jumps:
            eh_ok, eh_why = False, "catch-path longjmp not found in error_handler"
    run.ob("C04-d", "clear-callers", set(callers) <= {"pop_context", "error_handler"} and eh_ok, "clear_error_state called from %s%s" % (callers, "; in error_handler only on exits that do not lead to a catch frame" if "error_handler" in callers and eh_ok else (" - " + eh_why if eh_why else "")),
           None, None, None, what="the limit-error state is cleared where do_catch() still needs it: %s %s" % (callers, eh_why))

    # ---- C04-e arrays
    nsite = 0
    for f in prog.functions():
        ordn = 0
        for b, i, n in f.nodes():
            if n.get("k") != "Call":
                continue
            m = n.get("m") or ()
            kind = None
            if "ALLOC_ARRAY" in m or "RESIZE_ARRAY" in m:
                kind = ("array", "__MAX_ARRAY_SIZE__")
            elif n.get("fn") in ("xcalloc", "calloc", "xalloc", "malloc", "realloc") and ("sizeof(struct buffer_s)" in show(n) or "sizeof(buffer_t)" in show(n)):
                kind = ("buffer", "__MAX_BUFFER_SIZE__")
            if kind is None:
                continue
            run.saw(f)
            nsite += 1
            inst = "grow:%s:%s:%s:%d" % (kind[0], rel(f.file), f.name, ordn)
            ordn += 1
            g = limit_guard(f, b.id, kind[1])
            if g is not None:
                run.ob("C04-e", inst, True, "%s allocation dominated by `%s` (%s edge)" % (kind[0], show(g[0])[:60], g[1]), f.file, n.get("l"), f.name)
            elif f.name in ARRAY_NOGROW:
                run.ob("C04-e", inst, True, "table: " + ARRAY_NOGROW[f.name], f.file, n.get("l"), f.name)
            else:
                run.ob("C04-e", inst, False, "%s allocation `%s` without a comparison against %s" % (kind[0], show(n)[:60], kind[1]), f.file, n.get("l"), f.name,
                       what="%s allocates a %s without the configured size limit" % (f.name, kind[0]))
    # mapping node counts
    for f in prog.functions():
        ordn = 0
        for b, i, n in f.nodes():
            if n.get("k") == "Un" and n.get("op") == "++":
                e = strip(n["e"])
                is_cnt = (e.get("k") == "Mem" and e.get("f") == "count" and e.get("rec") in ("mapping_s", "mapping_t"))
                if not is_cnt:
                    continue
                run.saw(f)
                inst = "grow:mapping:%s:%s:%d" % (rel(f.file), f.name, ordn)
                ordn += 1
                c = f.branch_cond(b)
                here = c is not None and mentions(c, "__MAX_MAPPING_SIZE__") and any(x is n or show(x) == show(n) for x in walk(c))
                g = here or limit_guard(f, b.id, "__MAX_MAPPING_SIZE__") is not None
                if not g:
                    # `m->count++; if (m->count > MAX) ...`: every path from the increment to a return (or to another increment)
                    # passes a comparison of that count with the limit
                    tests = {bid for bid in f.reachable() if f.branch_cond(bid) is not None and mentions(f.branch_cond(bid), "__MAX_MAPPING_SIZE__")
                             and any(x.get("k") == "Mem" and x.get("f") == "count" for x in walk(f.branch_cond(bid)))}
                    if tests and (b.id in tests or f.reach_avoiding(b.live_succ(), lambda blk: (f.exit in blk.live_succ() and not blk.nr) or blk.id == b.id, avoid_blocks=tests) is None):
                        g = True
                run.ob("C04-e", inst, bool(g), "%s %s" % (show(n), "tested against MaxMappingSize" if g else "not tested against MaxMappingSize"), f.file, n.get("l"), f.name,
                       what="%s adds a mapping node without the size limit" % f.name)
    # mapping count written wholesale:  m->count = n  - the counter n must itself be limited where it grows
    for f in prog.functions():
        ordn = 0
        for b, i, n in f.nodes():
            if not (n.get("k") == "Asg" and n.get("op") in ("=", "+=") and strip(n["L"]).get("k") == "Mem" and strip(n["L"]).get("f") == "count" and strip(n["L"]).get("rec") in ("mapping_s", "mapping_t")):
                continue
            r = strip(n["R"])
            if const_val(r) is not None:
                continue
            # a copy of another mapping's count cannot exceed what that mapping was allowed to have
            if r.get("k") == "Mem" and r.get("f") == "count":
                continue
            run.saw(f)
            inst = "grow:mapping-count:%s:%s:%d" % (rel(f.file), f.name, ordn)
            ordn += 1
            ok = limit_guard(f, b.id, "__MAX_MAPPING_SIZE__") is not None
            why = "the store is dominated by a comparison with MaxMappingSize"
            if not ok and r.get("k") == "Ref" and r.get("d") in ("local", "param"):
                incs = [(b2, i2, n2) for b2, i2, n2 in f.nodes() if ((n2.get("k") == "Un" and n2.get("op") == "++" and strip(n2["e"]).get("id") == r.get("id")) or (n2.get("k") == "Asg" and n2.get("op") == "+=" and strip(n2["L"]).get("id") == r.get("id")))]
                plain = [n2 for b2, i2, n2 in f.nodes() if n2.get("k") == "Asg" and n2.get("op") == "=" and strip(n2["L"]).get("id") == r.get("id") and const_val(n2["R"]) is None and not (strip(n2["R"]).get("k") == "Mem" and strip(n2["R"]).get("f") in ("count", "size"))]
                def inc_guarded(b2, n2):
                    c2 = f.branch_cond(b2)
                    here2 = c2 is not None and mentions(c2, "__MAX_MAPPING_SIZE__") and any(x is n2 or show(x) == show(n2) for x in walk(c2))
                    return here2 or limit_guard(f, b2.id, "__MAX_MAPPING_SIZE__") is not None
                resets = [(b2.id, i2) for b2, i2, n2 in f.nodes() if n2.get("k") == "Asg" and n2.get("op") == "=" and strip(n2["L"]).get("id") == r.get("id") and const_val(n2["R"]) == 0]
                guarded_incs = [(b2, i2, n2) for b2, i2, n2 in incs if inc_guarded(b2, n2)]
                recount = guarded_incs and all(inc_guarded(b2, n2) or any(f.point_dominates(rp, (b2.id, i2)) and any(f.point_dominates((g[0].id, g[1]), rp) or cfgq.reach_set(f, [g[0].id]) >= {rp[0]} for g in guarded_incs) for rp in resets) for b2, i2, n2 in incs)
                if incs and not plain and all(inc_guarded(b2, n2) for b2, i2, n2 in incs):
                    ok = True
                    why = "%s only grows by increments that are each behind a comparison with MaxMappingSize" % r.get("n")
                elif incs and not plain and recount:
                    ok = True
                    why = "%s is counted up behind a comparison with MaxMappingSize, reset to 0 and counted again over the same nodes" % r.get("n")
                elif not incs and not plain:
                    ok = True
                    why = "%s never grows in this function" % r.get("n")
                else:
                    why = "%s = %s: the counter grows (%d increment(s)) without a comparison with MaxMappingSize" % (show(n["L"]), r.get("n"), len(incs))
            elif not ok:
                why = "count set to `%s` without a comparison with MaxMappingSize" % show(r)[:40]
            run.ob("C04-e", inst, ok, why, f.file, n.get("l"), f.name, what="%s builds a mapping whose size is not compared with MaxMappingSize" % f.name)
    # strings
    for f in prog.functions():
        ordn = 0
        for b, i, n in f.nodes():
            if not (n.get("k") == "Call" and n.get("fn") in STRING_ALLOC):
                continue
            a = strip(n["args"][STRING_ALLOC[n["fn"]]])
            grow = None
            names = set()
            ts = terms(a)
            if len(ts) >= 2:
                grow = show(a)
                names = {show(t) for t in ts}
            elif len(ts) == 1 and ts[0].get("k") == "Ref" and ts[0].get("d") in ("local", "param"):
                vid = ts[0].get("id")
                for b2, i2, n2 in f.nodes():
                    if n2.get("k") == "Asg" and strip(n2["L"]).get("k") == "Ref" and strip(n2["L"]).get("id") == vid:
                        if n2["op"] in ("+=", "*=") and const_val(n2["R"]) is None:
                            grow = show(n2)
                        elif n2["op"] == "=" and len(terms(n2["R"])) >= 2:
                            grow = show(n2)
                names = {ts[0]["n"]}
            if not grow:
                continue
            if f.file.endswith("outbuf.c"):
                continue  # driver-internal output buffers (dump/ed output), not LPC values
            run.saw(f)
            mac = [x for x in (n.get("m") or ()) if x in ("EXTEND_SVALUE_STRING", "SVALUE_STRING_JOIN", "SVALUE_STRING_ADD_LEFT")]
            inst = "grow:string:%s:%s:%s%d" % (rel(f.file), f.name, (mac[0] + ":") if mac else "", ordn)
            ordn += 1
            g = limit_guard(f, b.id, "__MAX_STRING_LENGTH__")
            if g is None:
                # disjunctive form `if (len && n > MAX / len) error`: every path to the allocation passes a test
                # against the limit, except paths on which a factor of the size is zero
                tests_ = [bid for bid in f.reachable() if f.branch_cond(bid) is not None and mentions(f.branch_cond(bid), "__MAX_STRING_LENGTH__")]
                zero_edges = set()
                for bid in f.reachable():
                    c = f.branch_cond(bid)
                    if c is None:
                        continue
                    e0, t0 = normalize_cond(c, True)
                    if strip(e0).get("k") == "Ref" and strip(e0).get("n") in names:
                        s0 = f.blocks[bid].succ[1] if t0 else f.blocks[bid].succ[0]
                        if s0 is not None:
                            zero_edges.add((bid, s0))
                if tests_ and f.reach_avoiding([f.entry], lambda blk, bb=b.id: blk.id == bb, avoid_blocks=tests_, avoid_edges=zero_edges) is None:
                    g = (f.branch_cond(tests_[0]), False)
            ok = g is not None
            why = "string of length `%s` allocated %s" % (grow[:50], ("under `%s`" % show(g[0])[:70]) if ok else "without a comparison against MaxStringLength")
            if ok:
                # a bound applied to a product of unbounded operands wraps
                c0 = strip(g[0])
                for x in walk(c0):
                    if x.get("k") == "Bin" and x.get("op") == "*" and const_val(x["L"]) is None and const_val(x["R"]) is None and not mentions(x, "__MAX_STRING_LENGTH__"):
                        ok = False
                        why = "the limit test `%s` bounds a product whose operands are not bounded individually: it wraps for huge factors" % show(c0)[:70]
            run.ob("C04-e", inst, ok, why, f.file, n.get("l"), f.name, what="%s builds a string %s" % (f.name, "whose size test can wrap" if g is not None else "without the MaxStringLength limit"))
    run.extra["raw_allocation_sites"] = nsite

    # ---- C04-f a refused save_context() is a depth-limit condition: errors raised for it carry the limit flag
    run.rule("C04-f", "where save_context() refuses (control stack full) and the caller raises an LPC error for it, set_error_state(ES_STACK_FULL) precedes the raise - otherwise an enclosing catch() swallows the depth error; callers that return instead are listed", 1)
    nref = 0
    for f in sorted(prog.functions(), key=lambda x: (x.file, x.line)):
        for bid in sorted(f.reachable()):
            c = f.branch_cond(bid)
            if c is None or not any(x.get("k") == "Call" and x.get("fn") == "save_context" for x in walk(c)):
                continue
            c0, t0 = normalize_cond(c, True)
            blk = f.blocks[bid]
            refused = blk.succ[1] if t0 else blk.succ[0]     # save_context() == 0
            accepted = blk.succ[0] if t0 else blk.succ[1]
            # raises reachable on the refusal edge before joining the accepted path
            region = cfgq.reach_set(f, [refused], avoid_blocks=[accepted])
            raises = [(b, i, n) for b, i, n in f.calls("error") if b.id in region and f.dominates(refused, b.id)]
            if not raises:
                continue
            nref += 1
            run.saw(f)
            for j, (b, i, n) in enumerate(raises):
                flagged = any(n2.get("fn") == "set_error_state" and b2.id in region and f.point_dominates((b2.id, i2), (b.id, i)) and f.dominates(refused, b2.id) for b2, i2, n2 in f.calls("set_error_state"))
                run.ob("C04-f", "refused-context:%s:%s:%d" % (rel(f.file), f.name, j), flagged, "error() for a refused save_context() is preceded by set_error_state()" if flagged else
                       "error() at line %s reports the full control stack without marking it as a limit error: catch() one level up catches it and evaluation continues at MaxCallDepth" % n.get("l"), f.file, n.get("l"), f.name,
                       what="%s raises a catchable error when the control stack is full" % f.name)
    run.need(nref >= 1, "callers that raise on a refused save_context() (found %d)" % nref)

    # ---- C04-g the limit-error state kept across a call that re-enters the error path lives in the activation
    run.rule("C04-g", "set_error_state(V) with V read from static storage S: no store to S in the same activation is separated from this read by a call that can (transitively, through LPC code and error()) reach a writer of S - a nested activation overwrites S and the outer one restores the nested error's state (no limit flag), so do_catch() lets catch() swallow the limit error; values kept in automatic storage are not affected", 2)
    cg = callgraph.CallGraph(prog)
    ng = 0
    for f in sorted(prog.functions(), key=lambda x: (x.file, x.line)):
        for b, i, n in f.calls("set_error_state"):
            args = n.get("args") or []
            if not args or const_val(args[0]) is not None:
                continue
            refs = [x for x in walk(args[0]) if x.get("k") == "Ref" and x.get("d") in ("static", "global", "slocal", "local", "param")]
            if not refs:
                continue
            ng += 1
            run.saw(f)
            nth = sum(1 for b0, i0, n0 in f.calls("set_error_state") if (n0.get("l"), b0.id, i0) < (n.get("l"), b.id, i) and show((n0.get("args") or [{}])[0]) == show(args[0]))
            inst = "restore:%s:%s:%s:%d" % (rel(f.file), f.name, show(args[0])[:30], nth)
            shared = [x for x in refs if x.get("d") in ("static", "global", "slocal")]
            if not shared:
                run.ob("C04-g", inst, True, "set_error_state(%s): the value is kept in the activation (automatic storage)" % show(args[0])[:40], f.file, n.get("l"), f.name)
                continue
            bad = None
            for sref in shared:
                S = sref.get("n")
                def is_store(x, S=S):
                    return x.get("k") == "Asg" and strip(x["L"]).get("k") == "Ref" and strip(x["L"]).get("n") == S and strip(x["L"]).get("d") in ("static", "global", "slocal")
                writers = {g.name for g in prog.functions() if any(is_store(x) for _, _, x in g.nodes())}
                reach_w = cg.reaches(writers)
                stores = [(b1, i1) for b1, i1, x in f.nodes() if is_store(x)]
                for b1, i1 in stores:
                    after_store = cfgq.reach_set(f, b1.live_succ())
                    for b2, i2, c in f.calls():
                        if c is n or not (cg.callees_of_call(f, c) & reach_w):
                            continue
                        # store -> call
                        if not ((b2.id == b1.id and i2 > i1) or b2.id in after_store):
                            continue
                        # call -> read
                        after_call = cfgq.reach_set(f, b2.live_succ())
                        if (b.id == b2.id and i > i2) or b.id in after_call:
                            bad = "`%s` is stored at line %s, %s() at line %s can re-enter %s (writers of %s: %s), and the value read back at line %s is the nested activation's" % (
                                S, f.blocks[b1.id].el[i1].get("l"), c.get("fn") or "(indirect)", c.get("l"), "/".join(sorted(writers & reach_w))[:60], S, sorted(writers), n.get("l"))
                            break
                    if bad:
                        break
                if bad:
                    break
            run.ob("C04-g", inst, not bad, "set_error_state(%s): no re-entering call between a store in this activation and the read" % show(args[0])[:40] if not bad else bad, f.file, n.get("l"), f.name,
                   what="%s restores the limit-error state from storage that a nested error overwrites: catch() swallows the limit error (%s)" % (f.name, bad))
    run.need(ng >= 2, "set_error_state() calls with a saved value (found %d)" % ng)

    # ---- C04-h a budget overrun that ends in a protected call does not leave the calling LPC code a renewed budget
    run.rule("C04-h", "eval_instruction renews eval_cost when the budget runs out so that the error can be reported; when that error ends in a recovery point reachable from LPC code (protected calls: safe_apply, safe_call_function_pointer) the calling evaluation continues, so the recovery branch cuts eval_cost to its last tick, under a condition that can hold there: error_handler() clears the limit-error state before every jump to a recovery point that is not a catch, so a test of that state on such a branch is always false", 3)
    import ctxstate
    eh = run.need(prog.func("error_handler"), "error_handler")
    run.saw(eh)
    # (b) the clear before non-catch jumps
    ljs = [(b, i, n) for b, i, n in eh.calls() if n.get("fn") in ("longjmp", "_longjmp", "siglongjmp")]
    run.need(ljs, "longjmp in error_handler")
    clears = {b.id for b, i, n in eh.calls("clear_error_state")}
    noncatch_cleared = True
    nnc = 0
    for b, i, n in ljs:
        is_catch = any(facts.any_in_macro(c, "FRAME_CATCH") and t for c, t, gb in cfgq.guards(eh, b.id))
        if is_catch:
            continue
        nnc += 1
        p = eh.reach_avoiding([eh.entry], lambda blk, target=b.id: blk.id == target, avoid_blocks=clears - {b.id})
        inblock = any(b2.id == b.id and i2 < i for b2, i2, n2 in eh.calls("clear_error_state"))
        okc = (p is None and b.id not in clears) or inblock or (b.id in clears and inblock)
        if not okc:
            noncatch_cleared = False
        run.ob("C04-h", "cleared-before-jump:%d" % nnc, okc, "clear_error_state() precedes the longjmp at line %s (recovery point that is not a catch) on every path" % n.get("l") if okc else
               "the longjmp at line %s to a recovery point that is not a catch can be reached with the limit-error state still set (path %s): the next catch() refuses an ordinary error" % (n.get("l"), p),
               eh.file, n.get("l"), "error_handler", what="error_handler leaves the limit-error state set when the error ends in a non-catch recovery point")
    run.need(nnc >= 1, "non-catch longjmp exits of error_handler (found %d)" % nnc)
    # (a) LPC-reachable recovery points
    lpc_reach = cg.reachable_from(["eval_instruction"])
    nrec = 0
    for f in sorted(prog.functions(), key=lambda x: (x.file, x.line)):
        if f.name in ("save_context", "do_catch") or f.noreturn or f.name == "fatal" or f.name not in lpc_reach:
            continue
        if not any(True for _ in f.calls("save_context")):
            continue
        sj_true = []
        for b, i, n in f.calls():
            if n.get("fn") in ctxstate.SETJMP:
                c = f.branch_cond(b)
                if c is None:
                    continue
                e, t = normalize_cond(c, True)
                e0 = strip(e)
                nz = t
                if e0.get("k") == "Bin" and e0.get("op") in ("==", "!=") and const_val(e0["R"]) == 0:
                    nz = t if e0["op"] == "!=" else not t
                sj_true.append((b.id, b.succ[0] if nz else b.succ[1], b.succ[1] if nz else b.succ[0]))
        if not sj_true:
            continue
        nrec += 1
        run.saw(f)
        sjb, rec0, norm0 = sj_true[0]
        normal = cfgq.reach_set(f, [norm0]) if norm0 is not None else set()
        rec_only = {x for x in cfgq.reach_set(f, [rec0]) if x not in normal} if rec0 is not None else set()
        cuts = [(b, i, n) for b, i, n in f.nodes() if b.id in rec_only and n.get("k") == "Asg" and n.get("op") == "=" and strip(n["L"]).get("n") == "eval_cost" and const_val(n["R"]) is not None and const_val(n["R"]) <= 1]
        inst = "recovery-budget:%s:%s" % (rel(f.file), f.name)
        if not cuts:
            run.ob("C04-h", inst, False, "%s is a recovery point reachable from LPC code; its recovery branch does not cut eval_cost: after a 'Too long evaluation' that ends here the calling evaluation continues with the renewed budget" % f.name,
                   f.file, f.line, f.name, what="%s lets the calling LPC evaluation go on with a renewed budget after an eval-cost error" % f.name)
            continue
        b, i, n = cuts[0]
        dead = None
        unknown = []
        for c, t, gb in cfgq.guards(f, b.id):
            if gb not in rec_only and gb != sjb:
                continue
            if gb == sjb:
                continue
            reads_state = any((x.get("k") == "Call" and x.get("fn") == "get_error_state") or (x.get("k") == "Ref" and x.get("n") == "error_state") for x in walk(c))
            if reads_state and t and noncatch_cleared:
                dead = show(c)[:80]
            elif not reads_state:
                names = {x.get("n") for x in walk(c) if x.get("k") == "Ref"} | {x.get("f") for x in walk(c) if x.get("k") == "Mem"}
                if not (names & {"eval_cost"}) and not (names & {"save_csp", "control_stack", "csp"}):
                    unknown.append(show(c)[:60])
        verdict = False if dead else (None if unknown else True)
        run.ob("C04-h", inst, verdict,
               "the recovery branch stores eval_cost = %s under `%s`, which is always false there: error_handler() cleared the limit-error state before the jump" % (const_val(n["R"]), dead) if dead else
               ("the recovery branch stores eval_cost = %s under a condition this rule does not read (%s)" % (const_val(n["R"]), "; ".join(unknown)) if unknown else
                "the recovery branch cuts eval_cost to %s under a condition on the budget / the frame depth" % const_val(n["R"])),
               f.file, n.get("l"), f.name, what="%s: the cut of the renewed budget is guarded by a test that cannot hold on the recovery branch" % f.name)
    run.need(nrec >= 2, "recovery points reachable from LPC code (found %d)" % nrec)
