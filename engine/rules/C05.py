"""C05 — after any LPC error the machine state is what it was before the failed call.

C05-a  typestate of every error_context_t user (save -> setjmp -> [restore] -> pop)
C05-b  save/restore field agreement (save_context vs restore/pop_context; push vs pop_control_stack)
C05-c  error_handler: guards reset before any longjmp; recursion flags not left set at a longjmp
C05-d  set-call-reset of driver statics around raising calls (compile_file's re-entrancy guard)
C05-e  the catch path hands the error text to catch_value before jumping"""
import facts
import cfgq
import callgraph
import ctxstate
from core import rel
from dataflow import solve
from facts import strip, show, walk, const_val, normalize_cond, atom_of

# functions whose save_context() result need not be tested: called only from the driver's top level,
# where the control stack is empty, so the "too deep" refusal cannot occur
SHALLOW = {
    "backend": "driver main loop, entered from main() with an empty control stack",
    "main": "process entry",
    "preload_objects": "called from main() before the backend loop",
    "look_for_objects_to_swap": "called from call_heart_beat at the top of the backend loop",
    "call_out": "called from call_heart_beat at the top of the backend loop",
    "init_master": "start-up",
    "init_simul_efun": "start-up",
}
# calls allowed between a successful save_context and setjmp (one reason each)
UNARMED_OK = {
    "push_control_stack": "save_context just applied the identical depth test, so its 'Too deep recursion' branch is infeasible",
}


# callees that consume N values from the LPC value stack: name -> index of the count argument
STACK_CONSUMERS = {"apply": 2, "apply_low": 2, "safe_apply": 2, "call_function_pointer": 1, "safe_call_function_pointer": 1,
                   "apply_master_ob": 1, "safe_apply_master_ob": 1, "pop_n_elems": 0, "call_function": 2}


def check(run, prog, tier):
    run.rule("C05-a", "error_context_t typestate: no raising call while saved-but-unarmed or before restore_context on the jump branch; every exit popped; no double save; save result tested unless shallow", 30)
    run.rule("C05-b", "save/restore field agreement: fields written by save_context are consumed by restore/pop_context; registers saved by push_control_stack are restored by pop_control_stack, each from its own field and unconditionally", 3)
    run.rule("C05-c", "error_handler: reset_destruct_object_limits and reset_load_object_limits dominate every longjmp; in_error/in_mudlib_error_handler are not left set at any longjmp", 4)
    run.rule("C05-d", "a static re-entrancy guard set around raising calls is cleared on the error path (error_handler resets it or a recovery point surrounds the calls)", 1)
    run.rule("C05-f", "protected-call wrappers (safe_apply, safe_call_function_pointer, ...) consume their stacked arguments on every path, including the recovery branch", 2)
    run.rule("C05-e", "catch path: catch_value receives a copy of the error text before the jump to do_catch", 1)

    cg = callgraph.CallGraph(prog)
    eff = callgraph.Effects(cg)
    run.extra["indirect_calls_unresolved"] = [list(x) for x in cg.unresolved]

    wr = ctxstate.find_restore_wrappers(prog)
    run.note("restore_context wrappers (all paths restore their context parameter): %s" % (sorted(wr) or "none"))
    users = []
    for f in prog.functions():
        if f.name in ("save_context", "restore_context", "pop_context"):
            continue
        if any(True for _ in f.calls("save_context")):
            users.append(f)
    run.need(len(users) >= 8, "error_context_t users (found %d)" % len(users))

    for f in sorted(users, key=lambda x: (x.file, x.line)):
        run.saw(f)
        a = ctxstate.CtxAnalysis(f, eff).run()
        base = "ctx:%s:%s" % (rel(f.file), f.name)
        nsave = ncall = 0
        exits_bad = []
        for kind, v, blk, idx, n, cur in a.events:
            if kind == "save":
                inst = "%s:%s:save:%d" % (base, v[0], nsave)
                nsave += 1
                # (5) double save
                dbl = cur & {"saved", "armed", "jumped", "recovered"}
                run.ob("C05-a", inst + ":nodouble", not dbl, "save_context(&%s) entered in states %s" % (v[0], sorted(cur)), f.file, n.get("l"), f.name,
                       what="save_context on an already registered context in %s" % f.name)
                # (1) result tested?
                tested = False
                c = f.branch_cond(blk)
                if c is not None:
                    for x in walk(c):
                        if x.get("k") == "Call" and x.get("fn") == "save_context":
                            tested = True
                ok = tested or f.name in SHALLOW
                run.ob("C05-a", inst + ":result", ok, "result tested" if tested else ("untested; " + SHALLOW.get(f.name, "function is not in the shallow-stack table")),
                       f.file, n.get("l"), f.name, what="save_context result ignored in %s (refusal leaves the context unregistered)" % f.name)
            elif kind == "call":
                fn = n.get("fn") or show(n.get("fe"))
                mr = eff.call_may_raise(f, n)
                if not mr:
                    continue
                inst = "%s:%s:call:%d:%s" % (base, v[0], ncall, fn)
                ncall += 1
                if "saved" in cur and fn not in UNARMED_OK:
                    chain = callgraph.why(cg, fn, callgraph.RAISE_SEEDS | {"<unknown>"}, callgraph.CATCH_BARRIERS) if n.get("fn") else None
                    run.ob("C05-a", inst, False, "%s may raise (%s) while %s is saved but its jmp_buf is not armed (states %s)" % (fn, " -> ".join(chain or [fn]), v[0], sorted(cur)),
                           f.file, n.get("l"), f.name, what="%s: %s can raise before setjmp arms the context" % (f.name, fn))
                elif "jumped" in cur:
                    run.ob("C05-a", inst, False, "%s may raise on the recovery branch before restore_context(&%s)" % (fn, v[0]), f.file, n.get("l"), f.name,
                           what="%s: raising call on the jump branch before restore_context" % f.name)
                elif cur == frozenset(["recovered"]) and n.get("nr") and n.get("fn") in ("error", "error_handler", "throw_error"):
                    run.ob("C05-a", inst, False, "%s re-raises on the recovery branch while %s is still the current context (no pop_context first): the jump lands in the same recovery point" % (fn, v[0]),
                           f.file, n.get("l"), f.name, what="%s: re-raise without pop_context" % f.name)
                else:
                    why = UNARMED_OK.get(fn) if "saved" in cur else "context armed"
                    run.ob("C05-a", inst, True, "%s may raise; %s (states %s)" % (fn, why, sorted(cur)), f.file, n.get("l"), f.name)
            elif kind in ("setjmp", "pop") and "jumped" in cur:
                run.ob("C05-a", "%s:%s:%s-unrestored" % (base, v[0], kind), False, "%s reached on the recovery branch without restore_context(&%s): value/control stacks keep the failed evaluation's frames" % (kind, v[0]),
                       f.file, n.get("l"), f.name, what="%s: recovery branch never calls restore_context" % f.name)
            elif kind in ("return", "exit"):
                for v2, s in cur.items():
                    if s & {"saved", "armed", "jumped", "recovered"}:
                        exits_bad.append((v2[0], sorted(s), n.get("l") if n else f.line_of_block(blk.id)))
        for v in a.vars:
            bad = [e for e in exits_bad if e[0] == v[0]]
            run.ob("C05-a", "%s:%s:exits" % (base, v[0]), not bad,
                   "every return leaves %s popped or never saved" % v[0] if not bad else "return at line(s) %s with %s still registered (states %s)" % (sorted({b[2] for b in bad}), v[0], bad[0][1]),
                   f.file, bad[0][2] if bad else f.line, f.name, what="%s returns without pop_context" % f.name)

    # ---- C05-f argument consumption on every path of the protected-call wrappers
    for f in sorted(users, key=lambda x: (x.file, x.line)):
        for p in f.params:
            if p.get("t") != "int":
                continue
            consumers = set()
            is_count = False
            for b, i, n in f.calls():
                ci = STACK_CONSUMERS.get(n.get("fn"))
                if ci is None and n.get("fn") in ctxstate.RESTORE_WRAPPERS:
                    ci = ctxstate.RESTORE_WRAPPERS[n["fn"]]["lower"]      # restore to the saved level minus the arguments
                if ci is None or ci >= len(n.get("args", [])):
                    continue
                a = strip(n["args"][ci])
                if a.get("k") == "Ref" and a.get("d") == "param" and a.get("pi") == p.get("pi"):
                    consumers.add(b.id)
                    if n.get("fn") != "pop_n_elems" and n.get("fn") not in ctxstate.RESTORE_WRAPPERS:
                        is_count = True
            if not is_count:
                continue
            # start after a successful save_context
            starts = []
            for b, i, n in f.calls("save_context"):
                c = f.branch_cond(b)
                if c is not None and any(x.get("fn") == "save_context" for x in walk(c) if x.get("k") == "Call"):
                    e, t = normalize_cond(c, True)
                    # successor taken when save_context(...) is non-zero
                    starts.append(b.succ[0] if t else b.succ[1])
                else:
                    starts.extend(b.live_succ())
            starts = [s0 for s0 in starts if s0 is not None]
            path = f.reach_avoiding(starts, lambda blk: f.exit in blk.live_succ() and not blk.nr, avoid_blocks=consumers)
            # on the recovery branch the number of arguments still on the stack is unknown (the callee keeps, drops or
            # re-packs them): popping the original count there releases values of the caller
            sj_true = []
            for b, i, n in f.calls():
                if n.get("fn") in ctxstate.SETJMP:
                    c = f.branch_cond(b)
                    if c is not None:
                        e, t = normalize_cond(c, True)
                        e0 = strip(e)
                        nz = t
                        if e0.get("k") == "Bin" and e0.get("op") in ("==", "!=") and const_val(e0["R"]) == 0:
                            nz = t if e0["op"] == "!=" else not t
                        sj_true.append(b.succ[0] if nz else b.succ[1])
            if sj_true:
                rec_blocks = cfgq.reach_set(f, [x for x in sj_true if x is not None])
                badpop = [n for b, i, n in f.calls("pop_n_elems") if b.id in rec_blocks and n.get("args") and strip(n["args"][0]).get("k") == "Ref" and strip(n["args"][0]).get("d") == "param" and strip(n["args"][0]).get("pi") == p.get("pi")]
                # only pops that are not also reachable from the normal (zero) return of setjmp
                sj_false = []
                for b, i, n in f.calls():
                    if n.get("fn") in ctxstate.SETJMP and f.branch_cond(b) is not None:
                        sj_false += [x for x in b.live_succ() if x not in sj_true]
                ok_blocks = cfgq.reach_set(f, sj_false) if sj_false else set()
                badpop = [n for n in badpop if not any(b.id in ok_blocks for b, i, n2 in f.calls("pop_n_elems") if n2 is n)]
                run.ob("C05-f", "recovery-pop:%s:%s" % (rel(f.file), f.name), not badpop,
                       "the recovery branch does not pop the original argument count" if not badpop else
                       "pop_n_elems(%s) at line %s on the recovery branch: how many of the arguments are left when the error is raised depends on the callee (excess ones dropped, varargs packed, bound arguments added) - values of the caller are released or the stack underflows" % (p["n"], badpop[0].get("l")),
                       f.file, badpop[0].get("l") if badpop else f.line, f.name, what="%s pops its full argument count after a failed call whose callee may already have dropped arguments" % f.name)
            run.ob("C05-f", "args:%s:%s:%s" % (rel(f.file), f.name, p["n"]), path is None,
                   "every path after a successful save_context consumes the %s stacked arguments (callee or pop_n_elems)" % p["n"] if path is None
                   else "path %s returns without consuming the %s stacked arguments (value stack not restored)" % (path, p["n"]),
                   f.file, f.line, f.name, what="%s: a path returns leaving its %s arguments on the value stack" % (f.name, p["n"]))

    # ---- C05-b field agreement
    def fields_written(f, rec, via_param=None):
        out = set()
        for b, i, n in f.nodes():
            if n.get("k") == "Asg":
                l = strip(n["L"])
                if l.get("k") == "Mem" and l.get("rec") == rec:
                    out.add(l["f"])
        return out

    def fields_read(f, rec):
        out = set()
        for b, i, e in f.elements():
            for n in walk(e):
                if n.get("k") == "Mem" and n.get("rec") == rec:
                    out.add(n["f"])
        # subtract pure writes
        wr = set()
        for b, i, n in f.nodes():
            if n.get("k") == "Asg" and n.get("op") == "=":
                l = strip(n["L"])
                if l.get("k") == "Mem" and l.get("rec") == rec:
                    wr.add(id(l))
        out2 = set()
        for b, i, e in f.elements():
            for n in walk(e):
                if n.get("k") == "Mem" and n.get("rec") == rec and id(n) not in wr:
                    out2.add(n["f"])
        return out2

    sc = run.need(prog.func("save_context"), "save_context")
    rc = run.need(prog.func("restore_context"), "restore_context")
    pc = run.need(prog.func("pop_context"), "pop_context")
    rec = "error_context_s"
    w = fields_written(sc, rec)
    if not w:
        rec = "error_context_t"
        w = fields_written(sc, rec)
    r = fields_read(rc, rec) | fields_read(pc, rec)
    run.need(w, "fields written by save_context")
    run.ob("C05-b", "ctx-fields", w == r, "save_context writes %s; restore_context/pop_context consume %s" % (sorted(w), sorted(r)), sc.file, sc.line, "save_context",
           what="a field saved by save_context is not restored (or vice versa): %s" % sorted(w ^ r))
    pu = run.need(prog.func("push_control_stack"), "push_control_stack")
    po = run.need(prog.func("pop_control_stack"), "pop_control_stack")
    crec = "control_stack_s"
    w2 = fields_written(pu, crec)
    if not w2:
        crec = "control_stack_t"
        w2 = fields_written(pu, crec)
    r2 = fields_read(po, crec)
    run.need(w2, "fields written by push_control_stack")
    w2m = w2 - {"framekind"}  # the frame kind is consumed by the unwinder (error_handler/do_catch), not a register
    run.ob("C05-b", "frame-fields", w2m <= r2, "push_control_stack saves %s; pop_control_stack restores %s" % (sorted(w2m), sorted(r2 & w2m)), pu.file, pu.line, "push_control_stack",
           what="register(s) saved by push_control_stack but not restored by pop_control_stack: %s" % sorted(w2m - r2))

    # the value stack is unwound by a count that cannot be negative: inside the apply family the context is saved with the
    # arguments on the stack, and a callee that fails may already have dropped some of them (sp below save_sp)
    # econ->save_sp, or a local that was loaded from it
    sp_alias = {v.get("id") for b, i, n in rc.nodes() if n.get("k") == "Decl" for v in n.get("vars", ()) if isinstance(v.get("init"), dict) and strip(v["init"]).get("k") == "Mem" and strip(v["init"]).get("f") == "save_sp"}
    sp_alias |= {strip(n["L"]).get("id") for b, i, n in rc.nodes() if n.get("k") == "Asg" and n.get("op") == "=" and strip(n["L"]).get("k") == "Ref" and strip(n["R"]).get("k") == "Mem" and strip(n["R"]).get("f") == "save_sp"}
    sp_alias.discard(None)

    def is_saved_sp(x):
        return (x.get("k") == "Mem" and x.get("f") == "save_sp") or (x.get("k") == "Ref" and x.get("id") in sp_alias)
    pops = [(b, i, n) for b, i, n in rc.calls("pop_n_elems") if n.get("args") and any(is_saved_sp(x) for x in walk(n["args"][0]))]
    run.need(pops, "pop_n_elems(sp - econ->save_sp) in restore_context")
    for j, (b, i, n) in enumerate(pops):
        g_ok = False
        for c, truth, gb in cfgq.guards(rc, b.id):
            e, t = normalize_cond(c, truth)
            e = strip(e)
            if e.get("k") == "Bin" and e.get("op") in (">", ">=", "<", "<=") and any(is_saved_sp(x) for x in walk(e)) and any(x.get("k") == "Ref" and x.get("n") == "sp" for x in walk(e)):
                op = e["op"] if t else {">": "<=", ">=": "<", "<": ">=", "<=": ">"}[e["op"]]
                sp_left = any(x.get("k") == "Ref" and x.get("n") == "sp" for x in walk(e["L"]))
                if (sp_left and op in (">", ">=")) or (not sp_left and op in ("<", "<=")):
                    g_ok = True
        run.ob("C05-b", "restore-pop-count:%d" % j, g_ok, "pop_n_elems(%s) runs only when sp is not below the saved level" % show(n["args"][0]) if g_ok else
               "pop_n_elems(%s) is not guarded by sp > save_sp: a callee of a protected call that dropped excess arguments before failing leaves sp below the saved level and the (unsigned) count wraps" % show(n["args"][0]),
               rc.file, n.get("l"), "restore_context", what="restore_context unwinds the value stack by a negative count when the failed callee had dropped arguments")

    # the restore is a pair-wise inverse and unconditional: restore_context() pops only the frame at save_csp + 1 and relies on
    # that single pop to bring back every register, whatever kind of frame it is
    saved = {}   # field -> global register
    for b, i, n in pu.nodes():
        if n.get("k") == "Asg" and n.get("op") == "=" and strip(n["L"]).get("k") == "Mem" and strip(n["L"]).get("rec") == crec and strip(n["R"]).get("k") == "Ref" and strip(n["R"]).get("d") in ("global", "static"):
            saved[strip(n["L"])["f"]] = strip(n["R"])["n"]
    run.need(len(saved) >= 6, "register/field pairs in push_control_stack (found %d)" % len(saved))
    pd = po.pdom()
    bad = []
    for fld, reg in sorted(saved.items()):
        sites = [(b, i, n) for b, i, n in po.nodes() if n.get("k") == "Asg" and n.get("op") == "=" and strip(n["L"]).get("k") == "Ref" and strip(n["L"]).get("n") == reg
                 and strip(n["R"]).get("k") == "Mem" and strip(n["R"]).get("f") == fld and strip(n["R"]).get("rec") == crec]
        if not sites:
            bad.append("%s is not restored from csp->%s" % (reg, fld))
            continue
        # unconditional: the restoring block post-dominates the function entry
        def postdominates(a, b_):
            x = b_
            seen = set()
            while x is not None and x not in seen:
                if x == a:
                    return True
                seen.add(x)
                x = pd.get(x)
            return False
        if not any(postdominates(b.id, po.entry) for b, i, n in sites):
            bad.append("%s = csp->%s (line %s) is conditional: some frame kinds are popped without restoring it" % (reg, fld, sites[0][2].get("l")))
    run.ob("C05-b", "frame-restore-unconditional", not bad, "every register saved by push_control_stack (%s) is restored by pop_control_stack on every path" % ", ".join(sorted(saved.values())) if not bad else "; ".join(bad),
           po.file, po.line, "pop_control_stack", what="pop_control_stack: %s - after error recovery (which pops a single catch/fake frame) the interpreter continues with the failing callee's register" % "; ".join(bad))

    # ---- C05-c error_handler
    eh = run.need(prog.func("error_handler"), "error_handler")
    run.saw(eh)
    ljs = [(b, i, n) for b, i, n in eh.calls() if n.get("fn") in ("longjmp", "_longjmp", "siglongjmp")]
    run.need(ljs, "longjmp in error_handler")
    for gname in ("reset_destruct_object_limits", "reset_load_object_limits"):
        gb = [b.id for b, i, n in eh.calls(gname)]
        bad = [n.get("l") for b, i, n in ljs if not any(eh.dominates(g, b.id) for g in gb)]
        run.ob("C05-c", "reset:" + gname, bool(gb) and not bad, "%s dominates all %d longjmp sites" % (gname, len(ljs)) if gb and not bad else "longjmp at line(s) %s not dominated by %s" % (bad, gname),
               eh.file, eh.line, "error_handler", what="error_handler can jump without %s" % gname)
    # the pending count of a `...` expansion belongs to the call that failed: it is dropped before any LPC code runs again
    # (the mudlib error handler is called from here, before the jump)
    vr = [(b.id, i) for b, i, n in eh.nodes() if n.get("k") == "Asg" and n.get("op") == "=" and strip(n["L"]).get("k") == "Ref" and strip(n["L"]).get("n") == "num_varargs" and const_val(n["R"]) == 0]
    lpc_first = [(b, i, n) for b, i, n in eh.calls() if n.get("fn") in ("longjmp", "_longjmp", "siglongjmp", "mudlib_error_handler", "apply_master_ob", "safe_apply_master_ob")]
    badv = [n.get("l") for b, i, n in lpc_first if not any(eh.point_dominates(p, (b.id, i)) for p in vr)]
    run.ob("C05-c", "reset:num_varargs", bool(vr) and not badv, "num_varargs = 0 precedes the mudlib error handler and every longjmp (%d sites)" % len(lpc_first) if vr and not badv else
           ("error_handler never clears num_varargs" if not vr else "line(s) %s are reached with a pending `...` count" % badv) + ": an error raised between F_EXPAND_VARARGS and its call instruction (depth limit, undefined function, the eval-cost tick) hands the count to the next call - master::error_handler() or the next evaluation gets extra arguments",
           eh.file, eh.line, "error_handler", what="a pending varargs expansion count survives an error")

    # the same holds for every other function of the unit that jumps to the current recovery point itself (throw_error:
    # a thrown value leaves load_object()/destruct_object() exactly like an error does)
    ecu = prog.unit("src/error_context.c")
    for g in sorted(ecu.funcs.values(), key=lambda x: x.line):
        if g.name == "error_handler" or not g.file.endswith("error_context.c"):
            continue
        gl = [(b, i, n) for b, i, n in g.calls() if n.get("fn") in ("longjmp", "_longjmp", "siglongjmp") and "current_error_context" in show(n["args"][0])]
        if not gl:
            continue
        run.saw(g)
        for gname in ("reset_destruct_object_limits", "reset_load_object_limits"):
            gb = [b.id for b, i, n in g.calls(gname)]
            bad = [n.get("l") for b, i, n in gl if not any(g.dominates(x, b.id) for x in gb)]
            run.ob("C05-c", "reset:%s:%s" % (g.name, gname), bool(gb) and not bad, "%s dominates the jump(s) of %s()" % (gname, g.name) if gb and not bad else
                   "%s() jumps to the current recovery point at line %s without %s: a value thrown out of create()/move_or_destruct() leaves the load/destruct guards set" % (g.name, bad or [n.get("l") for b, i, n in gl], gname),
                   g.file, g.line, g.name, what="%s can jump without %s" % (g.name, gname))
    # flags: constant propagation {entry, 0, 1}
    flags = ("in_error", "in_mudlib_error_handler")

    def tr(record):
        def t(blk, st):
            for i, e in enumerate(blk.el):
                for n in walk(e, True):
                    if n.get("k") == "Asg" and n.get("op") == "=":
                        l = strip(n["L"])
                        if l.get("k") == "Ref" and l.get("n") in flags:
                            cv = const_val(n["R"])
                            st = dict(st)
                            st[l["n"]] = frozenset([cv if cv in (0, 1) else "?"])
                    elif n.get("k") == "Call" and n.get("fn") in ("longjmp", "_longjmp", "siglongjmp") and record is not None:
                        record.append((blk, n, dict(st)))
            return st
        return t

    def edge(blk, idx, succ, st):
        c = eh.branch_cond(blk)
        if c is None:
            return st
        e, t = normalize_cond(c, idx == 0)
        e = strip(e)
        if e.get("k") == "Ref" and e.get("n") in flags:
            cur = st.get(e["n"])
            new = set()
            for v in cur:
                if v == "entry":
                    new.add(1 if t else 0)
                elif v in (0, 1):
                    if bool(v) == t:
                        new.add(v)
                else:
                    new.add(v)
            if not new:
                return None
            st = dict(st)
            st[e["n"]] = frozenset(new)
        return st

    def join(a, b):
        return {k: a.get(k, frozenset()) | b.get(k, frozenset()) for k in set(a) | set(b)}
    init = {fl: frozenset(["entry"]) for fl in flags}
    ins = solve(eh, init, tr(None), edge, join)
    rec_l = []
    t2 = tr(rec_l)
    for b in sorted(eh.reachable(), reverse=True):
        if b in ins:
            t2(eh.blocks[b], ins[b])
    for j, (blk, n, st) in enumerate(sorted(rec_l, key=lambda x: x[1].get("l", 0))):
        for fl in flags:
            vals = st.get(fl, frozenset())
            ok = not (vals & {1, "?"})
            run.ob("C05-c", "flag:%s:longjmp%d" % (fl, j), ok, "%s ∈ %s at longjmp (line %s)" % (fl, sorted(map(str, vals)), n.get("l")), eh.file, n.get("l"), "error_handler",
                   what="error_handler jumps out with %s still set: later errors are treated as nested" % fl)

    # ---- C05-e
    cv_ok, cv_why = False, "no assignment of the error text to catch_value before the catch longjmp"
    for b, i, n in eh.nodes():
        if n.get("k") == "Asg":
            l = strip(n["L"])
            if show(l) == "catch_value.u.string":
                r0 = strip(n["R"])
                from_err = any(x.get("k") == "Ref" and x.get("d") == "param" for x in walk(r0))
                for lb, li, ln in ljs:
                    if not (eh.point_dominates((b.id, i), (lb.id, li)) and from_err):
                        continue
                    # catch_value is one global shared by every catch: nothing that can run LPC code (and so
                    # another catch) may execute between building it and the jump
                    region = cfgq.reach_set(eh, [b.id], avoid_blocks=[lb.id]) | {lb.id}
                    lpc = []
                    for b2, i2, n2 in eh.nodes():
                        if n2.get("k") != "Call" or b2.id not in region:
                            continue
                        if b2.id == b.id and i2 <= i:
                            continue
                        if b2.id == lb.id and i2 >= li:
                            continue
                        if not (lb.id == b2.id or lb.id in cfgq.reach_set(eh, [b2.id])):
                            continue
                        if eff.call_may_run_lpc(eh, n2):
                            lpc.append("%s (line %s)" % (n2.get("fn") or show(n2), n2.get("l")))
                    if lpc:
                        cv_why = "LPC code can run between catch_value := err and the jump: %s" % lpc[:4]
                    else:
                        cv_ok, cv_why = True, "catch_value.u.string := copy of err dominates the catch longjmp with no LPC-running call in between"
    run.ob("C05-e", "catch-value", cv_ok, cv_why, eh.file, eh.line, "error_handler", what="catch does not yield the raised message: " + cv_why)

    # ---- C05-d: compile_file's static guard
    cf = run.need(prog.func("compile_file"), "compile_file")
    run.saw(cf)
    sets = []
    for b, i, n in cf.nodes():
        if n.get("k") == "Asg" and n.get("op") == "=":
            l = strip(n["L"])
            if l.get("k") == "Ref" and l.get("d") in ("slocal", "static") and const_val(n["R"]) not in (None, 0):
                sets.append((b, i, n, l))
    for b, i, n, l in sets:
        gname = l["n"]
        # raising calls reachable after the set and before the reset (any assignment of 0 to the same static)
        resets = [(b2.id, i2) for b2, i2, n2 in cf.nodes() if n2.get("k") == "Asg" and strip(n2["L"]).get("n") == gname and const_val(n2["R"]) == 0]
        region = cfgq.reach_set(cf, [b.id], avoid_blocks=[rb for rb, _ in resets if rb != b.id])
        raising = []
        for b3, i3, n3 in cf.nodes():
            if n3.get("k") == "Call" and b3.id in region and (b3.id != b.id or i3 > i) and eff.call_may_raise(cf, n3) and not n3.get("nr"):
                raising.append(n3.get("fn") or show(n3))
        # is the guard cleared on the error path?  error_handler (or a function it calls directly) assigns it 0
        cleared = False
        for g in [eh] + [x for nm in cg.edges.get("error_handler", ()) for x in cg.funcs.get(nm, [])]:
            for b4, i4, n4 in g.nodes():
                if n4.get("k") == "Asg" and strip(n4["L"]).get("n") == gname and const_val(n4["R"]) == 0:
                    cleared = True
        has_ctx = any(True for _ in cf.calls("save_context"))
        ok = (not raising) or cleared or has_ctx
        run.ob("C05-d", "guard:%s:%s:%s" % (rel(cf.file), cf.name, gname), ok,
               "static %s set to %s; raising calls before its reset: %s; cleared on the error path: %s" % (gname, show(n["R"]), sorted(set(raising))[:6], cleared or has_ctx),
               cf.file, n.get("l"), cf.name, what="compile_file's re-entrancy flag '%s' stays set when %s raises: every later compile is refused" % (gname, sorted(set(raising))[:3]))

    # ---- C05-g the limit-error state is only ever set on the way into error()
    run.rule("C05-g", "every set of the limit-error state (set_error_state / error_state |=) is followed on all paths by a raise: the function cannot return normally with the flag set (do_catch consults the flag to decide whether an error may be caught, so a stale flag makes the next ordinary catch() fail)", 5)
    nset = 0
    for f in sorted(prog.functions(), key=lambda x: (x.file, x.line)):
        if f.name in ("set_error_state", "clear_error_state"):
            continue
        sets = [(b, i, n) for b, i, n in f.calls("set_error_state")]
        sets += [(b, i, n) for b, i, n in f.nodes() if n.get("k") == "Asg" and n.get("op") in ("|=", "=") and strip(n["L"]).get("k") == "Ref" and strip(n["L"]).get("n") == "error_state" and const_val(n["R"]) != 0]
        if not sets:
            continue
        run.saw(f)
        ordn = 0
        seen_lines = set()
        for b, i, n in sorted(sets, key=lambda x: (x[2].get("l") or 0, x[0].id)):
            key = (n.get("l"), b.id, i)
            if key in seen_lines:
                continue
            seen_lines.add(key)
            nset += 1
            # can the function's exit be reached from here?
            # within the block: a noreturn call later in the same block ends the path
            blk = f.blocks[b.id]
            ends_here = blk.nr or any(m.get("k") == "Call" and m.get("nr") for e in blk.el[i + 1:] for m in walk(e, True))
            reach_exit = False
            if not ends_here:
                # fatal() never returns (it is not declared noreturn, so the CFG has an edge out of it)
                dead_ends = {b2.id for b2, i2, n2 in f.calls("fatal")} | {x for x in f.reachable() if f.blocks[x].nr}
                reach_exit = f.exit in cfgq.reach_set(f, [s for s in blk.live_succ()], avoid_blocks=dead_ends)
            # instance key without a per-function ordinal for macro-expanded sites (CHECK_STACK ...): use the enclosing label
            label = ""
            if f.name == "eval_instruction":
                sg = cfgq.switch_guard(f, b.id)
                labs = sorted({(l.get("src") or l.get("k")) for l in (sg[1] if sg else []) if l})
                label = ":" + "/".join(labs[:1])
            inst = "limit-flag:%s:%s%s:%d" % (rel(f.file), f.name, label, ordn)
            ordn += 1
            run.ob("C05-g", inst, not reach_exit, "the limit flag set at line %s is followed by a raise on every path" % n.get("l") if not reach_exit else
                   "after the limit flag is set at line %s the function can return normally: no error is in flight but do_catch() will refuse the next catch" % n.get("l"), f.file, n.get("l"), f.name,
                   what="%s leaves the limit-error state set without raising" % f.name)
    run.need(nset >= 5, "sets of the limit-error state (found %d)" % nset)

    # ---- C05-h the limit-error state does not outlive the error it belongs to
    run.rule("C05-h", "error_handler: every exit that delivers the error to a recovery point other than a catch (all longjmps except the catch-frame path) is dominated by clear_error_state(): such recovery points (backend loop, preload, reset) keep their context and never pop it, so nothing else clears the flags do_catch() consults", 2)
    ljs = [(b, i, n) for b, i, n in eh.calls() if n.get("fn") in ("longjmp", "_longjmp", "siglongjmp")]
    run.need(ljs, "longjmp calls in error_handler")
    clears = [(b.id, i) for b, i, n in eh.calls("clear_error_state")] + [(b.id, i) for b, i, n in eh.nodes() if n.get("k") == "Asg" and strip(n["L"]).get("n") == "error_state" and const_val(n["R"]) == 0]
    ordh = 0
    for b, i, n in sorted(ljs, key=lambda x: x[2].get("l") or 0):
        catch_path = any(atom_of(c, t)[0] == "==" and "framekind" in show(c) and (facts.any_in_macro(c, "FRAME_CATCH") or "FRAME_CATCH" in show(c)) for c, t, B in cfgq.guards(eh, b.id))
        if catch_path:
            continue
        ok = any(eh.point_dominates(cp, (b.id, i)) for cp in clears)
        run.ob("C05-h", "limit-state-cleared:%d" % ordh, ok, "longjmp at line %s (non-catch recovery) is preceded by clear_error_state()" % n.get("l") if ok else
               "longjmp at line %s hands the error to a recovery point that may keep its context, with the limit flags still set: the next catch() of an ordinary error is refused" % n.get("l"), eh.file, n.get("l"), "error_handler",
               what="error_handler leaves the eval-cost/call-depth flags set after delivering an uncaught error")
        ordh += 1

    # ---- C05-i efun stack discipline
    import rules.C05i as c05i
    c05i.check(run, prog, tier, cg)

    # ---- C05-j the apply family consumes its arguments on every return path
    run.rule("C05-j", "every function of the apply family (apply, safe_apply, apply_master_ob, safe_apply_master_ob, call_function_pointer, safe_call_function_pointer, call_efun_callback) removes its num_arg arguments from the value stack on every path to a return: it hands num_arg to another member of the family, pops them itself (pop_n_elems(num_arg) / restore_context), or never returns; callers - and the stack model of C05-i - rely on it", 6)
    import rules.C01e as _c01e
    FAM = {k: v for k, v in _c01e.CONSUMES.items() if v is not None}
    FAM["apply_low"] = 2
    nfam = 0
    for name, pi in sorted(FAM.items()):
        g = prog.func(name)
        if g is None:
            continue
        nfam += 1
        run.saw(g)
        pname = None
        for p_ in g.params or []:
            if p_.get("pi") == pi:
                pname = p_.get("n")
        if pname is None:
            run.ob("C05-j", "consumes:%s" % name, None, "%s has no parameter %d" % (name, pi), g.file, g.line, name)
            continue
        consuming = set()
        for b, i, n in g.calls():
            fn = n.get("fn")
            args = n.get("args", [])
            if fn in FAM and len(args) > FAM[fn] and any(x.get("k") == "Ref" and x.get("n") == pname and x.get("d") == "param" for x in walk(args[FAM[fn]])):
                consuming.add(b.id)
            elif fn in ("pop_n_elems",) and args and any(x.get("k") == "Ref" and x.get("n") == pname for x in walk(args[0])):
                consuming.add(b.id)
            elif fn in ctxstate.RESTORE_WRAPPERS and ctxstate.RESTORE_WRAPPERS[fn]["lower"] is not None and len(args) > ctxstate.RESTORE_WRAPPERS[fn]["lower"] \
                    and any(x.get("k") == "Ref" and x.get("n") == pname and x.get("d") == "param" for x in walk(args[ctxstate.RESTORE_WRAPPERS[fn]["lower"]])):
                # restore to the saved level lowered by the arguments: whatever is left of them is released
                consuming.add(b.id)
            elif fn in ("restore_context",):
                # the saved stack pointer predates the arguments only if the context was saved before they were pushed:
                # inside the family the context is saved after, so this does not count
                pass
            elif n.get("nr") or fn in ("fatal",) or fn in callgraph.RAISE_SEEDS:
                consuming.add(b.id)
            elif fn in ("call_program", "eval_instruction", "call_direct", "call_simul_efun", "call_efun") or (fn is None and "efun_table" in str(n.get("fe"))):
                # the callee's frame owns the arguments: F_RETURN (or the efun) removes them
                consuming.add(b.id)
        # stores that move sp below the arguments: sp -= num_arg / sp = fp - 1 style resets in apply_low are via pop_n_elems or callee frames
        for b, i, n in g.nodes():
            if n.get("k") == "Asg" and n.get("op") in ("-=",) and strip(n["L"]).get("n") == "sp" and any(x.get("k") == "Ref" and x.get("n") == pname for x in walk(n["R"])):
                consuming.add(b.id)
        exits = [bid for bid in g.reachable() if g.exit in g.blocks[bid].live_succ() and not g.blocks[bid].nr]
        p = g.reach_avoiding([g.entry], lambda blk: blk.id in exits and blk.id not in consuming, avoid_blocks=consuming) if g.entry not in consuming else None
        run.ob("C05-j", "consumes:%s" % name, p is None, "every return of %s() follows a hand-over or a pop of its %s arguments" % (name, pname) if p is None else
               "path %s returns from %s() with its %s arguments still on the value stack" % (p[:8], name, pname), g.file, g.line, name,
               what="%s() can return without having consumed its arguments: the caller's stack is one frame of arguments too high from then on" % name)
    run.need(nfam >= 6, "apply-family functions (found %d)" % nfam)

    # ---- C05-k the command-giver stack is not held across a call that can raise
    run.rule("C05-k", "save_command_giver()/restore_command_giver() keep a C-side stack that error recovery does not unwind: no call that can raise an error lies between a save and its restore (callers keep the reference on the value stack instead); functions with a recovery point of their own are exempt", 1)
    eff5 = callgraph.Effects(callgraph.CallGraph(prog)) if "eff5" not in dir() else eff5
    nk = 0
    for f in sorted(prog.functions(), key=lambda x: (x.file, x.line)):
        saves = [(b, i, n) for b, i, n in f.calls("save_command_giver")]
        if not saves or f.name in ("save_command_giver", "restore_command_giver"):
            continue
        if any(n.get("fn") in ("setjmp", "_setjmp", "__sigsetjmp", "sigsetjmp") for b, i, n in f.calls()):
            continue
        restores = {b.id for b, i, n in f.calls("restore_command_giver")}
        for j, (b, i, n) in enumerate(saves):
            nk += 1
            run.saw(f)
            region = cfgq.reach_set(f, b.live_succ(), avoid_blocks=restores) | {b.id}
            risky = [(n2.get("fn") or "(*)", n2.get("l")) for b2, i2, n2 in f.calls() if b2.id in region and not (b2.id == b.id and i2 <= i) and n2.get("fn") not in ("restore_command_giver",) and eff5.call_may_raise(f, n2)]
            run.ob("C05-k", "held:%s:%s:%d" % (rel(f.file), f.name, j), not risky, "nothing that can raise runs between save_command_giver() at line %s and the restore" % n.get("l") if not risky else
                   "%s() at line %s can raise between save_command_giver() (line %s) and restore_command_giver(): the entry stays on the command giver stack for ever (it overflows after 1023 of them) and the saved object keeps a reference" % (risky[0][0], risky[0][1], n.get("l")),
                   f.file, n.get("l"), f.name, what="%s holds a command-giver stack entry across a call that can raise" % f.name)
    if nk == 0:
        run.ob("C05-k", "held:none", True, "no function holds a command-giver stack entry (save_command_giver() has no callers)", None, None, None)

    # ---- C05-l clean-up slots on the value stack run after the registers were restored and leave them alone
    run.rule("C05-l", "a T_ERROR_HANDLER slot is run by the stack unwinding of restore_context(), which has put command_giver (and, through pop_control_stack(), the frame registers) back before it pops the value stack: no function installed in such a slot - directly or through a file-local helper - stores to one of the registers restore_context()/pop_control_stack() write, otherwise the recovery point resumes with the value of the failed callee", 4)
    rc_ = run.need(prog.func("restore_context"), "restore_context")
    pcs_ = run.need(prog.func("pop_control_stack"), "pop_control_stack")

    def gstores(g):
        out = {}
        for b, i, n in g.nodes():
            tgt = strip(n["L"]) if n.get("k") == "Asg" else strip(n["e"]) if n.get("k") == "Un" and n.get("op") in ("++", "--") else None
            if tgt is not None and tgt.get("k") == "Ref" and tgt.get("d") in ("global", "static"):
                out.setdefault(tgt.get("n"), n.get("l"))
        return out
    # command_giver belongs to the set whether or not restore_context() still writes it (that is C05-b's question)
    REGS = (set(gstores(rc_)) | set(gstores(pcs_)) | {"command_giver"}) - {"sp"}
    run.need(len(REGS) >= 4, "registers written by restore_context()/pop_control_stack() (found %s)" % sorted(REGS))
    nl = 0
    installed = {}
    for f in sorted(prog.functions(), key=lambda x: (x.file, x.line)):
        for b, i, n in f.nodes():
            if n.get("k") == "Asg" and n.get("op") == "=" and strip(n["L"]).get("k") == "Mem" and strip(n["L"]).get("f") == "error_handler":
                r = strip(n["R"])
                while r.get("k") in ("Cast", "Un") and isinstance(r.get("e"), dict):
                    r = strip(r["e"])
                if r.get("k") == "Ref" and r.get("d") == "func":
                    installed.setdefault(r.get("n"), (f, n.get("l")))
                elif r.get("k") == "Ref" and r.get("d") == "param":
                    pass        # a helper: its call sites are read below
                else:
                    nl += 1
                    run.ob("C05-l", "slot:%s:%s" % (f.name, n.get("l")), None, "`%s`: the function installed is not named" % show(n)[:60], f.file, n.get("l"), f.name)
    # ... or handed to a helper that stores its parameter there
    for f in sorted(prog.functions(), key=lambda x: (x.file, x.line)):
        for b, i, n in f.nodes():
            if n.get("k") == "Asg" and n.get("op") == "=" and strip(n["L"]).get("k") == "Mem" and strip(n["L"]).get("f") == "error_handler" and strip(n["R"]).get("d") == "param":
                pis = [p_.get("pi") for p_ in f.params or [] if p_.get("id") == strip(n["R"]).get("id")]
                for g in prog.functions():
                    for b2, i2, n2 in g.calls(f.name):
                        if pis and len(n2.get("args", [])) > pis[0]:
                            r = strip(n2["args"][pis[0]])
                            while r.get("k") in ("Cast", "Un") and isinstance(r.get("e"), dict):
                                r = strip(r["e"])
                            if r.get("k") == "Ref" and r.get("d") == "func":
                                installed.setdefault(r.get("n"), (g, n2.get("l")))
    nl += sum(1 for k_ in installed if prog.func(k_) is None)     # installed but not defined in the analysed units: still an instance
    for name, (inst, line) in sorted(installed.items()):
        h = prog.func(name)
        if h is None:
            continue
        nl += 1
        run.saw(h)
        seen, todo, bad = {h.name}, [h], []
        while todo:
            g = todo.pop()
            for v, l in gstores(g).items():
                if v in REGS:
                    bad.append((g.name, v, l))
            for b, i, n in g.calls():
                c = prog.func(n.get("fn")) if n.get("fn") else None
                if c is not None and c.static and c.file == h.file and c.name not in seen and len(seen) < 12:
                    seen.add(c.name)
                    todo.append(c)
        run.ob("C05-l", "slot:%s" % name, not bad, "%s() (installed by %s()) and its file-local helpers store to none of %s" % (name, inst.name, ", ".join(sorted(REGS)[:6]) + " ..") if not bad else
               "%s() stores to `%s` at line %s; it is run from the value-stack unwinding of restore_context(), after `%s` was set back to the value of the recovery point: the recovery point resumes with the callee's value" % (bad[0][0], bad[0][1], bad[0][2], bad[0][1]),
               h.file, bad[0][2] if bad else h.line, h.name, what="the unwind callback %s() overwrites the restored register %s" % (name, bad[0][1] if bad else ""))
    run.need(nl >= 4, "functions installed in T_ERROR_HANDLER slots (found %d)" % nl)
