"""C05-i — every efun leaves the value stack as the calling convention prescribes.

eval_instruction() calls an efun with its N arguments on top of the value stack.  A value-returning efun must
return with exactly one value in the slot of its first argument (sp index 0 in the terms of C01-e); an efun
declared `void` in the efun specification (TYPE_NOVALUE) must have popped all its arguments (index -1).  A path
that returns with a different depth shifts every later local-variable access of the calling LPC function
("Bad stack at F_RETURN"), on the normal path or after an error was caught.

Uses the abstract interpreter of C01-e (argument-slot tracking of sp per argument count N).  Verdict per
(efun, N): ok when every returning exit has the prescribed depth; violated when every exit depth is known and
some exit differs; undecided when some exit's depth is unknown (a callee moves sp in a way the interpreter does
not model)."""
import os
import re
import prep
import callgraph
from core import rel
from dataflow import solve
from facts import strip, walk
from rules import C01e


def ret_types():
    path = os.path.join(prep.CACHE, "build", "lib", "efuns", "efuns_definition.h")
    out = {}
    for line in open(path):
        m = re.match(r'\{"(\w+)",\s*(F_\w+)(?:\s*\|\s*F_ALIAS_FLAG)?,\s*\d+,\s*\d+,\s*(-?\d+),\s*(-?\d+),\s*([^,]+),', line)
        if m:
            out[m.group(1)] = m.group(5).strip()
    return out


def check(run, prog, tier, cg):
    run.rule("C05-i", "every efun returns with the value stack at the depth its declaration prescribes: one value in the first argument's slot, or nothing for a void (TYPE_NOVALUE) efun, for every admissible argument count and on every returning path", 120)
    specs, path = C01e.load_specs()
    run.need(specs, "generated efun table")
    C01e.extend_consumers(prog)
    rts = ret_types()
    writes_sp = set()
    for f in prog.functions():
        for b, i, n in f.nodes():
            t = None
            if n.get("k") == "Asg":
                t = strip(n["L"])
            elif n.get("k") == "Un" and n.get("op") in ("++", "--"):
                t = strip(n["e"])
            if t is not None and t.get("k") == "Ref" and t.get("n") == "sp" and t.get("d") == "global":
                writes_sp.add(f.name)
    touches = set(writes_sp)
    for g in prog.functions():
        for b, i, n in g.calls():
            if cg.callees_of_call(g, n) & writes_sp:
                touches.add(g.name)
                break
    touches -= set(C01e.CONSUMES) | {"error", "fatal", "bad_arg", "bad_argument", "free_svalue", "free_string_svalue", "int_free_svalue", "assign_svalue", "assign_svalue_no_free"}
    touches.add("<unknown>")
    nok = nbad = nund = 0
    for spec in sorted(specs, key=lambda s: s["word"]):
        f = prog.func(spec["fn"])
        if f is None:
            continue
        run.saw(f)
        lo = spec["min"]
        hi = spec["max"] if spec["max"] != -1 else max(spec["min"], 4) + 2
        it = C01e.Interp(f, spec, touches, cg)
        try:
            ins = solve(f, {N: C01e.St(N - 1) for N in range(lo, hi + 1)}, it.transfer(False), it.edge, C01e.make_join(spec))
        except RuntimeError:
            run.ob("C05-i", "stack:%s:diverged" % spec["word"], None, "abstract interpretation did not converge", f.file, f.line, f.name)
            continue
        tr = it.transfer(False)
        exp = -1 if rts.get(spec["word"]) == "TYPE_NOVALUE" else 0
        res = {}
        for bid in f.reachable():
            blk = f.blocks[bid]
            if f.exit not in [s for s in blk.succ if s is not None] or bid not in ins:
                continue
            if blk.nr or any(m.get("k") == "Call" and (m.get("nr") or m.get("fn") in callgraph.RAISE_SEEDS) for e in blk.el for m in walk(e, True)):
                continue   # leaves by longjmp: the recovery point restores the stack
            out = tr(blk, ins[bid])
            for idx, sx in enumerate(blk.succ):
                if sx != f.exit:
                    continue
                o2 = it.edge(blk, idx, sx, out)
                if not o2:
                    continue      # that exit edge is infeasible for every argument count
                for N, st in o2.items():
                    res.setdefault(N, {})[bid] = st.sp
        bad, und = [], []
        for N in sorted(res):
            sps = set(res[N].values())
            if None in sps:
                und.append(N)
            elif sps != {exp}:
                wrong = sorted((f.line_of_block(b_) or 0, v) for b_, v in res[N].items() if v != exp)
                bad.append((N, wrong))
        inst = "stack:%s" % spec["word"]
        if bad and not und:
            N, wrong = bad[0]
            nbad += 1
            run.ob("C05-i", inst, False, "%s() called with %d argument(s) returns (near line %s) with the stack %+d slot(s) off: expected the result %s" % (
                spec["word"], N, wrong[0][0], wrong[0][1] - exp, "in the first argument's slot" if exp == 0 else "popped entirely (void efun)"), f.file, wrong[0][0] or f.line, f.name,
                what="%s leaves the value stack %+d slot(s) off when called with %d argument(s)" % (spec["fn"], wrong[0][1] - exp, N))
        elif bad or und:
            nund += 1
            run.ob("C05-i", inst, None, "stack depth at return not decided for argument counts %s (a callee moves sp in a way the interpreter does not model)" % sorted(set(und) | {b_[0] for b_ in bad}), f.file, f.line, f.name)
        else:
            nok += 1
            run.ob("C05-i", inst, True, "returns at depth %d for all of %d argument count(s)" % (exp, len(res)), f.file, f.line, f.name)
    run.extra["efuns_stack_decided"] = nok
    run.extra["efuns_stack_undecided"] = nund
