"""C06 — reference counts (two structural clauses; the accounting itself is not decided).

C06-a  deallocator completeness: each release function reaches a release of every owning field of its
       record on every path to the point where the container is given up (unless the field's own
       NULL test says there is nothing to release); pointer fields not in the table are reported
C06-b  narrow reference counters: every ++ on a counter narrower than 32 bits is guarded by a
       saturation test on the same counter"""
import facts
import cfgq
from core import rel
from facts import strip, show, walk, const_val, normalize_cond, atom_of

# (release function, record, {owning field: (release callees, condition-note)})
OWNERS = [
    ("free_sentence", "sentence_s", {"ob": (("free_object",), ""), "function": (("free_funp", "free_string"), "funp or string by V_FUNCTION"),
                                     "verb": (("free_string",), ""), "args": (("free_array",), "")}),
    ("free_called_call", "pending_call_s", {"function": (("free_funp", "free_string"), "string if ob, else funp"), "ob": (("free_object",), ""),
                                            "command_giver": (("free_object",), "")}),
    ("free_call", "pending_call_s", {"vs": (("free_array",), "unused arguments")}),
    ("dealloc_funp", "funptr_hdr_t", {"owner": (("free_object",), ""), "args": (("free_array",), "")}),
    ("dealloc_object", "object_s", {"prog": (("free_prog",), ""), "sent": (("free_sentence",), "safety net"), "name": (("free", "FREE"), "")}),
    ("remove_interactive", "interactive_s", {"input_to": (("free_sentence",), "")}),
]
# pointer fields of those records that are *not* owning, with the reason
NOT_OWNING = {
    ("sentence_s", "next"): "free-list / chain link",
    ("pending_call_s", "next"): "chain link",
    ("object_s", "next_hash"): "hash chain, unlinked by remove_object_hash",
    ("object_s", "next_all"): "object list link",
    ("object_s", "next_inv"): "inventory link",
    ("object_s", "contains"): "inventory head, emptied by destruct_object",
    ("object_s", "super"): "environment back pointer (not counted)",
    ("object_s", "interactive"): "released by remove_interactive before the object can be freed",
    ("object_s", "next_hashed_living"): "living hash chain",
    ("object_s", "living_name"): "released by remove_living_name in destruct_object",
    ("object_s", "uid"): "interned userid, never freed",
    ("object_s", "euid"): "interned userid, never freed",
    ("interactive_s", "ob"): "released by the trailing free_object(ob) of remove_interactive",
    ("interactive_s", "snoop_on"): "back pointer, cleared",
    ("interactive_s", "snoop_by"): "back pointer, cleared",
    ("interactive_s", "prompt"): "points to a constant or a string owned by set_prompt's caller",
    ("interactive_s", "ed_buffer"): "released by save_ed_buffer/free_ed_buffer",
    ("interactive_s", "default_err_message"): "released by clear_notify",
}
COUNTED = ("struct array_s *", "struct mapping_s *", "struct object_s *", "struct funptr_s *", "struct buffer_s *", "struct program_s *", "struct sentence_s *", "char *", "string_or_func_t")


FUNPTR_COPY_DESC = "wherever a funptr_t is copied wholesale (*new = *old), the copy's own reference count is set to 1 and every counter dealloc_funp() will decrement for it (args->ref, prog->func_ref) is incremented under exactly the condition dealloc_funp() tests - not under additional conditions"


def funptr_copy_rule(run, prog, RULE):
    df = run.need(prog.func("dealloc_funp"), "dealloc_funp")
    run.saw(df)
    # releases in dealloc_funp: (kind, guard texts)
    def norm(txt, names):
        for nm in names:
            txt = txt.replace(nm + "->", "$->")
        return txt.replace("0x0f", "15").replace("FP_MASK", "15")

    def expand(f, e, depth=0, keep=()):
        """copy of e with locals that have a single definition replaced by it (short type = funptr->hdr.type)"""
        if not isinstance(e, dict) or depth > 3:
            return e
        if e.get("k") == "Ref" and e.get("d") == "local" and e.get("id") is not None and e.get("n") not in keep:
            defs = [n2["R"] for b2, i2, n2 in f.nodes() if n2.get("k") == "Asg" and strip(n2["L"]).get("k") == "Ref" and strip(n2["L"]).get("id") == e["id"]]
            defs += [v["init"] for b2, i2, n2 in f.nodes() if n2.get("k") == "Decl" for v in n2.get("vars", ()) if v.get("id") == e["id"] and isinstance(v.get("init"), dict)]
            if len(defs) == 1:
                return expand(f, strip(defs[0]), depth + 1, keep)
            return e
        out = {}
        for k, v in e.items():
            if isinstance(v, dict):
                out[k] = expand(f, v, depth, keep)
            elif isinstance(v, list):
                out[k] = [expand(f, x, depth, keep) if isinstance(x, dict) else x for x in v]
            else:
                out[k] = v
        return out

    def guard_texts(f, blk_id, names, skip_blocks=()):
        out = set()
        for c, t, B in cfgq.guards(f, blk_id):
            if B in skip_blocks:
                continue
            c0, t0 = normalize_cond(c, t)
            out.add((norm(show(strip(expand(f, strip(c0), 0, tuple(names)))), names), t0))
        return out
    dparam = [p.get("n") for p in (df.params or [])]
    rel_func = None
    for b, i, n in df.nodes():
        if n.get("k") == "Un" and n.get("op") == "--" and strip(n["e"]).get("f") == "func_ref":
            rel_func = guard_texts(df, b.id, dparam)
    run.need(rel_func is not None, "func_ref-- in dealloc_funp")
    ncopy = 0
    PARTIAL = [None]
    for f in sorted(prog.functions(), key=lambda x: (x.file, x.line)):
        copies = [(b, i, n) for b, i, n in f.nodes() if n.get("k") == "Asg" and n.get("op") == "=" and (strip(n["L"]).get("t") or "") in ("struct funptr_s", "funptr_t") and strip(n["L"]).get("k") == "Un" and strip(n["R"]).get("k") == "Un"]
        # the same copy written member by member starts with the header: `new->hdr = old->hdr` (the header carries the
        # reference count, the owner and the bound arguments)
        hdrcopies = [(b, i, n) for b, i, n in f.nodes() if n.get("k") == "Asg" and n.get("op") == "=" and strip(n["L"]).get("k") == "Mem" and strip(n["L"]).get("f") == "hdr" and strip(n["R"]).get("k") == "Mem" and strip(n["R"]).get("f") == "hdr"
                     and "funptr" in (strip(strip(n["L"])["b"]).get("t") or "") and strip(strip(n["L"])["b"]).get("k") == "Ref" and strip(strip(n["R"])["b"]).get("k") == "Ref"]
        for j, (b, i, n) in enumerate(copies + hdrcopies):
            ncopy += 1
            run.saw(f)
            if (b, i, n) in copies and PARTIAL[0] is None:
                # function pointer blocks are allocated as header + the member of their kind (make_efun_funp ...)
                PARTIAL[0] = sorted({g.name for g in prog.functions() for b9, i9, n9 in g.calls() if n9.get("args") and any(
                    x.get("k") == "Bin" and x.get("op") == "+" and "sizeof(funptr_hdr_t)" in show(x).replace(" ", "") for a in n9["args"] for x in walk(a))})
            if (b, i, n) in copies and PARTIAL[0]:
                run.ob(RULE, "funptr-copy-size:%s:%s:%d" % (rel(f.file), f.name, j), False,
                       "`%s` at line %s copies sizeof(funptr_t) bytes, but function pointer blocks are allocated as header + the member of their kind (%s): for an efun or simul_efun pointer the copy reads past the end of the source block" % (show(n)[:40], n.get("l"), ", ".join(PARTIAL[0][:3])),
                       f.file, n.get("l"), f.name, what="%s copies a whole funptr_t out of a block that may be shorter" % f.name)
            if (b, i, n) in hdrcopies:
                newv = strip(strip(n["L"])["b"]).get("n")
                oldv = strip(strip(n["R"])["b"]).get("n")
            else:
                newv = strip(strip(n["L"])["e"]).get("n")
                oldv = strip(strip(n["R"])["e"]).get("n")
            names = [x for x in (newv, oldv) if x]
            base_guards = guard_texts(f, b.id, names)
            why = []
            # (1) own reference count reset
            reset = [(b2, i2, n2) for b2, i2, n2 in f.nodes() if n2.get("k") == "Asg" and n2.get("op") == "=" and strip(n2["L"]).get("k") == "Mem" and strip(n2["L"]).get("f") == "ref" and newv in show(n2["L"]) and "hdr" in show(n2["L"]) and const_val(n2["R"]) == 1 and f.point_dominates((b.id, i), (b2.id, i2))]
            if not reset:
                why.append("the copy keeps the source's reference count (%s->hdr.ref is not set to 1): if the source has other holders the copy can never be freed" % newv)
            # (2) func_ref acquired under dealloc's condition only
            incs = [(b2, i2, n2) for b2, i2, n2 in f.nodes() if n2.get("k") == "Un" and n2.get("op") == "++" and strip(n2["e"]).get("f") == "func_ref" and f.point_dominates((b.id, i), (b2.id, i2))]
            if not incs:
                why.append("prog->func_ref is not incremented for the copy although dealloc_funp() will decrement it")
            for b2, i2, n2 in incs:
                extra = guard_texts(f, b2.id, names) - base_guards - rel_func
                if extra:
                    why.append("func_ref++ at line %s is additionally conditioned on %s, which dealloc_funp() does not test: when it is false the copy's deallocation drops a count it never took (program freed while the pointer is alive)" % (n2.get("l"), sorted(x[0] for x in extra)[:2]))
            # (3) args
            ainc = [(b2, i2, n2) for b2, i2, n2 in f.nodes() if n2.get("k") == "Un" and n2.get("op") == "++" and strip(n2["e"]).get("f") == "ref" and "args" in show(n2["e"]) and f.point_dominates((b.id, i), (b2.id, i2))]
            if not ainc:
                why.append("hdr.args->ref is not incremented for the copy")
            run.ob(RULE, "funptr-copy:%s:%s:%d" % (rel(f.file), f.name, j), not why, "copy at line %s: own count reset, args and func_ref acquired under dealloc_funp()'s conditions" % n.get("l") if not why else "; ".join(why), f.file, n.get("l"), f.name,
                   what="%s copies a function pointer but %s" % (f.name, why[0] if why else ""))
    run.need(ncopy >= 1, "wholesale funptr_t copies (found %d)" % ncopy)



def check(run, prog, tier):
    run.rule("C06-a", "release functions free every owning field of their record on every path (bypass only through the field's own NULL test); every pointer field of an owner record is classified", 14)
    run.rule("C06-c", "when a counted field is re-pointed (old = X->F; X->F = new; release(old)) the reference on the new value is taken before the old one is released", 1)
    run.rule("C06-b", "every reference counter field (ref, refs, func_ref, extra_ref of the counted records) is at least 32 bits wide: 2^16 holders of one value are within reach of one LPC program, where a plain narrow counter wraps (premature free) and a saturating one makes the value immortal (leak)", 8)

    recs = prog.records()
    for fname, rec, fields in OWNERS:
        f = run.need(prog.func(fname), "release function " + fname)
        run.saw(f)
        layout = recs.get(rec)
        run.need(layout, "record " + rec)
        pname = f.params[0]["n"] if f.params else None
        # the point where the container is given up: a FREE/free of the parameter, a store linking it onto a free list, or function exit
        give_up = []
        for b, i, n in f.nodes():
            if n.get("k") == "Call" and n.get("fn") in ("free", "FREE", "free_called_call") and any(
                    strip(a).get("n") == pname or rec in strip(a).get("t", "") or any(rec in x.get("t", "") for x in walk(a) if x.get("k") == "Ref") for a in n.get("args", [])):
                give_up.append(b.id)
            if n.get("k") == "Asg" and strip(n["R"]).get("n") == pname and strip(n["L"]).get("d") in ("static", "global"):
                give_up.append(b.id)
        def is_end(blk):
            return blk.id in give_up if give_up else (f.exit in blk.live_succ() and not blk.nr)
        for fld, (callees, note) in fields.items():
            rel_blocks = []
            # locals loaded from the field (object_t *owner = fp->hdr.owner; sentence_t *s = ob->sent): releasing the local
            # releases the field, and a null test of the local is the field's own null test
            fa = set()
            for b, i, n in f.nodes():
                if n.get("k") == "Asg" and n.get("op") == "=" and strip(n["L"]).get("k") == "Ref" and strip(n["L"]).get("d") == "local":
                    r0 = strip(n["R"])
                    if r0.get("k") == "Mem" and r0.get("f") == fld and (show(r0).endswith("->" + fld) or show(r0).endswith("." + fld)):
                        fa.add(strip(n["L"]).get("id"))
                elif n.get("k") == "Decl":
                    for v in n.get("vars", ()):
                        r0 = strip(v.get("init")) if isinstance(v.get("init"), dict) else {}
                        if r0.get("k") == "Mem" and r0.get("f") == fld and (show(r0).endswith("->" + fld) or show(r0).endswith("." + fld)):
                            fa.add(v.get("id"))
            fa.discard(None)

            def is_fld(e):
                e = strip(e)
                if e.get("k") == "Bin" and e.get("op") in ("!=", "==") and const_val(e["R"]) == 0:
                    e = strip(e["L"])
                return (e.get("k") == "Mem" and (show(e).endswith("->" + fld) or show(e).endswith("." + fld))) or (e.get("k") == "Ref" and e.get("id") in fa)
            for b, i, n in f.nodes():
                if n.get("k") == "Call" and n.get("fn") in callees:
                    direct = any(("->" + fld in show(a)) or ("." + fld in show(a)) or (strip(a).get("k") == "Ref" and strip(a).get("id") in fa) for a in n.get("args", []))
                    # released through a local walked from the field: the call sits under the field's own non-NULL test
                    under = any(t and strip(c).get("k") == "Mem" and (show(strip(c)).endswith("->" + fld) or show(strip(c)).endswith("." + fld)) for c, t, B in cfgq.guards(f, b.id))
                    if direct:
                        rel_blocks.append(b.id)
                    if under and not direct:
                        # anchor on the field test itself: everything must pass the test; its false edge is the bypass
                        for c, t, B in cfgq.guards(f, b.id):
                            if t and strip(c).get("k") == "Mem" and (show(strip(c)).endswith("->" + fld) or show(strip(c)).endswith("." + fld)):
                                rel_blocks.append(B)
            bypass = set()
            for bid in f.reachable():
                c = f.branch_cond(bid)
                if c is None:
                    continue
                e, t = normalize_cond(c, True)
                e = strip(e)
                if e.get("k") == "Bin" and e.get("op") in ("!=", "==") and const_val(e["R"]) == 0:
                    t = t if e["op"] == "!=" else not t
                    e = strip(e["L"])
                txt = show(e)
                if (e.get("k") == "Mem" and (txt.endswith("->" + fld) or txt.endswith("." + fld) or ("->" + fld + ".") in txt)) or (e.get("k") == "Ref" and e.get("id") in fa):
                    s = f.blocks[bid].succ[1] if t else f.blocks[bid].succ[0]
                    if s is not None:
                        bypass.add((bid, s))
            inst = "owner:%s:%s" % (fname, fld)
            if not rel_blocks:
                run.ob("C06-a", inst, False, "%s never releases %s->%s (%s)" % (fname, rec, fld, "/".join(callees)), f.file, f.line, fname, what="%s does not release the owning field %s: every %s leaks a reference" % (fname, fld, rec))
                continue
            # alternatives (funp | string) : all release blocks count as passing
            tests_ = {B for B in rel_blocks if f.branch_cond(B) is not None and strip(f.branch_cond(B)).get("k") == "Mem"}
            p = f.reach_avoiding([f.entry], is_end, avoid_blocks=rel_blocks, avoid_edges={e_ for e_ in bypass if e_[0] not in tests_})
            # a path that reaches the end *in the start block itself* cannot happen (release precedes)
            run.ob("C06-a", inst, p is None, "%s released by %s on every path%s" % (fld, "/".join(callees), (" (" + note + ")") if note else "") if p is None else "path %s gives up the %s without releasing %s" % (p[:10], rec, fld),
                   f.file, f.line_of_block(rel_blocks[0]), fname, what="%s can give up a %s without releasing its %s reference" % (fname, rec, fld))
        # unclassified pointer fields
        for fl in layout["fields"]:
            if fl["t"] in COUNTED and fl["n"] not in fields and (rec, fl["n"]) not in NOT_OWNING:
                owned_elsewhere = any(r2 == rec and fl["n"] in f2 for _, r2, f2 in OWNERS)
                if owned_elsewhere:
                    continue
                run.ob("C06-a", "unclassified:%s.%s" % (rec, fl["n"]), None, "field %s %s.%s is neither in the owning table nor in the reviewed not-owning table" % (fl["t"], rec, fl["n"]), layout.get("file"), fl.get("l"), fname)
    # element containers: every element released in a loop over the full size
    for fname, what in (("dealloc_array", "item"), ("dealloc_class", "item"), ("destruct2", "variables")):
        f = prog.func(fname)
        if f is None:
            continue
        run.saw(f)
        calls = [(b, i, n) for b, i, n in f.calls("free_svalue") if what in show(n["args"][0])]
        in_loop = bool(calls) and calls[0][0].id in cfgq.reach_set(f, calls[0][0].live_succ())
        # loop bound mentions size / num_variables_total
        bound = False
        if calls:
            for c, t, B in cfgq.guards(f, calls[0][0].id):
                if "size" in show(c) or "num_variables_total" in show(c) or strip(c).get("k") == "Un":
                    bound = True
            for b, i, n in f.nodes():
                if n.get("k") == "Asg" and ("->size" in show(n["R"]) or "num_variables_total" in show(n["R"])):
                    bound = True
        run.ob("C06-a", "elements:%s" % fname, in_loop and bound, "%s releases every %s[] element in a loop over the container's size: %s/%s" % (fname, what, in_loop, bound), f.file, f.line, fname,
               what="%s does not release all elements" % fname)
    dm = prog.func("dealloc_mapping")
    if dm is not None:
        run.saw(dm)
        calls = [n for b, i, n in dm.calls("free_svalue") if "values" in show(n["args"][0])]
        both = len(calls) >= 2 and any("+ 1" in show(n["args"][0]) for n in calls) and any("+ 1" not in show(n["args"][0]) for n in calls)
        node = any(True for _ in dm.calls("free_node"))
        run.ob("C06-a", "elements:dealloc_mapping", both and node, "dealloc_mapping releases key, value and node for every entry: %s/%s" % (both, node), dm.file, dm.line, "dealloc_mapping",
               what="dealloc_mapping does not release key and value of every node")

    # ---- C06-c: re-pointing a counted field: take the new reference before dropping the old one
    ACQ = {"free_prog": ("reference_prog",), "free_object": ("add_ref",), "free_array": (), "free_mapping": ()}
    nrep = 0
    for f in prog.functions():
        for b, i, n in f.nodes():
            if not (n.get("k") == "Call" and n.get("fn") in ACQ and n.get("args")):
                continue
            old = strip(n["args"][0])
            if not (old.get("k") == "Ref" and old.get("d") == "local"):
                continue
            # old = X->F ; X->F = NEW ; release(old)
            src = None
            for b2, i2, n2 in f.nodes():
                if n2.get("k") == "Asg" and n2.get("op") == "=" and strip(n2["L"]).get("id") == old.get("id") and strip(n2["R"]).get("k") == "Mem" and f.point_dominates((b2.id, i2), (b.id, i)):
                    src = strip(n2["R"])
            if src is None:
                continue
            newv = None
            for b2, i2, n2 in f.nodes():
                if n2.get("k") == "Asg" and n2.get("op") == "=" and show(strip(n2["L"])) == show(src) and f.point_dominates((b2.id, i2), (b.id, i)):
                    newv = strip(n2["R"])
            if newv is None:
                continue
            nrep += 1
            run.saw(f)
            acq = []
            for b2, i2, n2 in f.nodes(skip_cf=False):
                # the new value is named either directly or through the field it was just stored into
                if n2.get("k") == "Un" and n2.get("op") == "++" and strip(n2["e"]).get("f") in ("ref",) and show(strip(strip(n2["e"])["b"])) in (show(newv), show(src)):
                    acq.append((b2.id, i2))
                if n2.get("k") == "Call" and n2.get("fn") in ACQ[n["fn"]] and n2.get("args") and show(strip(n2["args"][0])) in (show(newv), show(src)):
                    acq.append((b2.id, i2))
            if not acq:
                continue  # ownership transferred some other way (not this pattern)
            ok = any(f.point_dominates(a, (b.id, i)) for a in acq)
            run.ob("C06-c", "repoint:%s:%s" % (f.name, show(src)), ok, "%s re-points %s to %s: the new reference is taken %s %s(%s)" % (f.name, show(src), show(newv), "before" if ok else "AFTER", n["fn"], show(old)),
                   f.file, n.get("l"), f.name, what="%s releases the old %s before it holds a reference on the new one (which may be kept alive only through the old one): the value is freed while the object still points at it" % (f.name, show(src)))

    # ---- C06-b
    counters = {}
    for rn, r in recs.items():
        for fl in r["fields"]:
            if fl["n"] in ("ref", "refs", "func_ref", "extra_ref") and fl.get("w"):
                counters[(rn, fl["n"])] = (fl["w"], r.get("file"), fl.get("l"))
    run.need(len(counters) >= 8, "reference counter fields (found %d)" % len(counters))
    narrow = {k: v for k, v in counters.items() if v[0] < 32}
    incs = {}
    for f in prog.functions():
        for b, i, n in f.nodes(skip_cf=False):
            if n.get("k") == "Un" and n.get("op") == "++":
                e = strip(n["e"])
                key = (e.get("rec"), e.get("f")) if e.get("k") == "Mem" else None
                if key in narrow:
                    guarded = False
                    for c, t, B in cfgq.guards(f, b.id):
                        for x in walk(c):
                            if x.get("k") == "Mem" and (x.get("rec"), x.get("f")) == key:
                                guarded = True
                    incs.setdefault(key, []).append((f.name, n.get("l"), guarded))
    for key, (w, file, line) in sorted(counters.items()):
        inst = "narrow:%s.%s" % key
        if w >= 32:
            run.ob("C06-b", inst, True, "%d-bit counter %s.%s: cannot be wrapped by the number of references a driver within its memory limits can hold" % (w, key[0], key[1]), file, line, None)
            continue
        lst = incs.get(key, [])
        unguarded = [(fn, l) for fn, l, g in lst if not g]
        if not lst:
            run.ob("C06-b", inst, True, "%d-bit counter %s.%s is never incremented directly" % (w, key[0], key[1]), file, line, None)
            continue
        # 2^16 holders of one value are within reach of a single LPC program (an array of 65536 copies of one string
        # is 1 MiB): an unguarded narrow counter wraps (premature free), a saturating one makes the value immortal (leak)
        run.ob("C06-b", inst, False, "%d-bit counter %s.%s: %d increment site(s), %d without a saturation test%s; %s" % (w, key[0], key[1], len(lst), len(unguarded), (" e.g. %s" % unguarded[:3]) if unguarded else "",
               "it wraps after 2^%d holders and the next release frees a value that is still referenced" % w if unguarded else "it saturates after 2^%d holders and the value is never released again" % w),
               file, line, None, what="%d-bit reference counter %s.%s %s after 2^%d holders" % (w, key[0], key[1], "wraps (premature free)" if unguarded else "saturates (the value is never freed: leak)", w))

    # ---- C06-d partial release: free_called_call() does not release the argument array
    import callgraph
    import ctxstate
    run.rule("C06-d", "every call of the partial release free_called_call(X) (it leaves X->vs alone) is reached only after X->vs was dealt with (the `if (X->vs)` transfer/free, or free_call which frees it); for the recovery branch this must hold on every path to a call that can raise", 2)
    cg = callgraph.CallGraph(prog)
    eff = callgraph.Effects(cg)
    fcc = prog.func("free_called_call")
    run.need(fcc, "free_called_call")
    # free_called_call really is partial: it never touches ->vs
    touches_vs = any(n.get("k") == "Mem" and n.get("f") == "vs" for b, i, n in fcc.nodes())
    run.need(not touches_vs, "free_called_call leaves ->vs alone (otherwise the rule has no subject)")
    nsite = 0
    import inline
    for f0 in sorted(prog.functions(), key=lambda x: (x.file, x.line)):
        if not any(True for _ in f0.calls("free_called_call")) or f0.name in ("free_call",):
            continue
        # with the file-local helpers it calls spliced in: the hand-over of ->vs may live in one of them
        f = inline.inlined(f0)
        sites = [(b, i, n) for b, i, n in f.calls("free_called_call")]
        run.saw(f0)
        # locals that are a copy of X->vs (array_t *vec = cop->vs): a test of the copy is a test of the field
        vs_alias = {strip(n2["L"]).get("id") for b2, i2, n2 in f.nodes() if n2.get("k") == "Asg" and n2.get("op") == "=" and strip(n2["L"]).get("k") == "Ref" and strip(n2["R"]).get("k") == "Mem" and strip(n2["R"]).get("f") == "vs"}
        vs_alias |= {v.get("id") for b2, i2, n2 in f.nodes() if n2.get("k") == "Decl" for v in n2.get("vars", ()) if isinstance(v.get("init"), dict) and strip(v["init"]).get("k") == "Mem" and strip(v["init"]).get("f") == "vs"}
        vs_alias.discard(None)

        def is_vs(e):
            e, _t = facts.normalize_cond(e, True)
            e = strip(e)
            return (e.get("k") == "Mem" and e.get("f") == "vs") or (e.get("k") == "Ref" and e.get("id") in vs_alias)
        handled = {bid for bid in f.reachable() if f.branch_cond(bid) is not None and is_vs(f.branch_cond(bid))}
        handled |= {b.id for b, i, n in f.calls() if n.get("fn") in ("free_array", "free_empty_array") and any(x.get("k") == "Mem" and x.get("f") == "vs" for x in walk(n["args"][0]))}
        sj = [(b, i, n) for b, i, n in f.calls() if n.get("fn") in ctxstate.SETJMP]
        sj_true = set()
        region = set()
        for b, i, n in sj:
            blk = f.blocks[b.id]
            if len(blk.succ) == 2 and blk.succ[0] is not None:
                sj_true.add((b.id, blk.succ[0]))
                region |= cfgq.reach_set(f, [blk.succ[1]]) if blk.succ[1] is not None else set()
        for j, (b, i, n) in enumerate(sorted(sites, key=lambda x: x[2].get("l") or 0)):
            nsite += 1
            x = strip(n["args"][0])
            # where X was last (re)defined: the dequeue
            defs = [(b2, i2) for b2, i2, n2 in f.nodes() if n2.get("k") == "Asg" and n2.get("op") == "=" and strip(n2["L"]).get("k") == "Ref" and strip(n2["L"]).get("id") == x.get("id") and const_val(n2["R"]) != 0]
            starts = [d[0].id for d in defs] or [f.entry]
            p = f.reach_avoiding(starts, lambda blk, t=b.id: blk.id == t, avoid_blocks=handled, avoid_edges=sj_true)
            why = None
            if p is not None:
                why = "path %s reaches free_called_call() at line %s without passing the `->vs` test/transfer: the argument array of that entry is never released" % (p[:8], n.get("l"))
            else:
                # recovery: every raising call inside the protected region must itself come after the hand-over
                for b3, i3, n3 in f.calls():
                    if b3.id in region and eff.call_may_raise(f, n3) and b3.id not in handled:
                        q = f.reach_avoiding(starts, lambda blk, t=b3.id: blk.id == t, avoid_blocks=handled, avoid_edges=sj_true)
                        if q is not None and n3.get("fn") not in ("transfer_push_some_svalues",):
                            why = "%s() at line %s can raise before the argument array was handed over; the recovery branch then releases the entry with free_called_call()" % (n3.get("fn") or "(*)", n3.get("l"))
                            break
            run.ob("C06-d", "partial-release:%s:%s:%d" % (rel(f.file), f.name, j), why is None, why or "free_called_call() at line %s is reached only after the entry's argument array was transferred or found absent" % n.get("l"),
                   f.file, n.get("l"), f.name, what="%s releases a pending call with free_called_call() on a path where its argument array is still attached (leak of the array and everything it references)" % f.name)
    run.need(nsite >= 2, "free_called_call call sites outside free_call (found %d)" % nsite)

    # ---- C06-f long-lived svalue globals are released (or handed over) before they are overwritten
    run.rule("C06-f", "every overwrite of the owning globals catch_value / apply_ret_value is preceded, in the same function and with no LPC-running call in between, by free_svalue(&G) or by a hand-over of G to the value stack (or assigns a fresh constant after such a release)", 6)
    OWNING_GLOBALS = ("catch_value", "apply_ret_value")
    returning_lpc = cg.reaches(callgraph.LPC_SEEDS | {"<unknown>"}, barriers={"fatal"} | callgraph.RAISE_SEEDS)
    nov = 0
    for f in sorted(prog.functions(), key=lambda x: (x.file, x.line)):
        if f.name in ("reset_interpreter",):
            continue
        ovs = []
        for b, i, n in f.nodes():
            if n.get("k") != "Asg" or n.get("op") != "=":
                continue
            l = strip(n["L"])
            whole = l.get("k") == "Ref" and l.get("n") in OWNING_GLOBALS and l.get("d") in ("global", "static")
            typ = l.get("k") == "Mem" and l.get("f") == "type" and strip(l["b"]).get("k") == "Ref" and strip(l["b"]).get("n") in OWNING_GLOBALS
            if whole or typ:
                ovs.append((b, i, n, l.get("n") if whole else strip(l["b"]).get("n")))
        if not ovs:
            continue
        run.saw(f)
        ordn = {}
        for b, i, n, g in sorted(ovs, key=lambda x: x[2].get("l") or 0):
            nov += 1
            o = ordn.get(g, 0)
            ordn[g] = o + 1
            # release or hand-over points of g in this function
            rel_pts = []
            for b2, i2, n2 in f.nodes():
                if n2.get("k") == "Call" and n2.get("fn") in ("free_svalue", "int_free_svalue") and n2.get("args") and g in show(n2["args"][0]):
                    rel_pts.append((b2.id, i2))
                if n2.get("k") == "Asg" and n2.get("op") == "=" and strip(n2["R"]).get("k") == "Ref" and strip(n2["R"]).get("n") == g and ("sp" in show(n2["L"])):
                    rel_pts.append((b2.id, i2))   # *++sp = G : ownership moves to the stack
            doms = [p for p in rel_pts if f.point_dominates(p, (b.id, i)) and p != (b.id, i)]
            why = None
            if not doms:
                # a test that the old value is not counted (destruct_object compares the object it holds)
                why = "no free_svalue(&%s) and no hand-over to the stack dominates this overwrite: the value it still holds (a thrown array, an earlier result) is never released" % g
            else:
                last = max(doms, key=lambda p: (f.dominates(p[0], b.id), p[1]))
                # nothing that can run LPC (and refill G) between the release and the overwrite
                region = cfgq.reach_set(f, [last[0]])
                for b3, i3, n3 in f.calls():
                    if b3.id in region and cg.callees_of_call(f, n3) & returning_lpc and ((b3.id, i3) > last or b3.id != last[0]) and f.point_dominates(last, (b3.id, i3)) and not f.point_dominates((b.id, i), (b3.id, i3)) and (b3.id, i3) != (b.id, i):
                        # must lie on a path release -> overwrite
                        if b.id in cfgq.reach_set(f, [b3.id]) or b3.id == b.id:
                            why = "%s() at line %s can run LPC code between the release of %s and this overwrite (a throw() there refills it)" % (n3.get("fn") or "(*)", n3.get("l"), g)
                            break
            run.ob("C06-f", "overwrite:%s:%s:%s:%d" % (rel(f.file), f.name, g, o), why is None, why or "%s is released or handed over before it is overwritten at line %s" % (g, n.get("l")), f.file, n.get("l"), f.name,
                   what="%s overwrites %s without releasing what it holds" % (f.name, g))
    run.need(nov >= 6, "overwrites of catch_value/apply_ret_value (found %d)" % nov)

    run.rule("C06-e", FUNPTR_COPY_DESC, 1)
    funptr_copy_rule(run, prog, "C06-e")

    # ---- C06-g values owned only by a C local do not live across an unprotected callback
    run.rule("C06-g", "a counted value that only a C local owns (result of a function returning array_t*/mapping_t*/buffer_t*, or a reference taken by hand with ->ref++ and released by hand later) is anchored on the value stack, stored into reachable storage, returned or released before the function makes a call that runs LPC code outside a catch barrier: error() unwinds past C locals without releasing anything", 5)
    import rules.C06g as c06g
    c06g.check(run, prog, cg)

    node_release_rule(run, prog)

    # ---- C06-h an array that is taken apart is owned by nobody else
    run.rule("C06-h", "free_empty_array(X->F) releases the block of an array whose items were moved out (transfer_push_some_svalues) without touching the items: the array in record field F must have exactly one holder. No site in the driver hands out another reference to the array in that field (`X->F->ref++`, push_array/assign of X->F): the second holder would keep an array whose items are owned, and later released, by someone else", 1)
    nh = 0
    for f in sorted(prog.functions(), key=lambda x: (x.file, x.line)):
        for b, i, n in f.calls("free_empty_array"):
            a = strip(n["args"][0]) if n.get("args") else {}
            if a.get("k") != "Mem" or not a.get("rec"):
                continue
            key = (a.get("rec"), a.get("f"))
            nh += 1
            run.saw(f)
            sharers = []
            for g in prog.functions():
                alias = set()
                for b2, i2, n2 in g.nodes():
                    if n2.get("k") == "Asg" and n2.get("op") == "=" and strip(n2["L"]).get("k") == "Ref" and strip(n2["L"]).get("id") is not None:
                        r2 = strip(n2["R"])
                        if r2.get("k") == "Mem" and (r2.get("rec"), r2.get("f")) == key:
                            alias.add(strip(n2["L"])["id"])
                    elif n2.get("k") == "Decl":
                        for v2 in n2.get("vars", ()):
                            r2 = strip(v2.get("init")) if isinstance(v2.get("init"), dict) else {}
                            if r2.get("k") == "Mem" and (r2.get("rec"), r2.get("f")) == key:
                                alias.add(v2.get("id"))
                for b2, i2, n2 in g.nodes():
                    tgt = None
                    if n2.get("k") == "Un" and n2.get("op") == "++":
                        tgt = strip(n2["e"])
                    elif n2.get("k") == "Asg" and n2.get("op") == "+=":
                        tgt = strip(n2["L"])
                    if tgt is not None and tgt.get("k") == "Mem" and tgt.get("f") == "ref":
                        base = strip(tgt["b"])
                        if (base.get("k") == "Mem" and (base.get("rec"), base.get("f")) == key) or (base.get("k") == "Ref" and base.get("id") in alias and base.get("id") is not None):
                            sharers.append("%s() line %s: %s" % (g.name, n2.get("l"), show(n2)[:40]))
                    if n2.get("k") == "Call" and n2.get("fn") in ("push_array", "push_refed_array", "put_array") and n2.get("args"):
                        a2 = strip(n2["args"][0])
                        if a2.get("k") == "Mem" and (a2.get("rec"), a2.get("f")) == key and n2.get("fn") == "push_array":
                            sharers.append("%s() line %s: %s" % (g.name, n2.get("l"), show(n2)[:40]))
            run.ob("C06-h", "sole-holder:%s:%s.%s" % (f.name, key[0], key[1]), not sharers,
                   "no site takes a second reference to the array in %s.%s, which %s() takes apart with free_empty_array()" % (key[0], key[1], f.name) if not sharers else
                   "%s() takes the array in %s.%s apart (items moved to the stack, block released with free_empty_array at line %s) but %s gives it a second holder: that holder keeps items which the callee's frame owns and releases" % (f.name, key[0], key[1], n.get("l"), "; ".join(sharers[:3])),
                   f.file, n.get("l"), f.name, what="an array that is dismantled with free_empty_array() is shared: %s" % "; ".join(sharers[:2]))
    run.need(nh >= 1, "free_empty_array() of a record field (found %d)" % nh)


def node_release_rule(run, prog):
    """C06-i: a mapping node that is given back took its key and its value with it"""
    run.rule("C06-i", "free_node(X) only recycles the node: at every call, key and value (X->values[0], X->values[1]) have been released on the way - free_svalue() on each (directly, or through a cursor set from X->values), free_object() on the key's object - and a release that is conditional on the value's own type tag tests a mask that covers strings and every counted type (T_STRING|T_REFED); a narrower test skips the release for the types it leaves out", 4)
    T_STRING = 4
    recs = prog.records()
    ni = 0

    def mentions_values(e, xid):
        return any(y.get("k") == "Mem" and y.get("f") == "values" and strip(y.get("b") or {}).get("id") == xid for y in walk(e))

    def slot_of(arg, xid):
        """0/1 for X->values / X->values + 1 / &X->values[k]; None if not of that form"""
        a = strip(arg)
        if a.get("k") == "Un" and a.get("op") == "&":
            s = strip(a["e"])
            if s.get("k") == "Sub" and mentions_values(s.get("b") or {}, xid):
                return const_val(s.get("i"))
        if a.get("k") == "Bin" and a.get("op") == "+" and mentions_values(a["L"], xid):
            return const_val(a["R"])
        if a.get("k") == "Mem" and a.get("f") == "values" and strip(a.get("b") or {}).get("id") == xid:
            return 0
        return None
    for f in sorted(prog.functions(), key=lambda x: (x.file, x.line)):
        if f.name == "free_node":
            continue
        for j, (b, i, n) in enumerate(f.calls("free_node")):
            x = strip(n["args"][0]) if n.get("args") else {}
            if x.get("k") != "Ref" or x.get("id") is None:
                continue
            xid = x["id"]
            ni += 1
            run.saw(f)
            # cursors: locals assigned from an expression over X->values
            cursors = set()
            for b2, i2, n2 in f.nodes():
                if n2.get("k") == "Asg" and strip(n2["L"]).get("k") == "Ref" and strip(n2["L"]).get("d") == "local" and mentions_values(n2["R"], xid):
                    cursors.add(strip(n2["L"]).get("id"))
                if n2.get("k") == "Decl":
                    for v in n2.get("vars", ()):
                        if isinstance(v.get("init"), dict) and mentions_values(v["init"], xid):
                            cursors.add(v.get("id"))
            here = cfgq.guards(f, b.id)
            here_keys = {(show(c), t) for c, t, B in here}
            covered, loose, narrow = set(), 0, None
            for b2, i2, n2 in f.calls():
                fn = n2.get("fn")
                if fn not in ("free_svalue", "free_object", "free_string_svalue") or not n2.get("args"):
                    continue
                a0 = n2["args"][0]
                k = slot_of(a0, xid)
                via_cursor = False
                if k is None and fn == "free_object" and mentions_values(a0, xid):
                    s = [y for y in walk(a0) if y.get("k") == "Sub" and mentions_values(y.get("b") or {}, xid)]
                    k = const_val(s[0].get("i")) if s else None
                if k is None:
                    c0 = strip(a0)
                    while c0.get("k") == "Un" and c0.get("op") in ("++", "--", "p++", "p--", "post++", "post--") and isinstance(c0.get("e"), dict):
                        c0 = strip(c0["e"])
                    if c0.get("k") == "Ref" and c0.get("id") in cursors:
                        via_cursor = True
                    else:
                        continue
                # on the way to the free_node() call?
                if not (b2.id == b.id and i2 < i) and not (b2.id != b.id and f.dominates(b2.id, b.id)):
                    # conditional release: which tests separate it from the call
                    if b.id not in cfgq.reach_set(f, [b2.id]):
                        continue
                    extra = [(c, t) for c, t, B in cfgq.guards(f, b2.id) if (show(c), t) not in here_keys]
                    okmask = False
                    for c, t in extra:
                        for y in walk(c):
                            if y.get("k") == "Bin" and y.get("op") == "&" and any(z.get("k") == "Mem" and z.get("f") == "type" for z in walk(y["L"])) and mentions_values(y["L"], xid):
                                m = const_val(y["R"])
                                if m is not None and t and (m & T_STRING) and (m & 0x8 or m & 0x10 or m & 0x20):
                                    okmask = True
                                elif m is not None and t:
                                    narrow = (n2.get("l"), show(c)[:60], m)
                    if not okmask:
                        continue
                if via_cursor:
                    loose += 1
                elif k in (0, 1):
                    covered.add(k)
            # a file-local helper that is handed the node and releases key and value on every path through it
            for b2, i2, n2 in f.calls():
                g = prog.func(n2.get("fn")) if n2.get("fn") else None
                if g is None or not g.static or g.file != f.file or g.name == "free_node":
                    continue
                if not ((b2.id == b.id and i2 < i) or (b2.id != b.id and f.dominates(b2.id, b.id))):
                    continue
                for ai, a_ in enumerate(n2.get("args", [])):
                    if strip(a_).get("k") == "Ref" and strip(a_).get("id") == xid:
                        pid_ = [p_.get("id") for p_ in g.params or [] if p_.get("pi") == ai]
                        if not pid_:
                            continue
                        for k in (0, 1):
                            blocks = {b3.id for b3, i3, n3 in g.calls() if n3.get("fn") in ("free_svalue", "free_object") and n3.get("args") and
                                      (slot_of(n3["args"][0], pid_[0]) == k or (n3.get("fn") == "free_object" and k == 0 and mentions_values(n3["args"][0], pid_[0])))}
                            if blocks and g.reach_avoiding([g.entry], lambda blk: blk.id == g.exit, avoid_blocks=blocks) is None:
                                covered.add(k)
            missing = [k for k in (0, 1) if k not in covered]
            ok = len(missing) <= loose
            why = "key and value of the node are released before free_node() at line %s" % n.get("l")
            if not ok:
                what_ = "value" if missing == [1] else "key" if missing == [0] else "key and value"
                why = "free_node(%s) at line %s: the %s of the node is not released on every path to it" % (x.get("n"), n.get("l"), what_)
                if narrow:
                    why += "; the release at line %s happens only under `%s`, a mask (0x%x) without T_STRING: a string stored there keeps its reference for ever" % narrow
            run.ob("C06-i", "node:%s:%d" % (f.name, j), ok, why, f.file, n.get("l"), f.name, what="%s gives a mapping node back without releasing its %s" % (f.name, "contents"))
    run.need(ni >= 4, "free_node() call sites (found %d)" % ni)
