"""C06-g — a reference owned only by a C local does not live across an unprotected LPC callback.

error() unwinds the C stack with longjmp: nothing releases what C locals hold.  The driver's convention is
to *anchor* such a value first (push it on the LPC value stack, which the error recovery pops, or store it
into a structure that is already reachable) and only then run code that may raise.  LPC callbacks
(call_function_pointer, apply, ... outside safe_apply) can always raise - the called code may simply call
error() - so a fresh value held in a local across one is leaked whenever the callback fails.

Owners considered:
  (B) a local assigned from a call whose result is a counted container the caller owns (array_t *, mapping_t *,
      buffer_t * returning functions: the driver's convention is that such results carry a reference)
  (A) a local on which the function takes a reference by hand (`v->ref++` / `v->hdr.ref++`) and which it later
      releases itself with a free_* call
Path rule per owner: from the point of ownership, no call that runs LPC code without a catch barrier is
reachable before the value is anchored, handed over (stored into non-local storage, returned, passed to a
push_/put_ function), released, or the variable overwritten."""
import callgraph
import cfgq
from core import rel
from facts import strip, show, walk, const_val

OWNED_T = ("struct array_s *", "array_t *", "struct mapping_s *", "mapping_t *", "struct buffer_s *", "buffer_t *")
ANCHOR_PREFIX = ("push_", "put_", "free_", "dealloc_", "pop_")


def _t(x):
    return (x or "").replace("const ", "")


def fresh_sources(prog):
    """functions whose result the caller owns"""
    out = set()
    for f in prog.functions():
        if _t(f.rt) in OWNED_T:
            out.add(f.name)
    return out


def anchors_var(e, vid):
    """does element e hand the variable over / release it / overwrite it?  returns a label or None"""
    for m in walk(e, True):
        k = m.get("k")
        if k == "Asg" and m.get("op") == "=":
            l = strip(m["L"])
            r_has = any(x.get("k") == "Ref" and x.get("id") == vid for x in walk(m["R"]))
            if l.get("k") == "Ref" and l.get("id") == vid and not r_has:
                return "overwritten"
            if r_has and not (l.get("k") == "Ref" and l.get("d") in ("local", "param")):
                return "stored"
        elif k == "Call":
            fn = m.get("fn") or ""
            if any(strip(a).get("k") == "Ref" and strip(a).get("id") == vid for a in m.get("args", [])):
                if fn.startswith(ANCHOR_PREFIX):
                    return fn
        elif k == "Return":
            if "e" in m and any(x.get("k") == "Ref" and x.get("id") == vid for x in walk(m["e"])):
                return "returned"
    return None


def first_unanchored_callback(f, start_blk, start_idx, vid, is_callback, stop_pred=None):
    """walk forward from (block, element index); return the first callback call reached while vid is still
    only locally owned, or None"""
    seen = set()
    work = [(start_blk.id, start_idx + 1)]
    while work:
        bid, i0 = work.pop()
        if (bid, i0 > 0) in seen:
            continue
        seen.add((bid, i0 > 0))
        blk = f.blocks[bid]
        stopped = False
        for j in range(i0, len(blk.el)):
            e = blk.el[j]
            # the callback's own arguments are evaluated first; a callback that receives the value as an argument
            # still leaves the local as the only owner
            for m in walk(e, True):
                if m.get("k") == "Call" and is_callback(m):
                    # anchored earlier in the same element?  (rare) - ignore
                    return m
            if anchors_var(e, vid) or (stop_pred and stop_pred(e)):
                stopped = True
                break
        if stopped:
            continue
        if blk.term and blk.term.get("k") == "Return":
            continue
        skip = None
        c = f.branch_cond(blk)
        if c is not None:
            from facts import normalize_cond
            e0, t0 = normalize_cond(c, True)
            if strip(e0).get("k") == "Ref" and strip(e0).get("id") == vid:
                # on the edge where the variable is null nothing is owned
                skip = blk.succ[1] if t0 else blk.succ[0]
        for s in blk.live_succ():
            if s == skip and blk.succ[0] != blk.succ[1]:
                continue
            work.append((s, 0))
    return None


def check(run, prog, cg, RULE="C06-g"):
    lpc_raising = cg.reaches(callgraph.LPC_SEEDS | {"<unknown>"}, barriers=callgraph.CATCH_BARRIERS | {"fatal"} | callgraph.RAISE_SEEDS)
    # callbacks that reach LPC only through the master's hooks or the snooper's receive_snoop(): a privileged
    # object has to misbehave; reported as undecided
    lpc_raising_user = cg.reaches(callgraph.LPC_SEEDS | {"<unknown>"}, barriers=callgraph.CATCH_BARRIERS | {"fatal", "apply_master_ob", "safe_apply_master_ob", "receive_snoop"} | callgraph.RAISE_SEEDS, cut_edges=cg.snoop_edges())
    fresh = fresh_sources(prog)
    run.need(len(fresh) >= 20, "functions returning owned containers (found %d)" % len(fresh))
    n_owner = 0
    for f in sorted(prog.functions(), key=lambda x: (x.file, x.line)):
        if "/src/" not in f.file and "/lib/" not in f.file:
            continue

        def is_callback(m, f=f):
            if m.get("fn") in callgraph.CATCH_BARRIERS or m.get("fn") in callgraph.RAISE_SEEDS:
                return False
            return bool(cg.callees_of_call(f, m) & lpc_raising)
        if not any(is_callback(n) for b, i, n in f.calls()):
            continue
        # a function that sets up its own recovery point handles its locals itself (reviewed by C05/C06-d)
        if any(n.get("fn") in ("setjmp", "_setjmp", "sigsetjmp", "__sigsetjmp", "save_context") for b, i, n in f.calls()):
            continue
        # (B) fresh results held in a local
        for b in [f.blocks[x] for x in sorted(f.reachable())]:
            for i, e in enumerate(b.el):
                for m in walk(e, True):
                    v = None
                    if m.get("k") == "Asg" and m.get("op") == "=" and strip(m["L"]).get("k") == "Ref" and strip(m["L"]).get("d") == "local":
                        r = strip(m["R"])
                        if r.get("k") == "Call" and r.get("fn") in fresh:
                            v, src = strip(m["L"]), r
                    elif m.get("k") == "Decl":
                        for vv in m.get("vars", []):
                            if "init" in vv and strip(vv["init"]).get("k") == "Call" and strip(vv["init"]).get("fn") in fresh:
                                v, src = vv, strip(vv["init"])
                    if v is None:
                        continue
                    # anchored at birth: the same element also stores the value somewhere non-local (`sp->u.arr = tmp = f()`)
                    born_anchored = False
                    for m2 in walk(e, True):
                        if m2.get("k") == "Asg" and m2.get("op") == "=" and not (strip(m2["L"]).get("k") == "Ref" and strip(m2["L"]).get("d") in ("local", "param")) and any(x is src for x in walk(m2["R"])):
                            born_anchored = True
                        if m2.get("k") == "Call" and (m2.get("fn") or "").startswith(ANCHOR_PREFIX) and any(x is src or x is m for a in m2.get("args", []) for x in walk(a)):
                            born_anchored = True
                    n_owner += 1
                    if born_anchored:
                        continue
                    cb = first_unanchored_callback(f, b, i, v.get("id"), is_callback)
                    run.saw(f)
                    run.ob(RULE, "local-owner:%s:%s:%s=%s" % (rel(f.file), f.name, v.get("n"), src.get("fn")), True if cb is None else (False if cg.callees_of_call(f, cb) & lpc_raising_user else None),
                           "`%s = %s()` at line %s is anchored, handed over or released before any unprotected callback" % (v.get("n"), src.get("fn"), src.get("l")) if cb is None else
                           "`%s = %s()` at line %s is owned only by the C local when %s() at line %s runs LPC code without a catch barrier: if that code raises an error the value is never released" % (
                               v.get("n"), src.get("fn"), src.get("l"), cb.get("fn") or "(*)", cb.get("l")),
                           f.file, src.get("l"), f.name, what="%s leaks the result of %s() when the callback raises" % (f.name, src.get("fn")))
        # (A) references taken by hand and released by hand
        for b in [f.blocks[x] for x in sorted(f.reachable())]:
            for i, e in enumerate(b.el):
                for m in walk(e, True):
                    if not (m.get("k") == "Un" and m.get("op") == "++"):
                        continue
                    t = strip(m["e"])
                    if not (t.get("k") == "Mem" and t.get("f") == "ref"):
                        continue
                    base = strip(t["b"])
                    while base.get("k") == "Mem":
                        base = strip(base["b"])
                    if not (base.get("k") == "Ref" and base.get("d") in ("local", "param")):
                        continue
                    vid = base.get("id")
                    # released by hand later in this function?
                    rel_calls = [n2 for b2, i2, n2 in f.calls() if (n2.get("fn") or "").startswith(("free_", "dealloc_")) and any(strip(a).get("k") == "Ref" and strip(a).get("id") == vid for a in n2.get("args", []))]
                    if not rel_calls:
                        continue
                    n_owner += 1
                    cb = first_unanchored_callback(f, b, i, vid, is_callback)
                    run.saw(f)
                    run.ob(RULE, "manual-ref:%s:%s:%s" % (rel(f.file), f.name, base.get("n")), True if cb is None else (False if cg.callees_of_call(f, cb) & lpc_raising_user else None),
                           "the reference taken on `%s` at line %s is released before any unprotected callback" % (base.get("n"), m.get("l")) if cb is None else
                           "`%s` gets a reference by hand at line %s that only the later %s() gives back; %s() at line %s runs LPC code without a catch barrier in between: an error raised there skips the release" % (
                               base.get("n"), m.get("l"), rel_calls[0].get("fn"), cb.get("fn") or "(*)", cb.get("l")),
                           f.file, m.get("l"), f.name, what="%s holds a hand-counted reference on %s across a callback that can raise" % (f.name, base.get("n")))
    run.need(n_owner >= 5, "locally owned references in functions that run callbacks (found %d)" % n_owner)
