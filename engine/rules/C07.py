"""C07 — calls respect visibility, whatever came before (structural clauses; resolution order is not decided).

C07-a  apply_low: both dispatch sites are control-dependent on function_visible(origin, flags) with the
       flags read from the *object's* program at runtime_index + function_index_offset;
       function_visible refuses call_other on static/private/protected
C07-b  the cache cannot change the verdict: hit test compares id, program pointer and name; a negative
       entry is written only when the lookup found nothing; every field the hit path reads is written
       on the miss path
C07-c  program ids come from get_id_number() only; writers of the cache are apply_low/clear_apply_cache"""
import facts
import cfgq
from core import rel
from facts import strip, show, walk, const_val, normalize_cond, atom_of

CREC = ("cache_entry_s", "cache_entry_t")


def check(run, prog, tier):
    run.rule("C07-a", "apply_low dispatches (call_program/eval_instruction) only under function_visible(origin, flags of ob->prog at runtime_index+offset) true; function_visible(ORIGIN_CALL_OTHER) rejects NAME_STATIC|NAME_PRIVATE|NAME_PROTECTED", 4)
    run.rule("C07-b", "apply cache: hit test = (id, program pointer, name); negative entries only when the lookup returned NULL; fields read on the hit path are all written on the miss path", 3)
    run.rule("C07-c", "program_t.id_number is assigned only from get_id_number(); the cache is written only by apply_low and clear_apply_cache", 2)

    unit = prog.unit("src/apply.c")
    import inline as _inl
    al = _inl.inlined(run.need(unit.funcs.get("apply_low"), "apply_low"))
    fv = run.need(unit.funcs.get("function_visible"), "function_visible")
    run.saw(al)
    run.saw(fv)

    # ---- C07-a
    disp = [(b, i, n) for b, i, n in al.calls() if n.get("fn") in ("eval_instruction", "call_program")]
    run.need(len(disp) >= 2, "dispatch sites in apply_low")
    for j, (b, i, n) in enumerate(disp):
        vis = None
        for c, t, B in cfgq.guards(al, b.id):
            c0 = strip(c)
            if c0.get("k") == "Call" and c0.get("fn") == "function_visible" and t:
                vis = c0
        ok = vis is not None
        why = "not guarded by function_visible(...) true"
        if ok:
            fl = strip(vis["args"][1])
            org = strip(vis["args"][0])
            # flags variable: its initialiser/assignment
            src = None
            for b2, i2, n2 in al.nodes():
                if n2.get("k") == "Decl":
                    for v in n2.get("vars", []):
                        if v.get("id") == fl.get("id") and "init" in v and al.dominates(b2.id, b.id):
                            src = strip(v["init"])
            txt = show(src) if src else "?"

            def good(e, depth=0):
                e = strip(e) if e else e
                if not isinstance(e, dict) or depth > 3:
                    return False
                if e.get("k") == "Sub" and strip(e["b"]).get("f") == "function_flags" and "runtime_index +" in show(e["i"]) and show(strip(strip(e["b"])["b"])) in ("ob->prog", "entry->oprogp"):
                    return True
                if e.get("k") == "Mem" and e.get("rec") in CREC:
                    # a cached copy: every store into that cache field must itself be a good flags value
                    st = [n2 for b2, i2, n2 in al.nodes() if n2.get("k") == "Asg" and strip(n2["L"]).get("k") == "Mem" and strip(n2["L"]).get("f") == e["f"] and strip(n2["L"]).get("rec") in CREC]
                    return bool(st) and all(good(n2["R"], depth + 1) for n2 in st)
                if e.get("k") == "Ref" and e.get("d") == "local":
                    for b2, i2, n2 in al.nodes():
                        if n2.get("k") == "Decl":
                            for v in n2.get("vars", []):
                                if v.get("id") == e.get("id") and "init" in v:
                                    return good(v["init"], depth + 1)
                return False
            good_flags = good(src)
            good_org = org.get("n") == "local_call_origin"
            ok = good_flags and good_org
            why = "function_visible(%s, %s) with flags = %s" % (show(org), show(fl), txt)
        run.ob("C07-a", "dispatch:%d" % j, ok, why, al.file, n.get("l"), "apply_low", what="apply_low runs a function without (or with the wrong) visibility test: " + why)
    # function_visible body
    okv, whyv = False, "no ORIGIN_CALL_OTHER case rejecting static/private/protected"
    for bid in fv.reachable():
        c = fv.branch_cond(bid)
        if c is None:
            continue
        c0 = strip(c)
        if c0.get("k") == "Bin" and c0.get("op") == "&" and strip(c0["L"]).get("d") == "param":
            need = {"NAME_STATIC", "NAME_PRIVATE", "NAME_PROTECTED"}
            have = set()
            for x in walk(c0["R"]):
                have |= set(x.get("m") or ())
            sg = cfgq.switch_guard(fv, bid)
            labels = [l.get("src") for l in (sg[1] if sg else []) if l]
            s = fv.blocks[bid].succ[0]
            ret0 = s is not None and any(e.get("k") == "Return" and const_val(e.get("e")) == 0 for e in fv.blocks[s].el)
            # the same selection written as `if (origin != ORIGIN_CALL_OTHER) return 1;` in front of the test
            by_if = False
            for cg_, tg_, Bg_ in cfgq.guards(fv, bid):
                op_, l_, r_ = atom_of(cg_, tg_)
                if op_ == "==" and r_ is not None and strip(l_).get("d") == "param" and facts.any_in_macro(r_, "ORIGIN_CALL_OTHER"):
                    by_if = True
            if by_if:
                labels = labels + ["ORIGIN_CALL_OTHER"]
            okv = need <= have and "ORIGIN_CALL_OTHER" in labels and ret0
            whyv = "case %s: flags & (%s) -> return 0: %s" % (labels, sorted(have & need), ret0)
    run.ob("C07-a", "visible:call_other", okv, whyv, fv.file, fv.line, "function_visible", what="call_other can reach static/private/protected functions: " + whyv)
    # driver-side origins stay visible: no other case returns 0
    zeros = [e for b, i, e in fv.elements() if e.get("k") == "Return" and const_val(e.get("e")) == 0]
    run.ob("C07-a", "visible:driver", len(zeros) == 1, "%d refusing return(s) in function_visible (only the call_other case)" % len(zeros), fv.file, fv.line, "function_visible",
           what="function_visible refuses callers other than call_other (driver applies, call_out, local calls must succeed)")

    # ---- C07-b
    hit = None
    atoms = []
    for bid in sorted(al.reachable(), reverse=True):
        c = al.branch_cond(bid)
        if c is None:
            continue
        t = show(strip(c))
        if "entry->id == progp->id_number" in t or "entry->oprogp == progp" in t or ("strcmp(entry->name" in t):
            atoms.append(t)
    want = ["entry->id == progp->id_number", "entry->oprogp == progp", "strcmp(entry->name, fun) == 0"]
    okh = all(any(w in a for a in atoms) for w in want)
    run.ob("C07-b", "hit-test", okh, "hit test atoms: %s" % atoms, al.file, al.line, "apply_low", what="the apply cache hit test does not compare id, program and name: %s" % atoms)
    negs = [(b, i, n) for b, i, n in al.nodes() if n.get("k") == "Asg" and strip(n["L"]).get("f") == "progp" and strip(n["L"]).get("rec") in CREC and const_val(n["R"]) == 0]
    run.need(negs, "negative cache entry store in apply_low")
    for j, (b, i, n) in enumerate(negs):
        # the result of the function lookup: a local program pointer (whatever it is called) that is null on this path
        notfound = any((strip(c).get("k") == "Ref" and strip(c).get("d") == "local" and "program" in (strip(c).get("t") or "") and t is False) for c, t, B in cfgq.guards(al, b.id))
        run.ob("C07-b", "negative-entry:%d" % j, notfound, "`%s` under `prog == NULL` (lookup found nothing): %s" % (show(n), notfound), al.file, n.get("l"), "apply_low",
               what="apply_low caches 'function not in object' although the lookup found it (only invisible to this caller): later driver calls of that name are refused")
    # field agreement: read on hit path ⊆ written on miss-positive path
    written = set()
    for b, i, n in al.nodes():
        if n.get("k") == "Asg" and strip(n["L"]).get("k") == "Mem" and strip(n["L"]).get("rec") in CREC:
            written.add(strip(n["L"])["f"])
        # chained assignment a = b = c
    read = set()
    wr_ids = set()
    for b, i, n in al.nodes():
        if n.get("k") == "Asg" and n.get("op") == "=" and strip(n["L"]).get("k") == "Mem" and strip(n["L"]).get("rec") in CREC:
            wr_ids.add(id(strip(n["L"])))
    for b, i, e in al.elements():
        for n in walk(e, True):
            if n.get("k") == "Mem" and n.get("rec") in CREC and id(n) not in wr_ids:
                read.add(n["f"])
    run.ob("C07-b", "fields", read <= written, "hit path reads %s; miss path writes %s" % (sorted(read), sorted(written)), al.file, al.line, "apply_low",
           what="cache fields read but never written: %s" % sorted(read - written))

    # ---- C07-c
    idw = []
    cachew = set()
    for f in prog.functions():
        for b, i, n in f.nodes():
            if n.get("k") == "Asg" and strip(n["L"]).get("k") == "Mem" and strip(n["L"]).get("f") == "id_number" and strip(n["L"]).get("rec") in ("program_s", "program_t"):
                idw.append((f.name, show(n["R"])))
            if n.get("k") == "Asg" and strip(n["L"]).get("k") == "Mem" and strip(n["L"]).get("rec") in CREC:
                cachew.add(f.name)
    okid = bool(idw) and all("get_id_number" in r for fn, r in idw)
    run.ob("C07-c", "id-writers", okid, "id_number writers: %s" % idw, None, None, None, what="program ids not from get_id_number(): %s" % idw)
    import helpers
    cachew = helpers.fold(prog, cachew, {"apply_low", "clear_apply_cache"})
    run.ob("C07-c", "cache-writers", cachew <= {"apply_low", "clear_apply_cache"}, "cache written by %s" % sorted(cachew), al.file, None, None, what="apply cache written by %s" % sorted(cachew))

    # ---- C07-d  the origin is handed over through a global that apply_low consumes and clears
    import callgraph
    from dataflow import solve
    run.rule("C07-d", "every store to the global call_origin is consumed by the next apply_low on all paths: no call that can run LPC code (which itself consumes/clears the global, e.g. loading the target) and no function exit lies between the store and apply_low", 4)
    cg = callgraph.CallGraph(prog)
    eff = callgraph.Effects(cg)
    consumers = {"apply_low"}
    returning_lpc = cg.reaches(callgraph.LPC_SEEDS | {"<unknown>"}, barriers={"fatal"} | callgraph.RAISE_SEEDS)
    stores = 0
    for f in sorted(prog.functions(), key=lambda x: (x.file, x.line)):
        if f.name == "apply_low":
            continue
        sites = [(b, i, n) for b, i, n in f.nodes() if n.get("k") == "Asg" and strip(n["L"]).get("k") == "Ref" and strip(n["L"]).get("n") == "call_origin" and strip(n["L"]).get("d") in ("global", "static")]
        if not sites:
            continue
        run.saw(f)
        bad = {}

        def transfer(blk, st, record=False):
            for i, e in enumerate(blk.el):
                for n in walk(e, True):
                    k = n.get("k")
                    if k == "Call":
                        if n.get("fn") in consumers:
                            st = frozenset()
                        elif st:
                            # a call that only reaches LPC by raising an error never returns here
                            ret_lpc = cg.callees_of_call(f, n) & returning_lpc
                            if ret_lpc and record:
                                for s in st:
                                    bad.setdefault(s, []).append("%s() at line %s can run LPC code (and with it a nested apply_low that clears call_origin) before the origin is consumed" % (n.get("fn") or "(*)", n.get("l")))
                    elif k == "Asg" and strip(n["L"]).get("k") == "Ref" and strip(n["L"]).get("n") == "call_origin":
                        st = frozenset([n.get("l")])
                    elif k == "Return" and st and record:
                        for s in st:
                            bad.setdefault(s, []).append("return at line %s leaves the origin set for whatever apply_low runs next" % n.get("l"))
            return st
        ins = solve(f, frozenset(), lambda b, s: transfer(b, s), None, lambda a, b: a | b)
        for bid in sorted(f.reachable(), reverse=True):
            if bid in ins:
                out = transfer(f.blocks[bid], ins[bid], True)
                if out and f.exit in [s for s in f.blocks[bid].succ if s is not None] and not any(n.get("k") == "Return" for e in f.blocks[bid].el for n in walk(e, True)):
                    for s in out:
                        bad.setdefault(s, []).append("the function can end with the origin still set")
        ordn = 0
        for b, i, n in sorted(sites, key=lambda x: x[2].get("l") or 0):
            stores += 1
            inst = "origin:%s:%s:%d" % (rel(f.file), f.name, ordn)
            ordn += 1
            why = bad.get(n.get("l"))
            run.ob("C07-d", inst, not why, "call_origin = %s is consumed by the next apply_low with nothing in between" % show(n["R"]) if not why else "call_origin = %s: %s" % (show(n["R"]), why[0]), f.file, n.get("l"), f.name,
                   what="%s sets call_origin but %s" % (f.name, why[0] if why else ""))
    run.need(stores >= 4, "stores to call_origin (found %d)" % stores)

    # ---- C07-e entering an inherited program accumulates the inherit entry's offsets
    run.rule("C07-e", "stores to the globals function_index_offset / variable_index_offset: a value taken from an inherit_t entry is always ADDED to the current offset (an inherit entry's offsets are relative to the inheriting program, which itself may sit at a non-zero offset in the object); function and variable offsets are updated as a pair from the same entry", 8)
    IREC = ("inherit_s", "inherit_t")
    ns = 0
    for f in sorted(prog.functions(), key=lambda x: (x.file, x.line)):
        stores = [(b, i, n) for b, i, n in f.nodes() if n.get("k") == "Asg" and strip(n["L"]).get("k") == "Ref" and strip(n["L"]).get("d") in ("global", "static") and strip(n["L"]).get("n") in ("function_index_offset", "variable_index_offset")]
        if not stores:
            continue
        run.saw(f)
        ordn = {}
        for b, i, n in sorted(stores, key=lambda x: (x[2].get("l") or 0, strip(x[2]["L"]).get("n"))):
            ns += 1
            g = strip(n["L"]).get("n")
            o = ordn.get(g, 0)
            ordn[g] = o + 1
            rhs = n["R"]
            from_inherit = [x for x in walk(rhs) if x.get("k") == "Mem" and x.get("rec") in IREC and x.get("f") in ("function_index_offset", "variable_index_offset")]
            inst = "offset-store:%s:%s:%s:%d" % (rel(f.file), f.name, g, o)
            if not from_inherit:
                run.ob("C07-e", inst, True, "%s %s %s: not taken from an inherit entry (reset, frame restore, or the offset computed by find_function)" % (g, n.get("op"), show(rhs)[:40]), f.file, n.get("l"), f.name)
                continue
            accum = n.get("op") == "+=" or any(x.get("k") == "Ref" and x.get("n") == g for x in walk(rhs))
            right_field = all(x.get("f") == g for x in from_inherit)
            # the sibling offset is updated from the same entry in the same block
            other = "variable_index_offset" if g == "function_index_offset" else "function_index_offset"
            base = show(strip(from_inherit[0]["b"]))
            sib = any(n2.get("k") == "Asg" and strip(n2["L"]).get("n") == other and any(x.get("k") == "Mem" and x.get("rec") in IREC and x.get("f") == other and show(strip(x["b"])) == base for x in walk(n2["R"])) for b2, i2, n2 in f.nodes() if b2.id == b.id)
            ok = accum and right_field and sib
            why = []
            if not accum:
                why.append("assigned, not added: the caller's own offset inside the object is dropped")
            if not right_field:
                why.append("takes the other kind of offset")
            if not sib:
                why.append("%s is not updated from the same inherit entry next to it" % other)
            run.ob("C07-e", inst, ok, "%s %s %s%s" % (g, n.get("op"), show(rhs)[:50], "" if ok else ": " + "; ".join(why)), f.file, n.get("l"), f.name,
                   what="%s sets %s from an inherit entry incorrectly (%s): with multiple inheritance the callee runs with another program's functions and variables" % (f.name, g, "; ".join(why)))
    run.need(ns >= 8, "stores to the offset globals (found %d)" % ns)

    # ---- C07-f the slot apply_low consults carries the function's modifiers: alias slots included
    run.rule("C07-f", "epilog(): every runtime slot flagged NAME_ALIAS receives the flags of the function it aliases (FUNCTION_FLAGS(i) = FUNCTION_FLAGS(which) | NAME_ALIAS) on every path through the alias branch - apply_low() reads visibility and varargs bits from whichever slot the lookup lands on", 1)
    ep = run.need(prog.func("epilog"), "epilog")
    run.saw(ep)
    alias_tests = [bid for bid in ep.reachable() if ep.branch_cond(bid) is not None and facts.any_in_macro(ep.branch_cond(bid), "NAME_ALIAS") and not facts.any_in_macro(ep.branch_cond(bid), "NAME_PROTOTYPE")
                   and strip(normalize_cond(ep.branch_cond(bid), True)[0]).get("k") == "Bin" and normalize_cond(ep.branch_cond(bid), True)[1]]
    run.need(alias_tests, "NAME_ALIAS test in epilog")
    ok_all = True
    why = ""
    for T in alias_tests:
        c0, t0 = normalize_cond(ep.branch_cond(T), True)
        blk = ep.blocks[T]
        s_true = blk.succ[0] if t0 else blk.succ[1]
        s_false = blk.succ[1] if t0 else blk.succ[0]
        stores = {b.id for b, i, n in ep.nodes() if n.get("k") == "Asg" and n.get("op") == "=" and facts.any_in_macro(n["L"], "FUNCTION_FLAGS") and facts.any_in_macro(n["R"], "NAME_ALIAS") and facts.any_in_macro(n["R"], "FUNCTION_FLAGS")}
        if not stores:
            ok_all, why = False, "no store FUNCTION_FLAGS(i) = FUNCTION_FLAGS(which) | NAME_ALIAS in epilog"
            break
        # from the alias branch to wherever the non-alias path continues, avoiding the store
        p = ep.reach_avoiding([s_true], lambda b2, t=s_false: b2.id == t, avoid_blocks=stores)
        if p is not None:
            ok_all, why = False, "path %s leaves the alias branch without copying the aliased function's flags: the alias slot keeps NAME_INHERITED|NAME_ALIAS only (no static/private/protected/varargs bits)" % (p[:8],)
    run.ob("C07-f", "alias-flags", ok_all, "every alias slot gets the flags of the aliased function" if ok_all else why, ep.file, ep.blocks[alias_tests[0]].term.get("l") if ep.blocks[alias_tests[0]].term else ep.line, "epilog",
           what="epilog leaves alias slots without the aliased function's modifiers: call_other can reach a static function through a program that inherits colliding definitions")

    import rules.C07g as c07g
    c07g.check(run, prog, tier)

    # ---- C07-h a name resolves the same way whatever was compiled before
    run.rule("C07-h", "compile-time resolution of a called name looks at the identifier's function_num first (a function of the program being compiled), then simul_efuns and efuns; free_unused_identifiers() at the end of every compilation resets that binding for permanent identifiers (the dirty list) on every path, so a program that redefines an efun name cannot make the next program's call of that efun a local call into its own function table", 3)
    import rules.identreset as identreset
    identreset.check(run, prog, "C07-h", "the next program's call of a redefined efun name is compiled as a local call to whatever function sits in that slot (possibly static/private)")

    # ---- C07-i an object's program is swapped only while no function pointer indexes into it
    run.rule("C07-i", "a local function pointer stores a run-time index into its owner's current program and counts itself in program_t.func_ref; the program of an existing object is re-pointed (`X->prog = other` outside object creation) only on a path where the old program's func_ref was tested to be 0 at that moment - a test made when the request was queued does not cover pointers made since", 1)
    ni_ = 0
    for f in sorted(prog.functions(), key=lambda x: (x.file, x.line)):
        stores = [(b, i, n) for b, i, n in f.nodes() if n.get("k") == "Asg" and n.get("op") == "=" and strip(n["L"]).get("k") == "Mem" and strip(n["L"]).get("f") == "prog" and strip(n["L"]).get("rec") == "object_s" and strip(n["L"]).get("a") and const_val(n["R"]) != 0]
        if not stores or any(True for _ in f.calls("get_empty_object")):
            continue        # creation: the object is new, nothing can point into it yet
        for j, (b, i, n) in enumerate(stores):
            ni_ += 1
            run.saw(f)
            tested = False
            for c, t, B in cfgq.guards(f, b.id):
                e, tt = normalize_cond(c, t)
                e = strip(e)
                if not tt and any(y.get("k") == "Mem" and y.get("f") == "func_ref" for y in walk(e)) and (e.get("k") == "Mem" or (e.get("k") == "Bin" and e.get("op") in ("!=", ">") and const_val(e["R"]) == 0)):
                    tested = True
                if tt and e.get("k") == "Bin" and e.get("op") == "==" and const_val(e["R"]) == 0 and any(y.get("k") == "Mem" and y.get("f") == "func_ref" for y in walk(e["L"])):
                    tested = True
            run.ob("C07-i", "swap:%s:%d" % (f.name, j), tested, "`%s` is reached only with func_ref of the old program 0" % show(n)[:50] if tested else
                   "`%s` (line %s) replaces the program of a live object without a test of the old program's func_ref on the way: a function pointer made since the request keeps its index and calls whatever function has that index in the new program" % (show(n)[:50], n.get("l")),
                   f.file, n.get("l"), f.name, what="%s swaps an object's program while function pointers index into the old one" % f.name)
    run.need(ni_ >= 1, "re-pointing stores to object_t.prog (found %d)" % ni_)
