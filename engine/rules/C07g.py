"""C07-g — the flags of an inherited function's slot come from the slot of the program named in the
inherit statement.

Modifiers that an intermediate level added with `static inherit` / `private inherit` live only in the
function_flags[] of that intermediate program: the flags of the same function in the program that defines
it do not carry them.  The compiler handles an `inherit` by walking every slot i of the inherited program
`from` and, for each, walking up to the real definition (`prog = prog->inherit[..].prog`).  Any
`P->function_flags[I]` value that flows into a FUNCTION_FLAGS(slot) store must be read through the program
pointer that is never advanced by that walk and the index that is never replaced by an inherit entry's
index."""
import facts
from facts import strip, show, walk

UNIT = "lib/lpc/compiler.c"


def _is_ff_read(n):
    n = strip(n)
    if n.get("k") != "Sub":
        return None
    base = strip(n.get("b") or {})
    if base.get("k") == "Mem" and base.get("f") == "function_flags":
        return n
    return None


def _sub_parts(n):
    base = strip(n.get("b") or {})
    return strip(base.get("b") or {}), strip(n.get("i") or {})


def _defs(f, vid):
    out = []
    for b, i, n in f.nodes():
        if n.get("k") == "Asg" and strip(n["L"]).get("k") == "Ref" and strip(n["L"]).get("id") == vid:
            out.append(n["R"])
        elif n.get("k") == "Decl":
            for v in n.get("vars", ()):
                if v.get("id") == vid and isinstance(v.get("init"), dict):
                    out.append(v["init"])
    return out


def check(run, prog, tier):
    run.rule("C07-g", "compiler, inherit handling: every P->function_flags[I] read that flows (through locals and file-local helpers) into a FUNCTION_FLAGS(slot) store is read through the program named in the inherit statement and its own slot index - at each call site of the storing function, the program argument is a variable that the walk to the real definition (x = x->inherit[..].prog) never advances and the index argument is never replaced by an inherit entry's index; the defining program's flags lack the modifiers added by intermediate `static/private inherit` levels", 2)
    unit = prog.unit(UNIT)
    funcs = unit.funcs
    run.need(funcs.get("copy_functions"), "copy_functions")

    callsites = {}
    for f in funcs.values():
        for b, i, c in f.calls():
            if c.get("fn") in funcs:
                callsites.setdefault(c["fn"], []).append((f, c))

    def leaves(f, e, seen, depth=0, bind=None):
        """function_flags reads the value of e may come from: [(func, subnode)].  `bind` maps the
        parameters of a helper entered through one call to that call's arguments (context-sensitive);
        parameters of the storing function itself are followed to every call site."""
        out = []
        if depth > 6:
            return out
        for n in walk(e):
            s = _is_ff_read(n)
            if s is not None:
                out.append((f, s))
                continue
            if n.get("k") == "Ref" and n.get("id") is not None and (f.name, n["id"], depth if bind else 0) not in seen:
                seen.add((f.name, n["id"], depth if bind else 0))
                for d in _defs(f, n["id"]):
                    out += leaves(f, d, seen, depth + 1, bind)
                if n.get("d") == "param":
                    if bind is not None:
                        cf, args, cbind = bind
                        if n["pi"] < len(args):
                            out += leaves(cf, args[n["pi"]], seen, depth + 1, cbind)
                    else:
                        for cf, c in callsites.get(f.name, []):
                            args = c.get("args") or []
                            if n["pi"] < len(args):
                                out += leaves(cf, args[n["pi"]], seen, depth + 1, None)
            if n.get("k") == "Call" and n.get("fn") in funcs and n["fn"] != f.name:
                g = funcs[n["fn"]]
                for b, i, r in g.nodes():
                    if r.get("k") == "Return" and r.get("e") is not None:
                        out += leaves(g, r["e"], seen, depth + 1, (f, n.get("args") or [], bind))
        return out

    def advanced(f, vid):
        """is the variable advanced by the walk to the definition (assigned from an inherit entry)?"""
        for d in _defs(f, vid):
            for n in walk(d):
                if n.get("k") == "Mem" and n.get("f") in ("inherit", "inh", "def", "f_index", "runtime_index"):
                    return show(d)[:60]
        return None

    def origin(f, e, role, depth=0):
        """None if e denotes the inherit statement's program / slot; else reason"""
        e = strip(e)
        if e.get("k") != "Ref":
            for n in walk(e):
                if n.get("k") == "Mem" and n.get("f") in ("inherit", "inh", "def", "f_index", "runtime_index"):
                    return "`%s` is taken from an inherit/definition entry" % show(e)[:60]
            refs = [n for n in walk(e) if n.get("k") == "Ref" and n.get("id") is not None]
            for r in refs:
                why = origin(f, r, role, depth)
                if why:
                    return why
            return None
        adv = advanced(f, e.get("id"))
        if adv:
            return "`%s` in %s is advanced towards the real definition (%s)" % (e.get("n"), f.name, adv)
        pidx = [e["pi"]] if e.get("d") == "param" else []
        if pidx and depth < 4:
            for cf, c in callsites.get(f.name, []):
                args = c.get("args") or []
                if pidx[0] < len(args):
                    why = origin(cf, args[pidx[0]], role, depth + 1)
                    if why:
                        return "%s <- %s:%s: %s" % (e.get("n"), cf.name, c.get("l"), why)
            return None
        for d in _defs(f, e.get("id")):
            why = origin(f, d, role, depth + 1) if depth < 4 else None
            if why:
                return why
        return None

    n_inst = 0
    for f in funcs.values():
        for b, i, n in f.nodes():
            if n.get("k") != "Asg" or not facts.any_in_macro(n["L"], "FUNCTION_FLAGS"):
                continue
            lv = leaves(f, n["R"], set())
            # a store that copies another compile-time slot (FUNCTION_FLAGS(x)) has no function_flags leaf
            if not lv:
                continue
            run.saw(f)
            seenl = set()
            for lf, s in lv:
                key = (lf.name, s.get("l"), show(s))
                if key in seenl:
                    continue
                seenl.add(key)
                P, I = _sub_parts(s)
                whyp = origin(lf, P, "program")
                whyi = origin(lf, I, "index")
                ok = not whyp and not whyi
                n_inst += 1
                inst = "%s:%s<-%s" % (f.name, show(strip(n["L"]))[-24:].strip(), show(s)[:48])
                run.ob("C07-g", inst, ok,
                       "slot flags in %s come from `%s` read in %s: the inherit statement's program and slot" % (f.name, show(s)[:48], lf.name) if ok
                       else "slot flags in %s come from `%s` read in %s: %s" % (f.name, show(s)[:48], lf.name, whyp or whyi),
                       f.file, n.get("l"), f.name,
                       what="the slot of an inherited function takes its flags from the defining program instead of the inherited program's slot: modifiers added by an intermediate `static inherit`/`private inherit` are lost and call_other reaches the function (%s)" % (whyp or whyi))
