"""C08 — object names, inventories and destruction stay consistent (structural clauses).

C08-a  every interpreter case that copies a stored value onto the stack replaces a destructed object by 0;
       destruct_object scrubs the value stack first
C08-b  destruct_object unlinks everywhere before it marks the object destructed, and disconnects after
C08-d  move_object: the cycle test and the destination-destructed test dominate the relink
The forest invariant over histories and re-validation after re-entrant hooks (C08-c) are not decided."""
import facts
import cfgq
from core import rel
from facts import strip, show, walk, const_val, normalize_cond, atom_of

# interpreter cases that copy a stored value (variable, container element) onto the stack
FETCH_CASES = ("F_PUSH", "F_LOCAL", "F_GLOBAL", "F_INDEX", "F_RINDEX", "F_MEMBER")
# cases that call assign_svalue* with a stored source but need no scrub (one reason each)
FETCH_REVIEWED = {
    "F_ADD_EQ": "pushes the value just computed by += (string/number/array/mapping; an object operand is a type error)",
    "F_VOID_ADD_EQ": "same as F_ADD_EQ",
    "F_NEXT_FOREACH": "stores into the loop variables (lvalues); they are fetched later through F_LOCAL/F_GLOBAL, which scrub",
    "F_EXPAND_VARARGS": "spreads an argument array onto the stack for a call; the callee fetches them through F_LOCAL, which scrubs",
    "F_ASSIGN": "store into an lvalue, not a fetch",
    "F_VOID_ASSIGN": "store into an lvalue, not a fetch",
    "F_VOID_ASSIGN_LOCAL": "store into a local, not a fetch",
    "F_NOT": "pushes const0",
}


def mentions(e, m):
    return facts.any_in_macro(e, m)


def check(run, prog, tier):
    run.rule("C08-a", "eval_instruction: F_PUSH/F_LOCAL/F_GLOBAL/F_INDEX/F_RINDEX/F_MEMBER test T_OBJECT && O_DESTRUCTED and substitute 0; any other case copying a stored value is reviewed; destruct_object calls remove_object_from_stack first", 8)
    run.rule("C08-b", "destruct_object: every path to `flags |= O_DESTRUCTED` passes the stack scrub, inventory unlink, name-hash removal, obj_list unlink, living-name removal, sentence release, input_to scrub, heart beat removal and the link onto obj_list_destruct (conditional steps may be bypassed only through their own 'nothing to do' edge); remove_interactive follows", 10)
    run.rule("C08-d", "move_object: the relink stores are dominated by the containment-cycle test and by the destination-not-destructed edge", 2)

    ei = run.need(prog.func("eval_instruction"), "eval_instruction")
    do = run.need(prog.func("destruct_object"), "destruct_object")
    mo = run.need(prog.func("move_object"), "move_object")
    for f in (ei, do, mo):
        run.saw(f)

    # ---- C08-a
    S = [bid for bid in ei.reachable() if ei.blocks[bid].term and ei.blocks[bid].term["k"] == "SwitchStmt" and len(ei.blocks[bid].succ) > 100]
    run.need(S, "dispatch switch")
    S = S[0]
    heads = [bid for bid in ei.reachable() if any(p in ei.reachable() and ei.dominates(bid, p) for p in ei.blocks[bid].preds)]
    H = [h for h in heads if ei.dominates(h, S)][0]
    seen_fetch = set()
    for s in ei.blocks[S].live_succ():
        lab = ei.blocks[s].label
        if not lab or lab.get("k") != "case":
            continue
        name = lab.get("src")
        region = cfgq.reach_set(ei, [s], avoid_blocks=[H, S])
        copies = []
        scrub = False
        subst = False
        for bid in region:
            blk = ei.blocks[bid]
            c = ei.branch_cond(blk)
            if c is not None and mentions(c, "O_DESTRUCTED"):
                scrub = True
                # the true edge substitutes const0 / 0
                t = blk.succ[0]
                if t is not None:
                    txt = " ".join(show(e) for e in ei.blocks[t].el)
                    if "const0" in txt or "= 0" in txt or "const0u" in txt:
                        subst = True
            for e in blk.el:
                for n in walk(e, True):
                    if n.get("k") == "Call" and n.get("fn") in ("assign_svalue_no_free", "assign_svalue"):
                        src = show(strip(n["args"][1]))
                        if src not in ("&const0", "&const1", "&const0u"):
                            copies.append(src)
        if name in FETCH_CASES:
            seen_fetch.add(name)
            ok = scrub and subst
            run.ob("C08-a", "fetch:%s" % name, ok, "case %s copies %s; O_DESTRUCTED test: %s, substitutes 0: %s" % (name, copies[:2], scrub, subst), ei.file, lab.get("l"), "eval_instruction",
                   what="case %s pushes a stored value without replacing destructed objects by 0" % name)
        elif copies and not scrub:
            why = FETCH_REVIEWED.get(name)
            run.ob("C08-a", "fetch:%s" % name, why is not None, "case %s copies %s without an O_DESTRUCTED test — %s" % (name, copies[:2], why or "not reviewed"), ei.file, lab.get("l"), "eval_instruction",
                   what="new interpreter case %s copies a stored value onto the stack without the destructed-object scrub" % name)
    missing = set(FETCH_CASES) - seen_fetch
    if missing:
        run.need(False, "fetch cases %s in eval_instruction" % sorted(missing))
    dl = prog.func("do_loop_cond_local")
    if dl is not None:
        sc = any(dl.branch_cond(b) is not None and mentions(dl.branch_cond(b), "O_DESTRUCTED") for b in dl.reachable())
        run.ob("C08-a", "fetch:do_loop_cond_local", sc, "do_loop_cond_local tests O_DESTRUCTED on both operands: %s" % sc, dl.file, dl.line, dl.name, what="loop condition reads a destructed object from a local")
    # stack scrub first
    flagstores = [(b, i, n) for b, i, n in do.nodes() if n.get("k") == "Asg" and n.get("op") == "|=" and strip(n["L"]).get("f") == "flags" and mentions(n["R"], "O_DESTRUCTED")]
    run.need(flagstores, "O_DESTRUCTED store in destruct_object")
    fb, fi, fnode = flagstores[0]
    obname = show(strip(strip(fnode["L"])["b"]))

    # ---- C08-b: must-pass steps
    def calls_of(fn, arg0=None):
        return [b.id for b, i, n in do.calls(fn) if arg0 is None or show(strip(n["args"][0])) == arg0]

    def stores(pred):
        return [b.id for b, i, n in do.nodes() if n.get("k") == "Asg" and pred(n)]

    def false_edges(pred):
        """edges on which a truthiness test of `pred(expr)` fails (nothing to do)"""
        out = set()
        for bid in do.reachable():
            c = do.branch_cond(bid)
            if c is None:
                continue
            e, t = normalize_cond(c, True)
            e = strip(e)
            if pred(e):
                s = do.blocks[bid].succ[1] if t else do.blocks[bid].succ[0]
                if s is not None:
                    out.add((bid, s))
        return out

    import loops as _loops
    do_loops = _loops.natural_loops(do)

    def step_blocks(pred, depth=2):
        """blocks of destruct_object that perform a step: the header of a loop whose body contains a node satisfying pred
        (passing the loop is doing the step, however often its body runs), a straight-line block containing one, or a call
        of a function (helpers, two levels) that contains one"""
        def holders(d):
            out = set()
            for g in prog.functions():
                if g is do:
                    continue
                if any(pred(n) for b, i, n in g.nodes()):
                    out.add(g.name)
            for _ in range(d - 1):
                more = {g.name for g in prog.functions() if g is not do and g.static and any(c.get("fn") in out for b, i, c in g.calls())}
                out |= more
            return out
        hs = holders(depth)
        # a helper does the step for the object being destructed only when that object itself is handed to it
        hit = {b.id for b, i, n in do.nodes() if pred(n) or (n.get("k") == "Call" and n.get("fn") in hs and n.get("fn") != do.name
                                                              and any(strip(a).get("k") == "Ref" and strip(a).get("n") == obname for a in n.get("args", [])))}
        out = []
        for bid in sorted(hit, reverse=True):
            # enclosing loops that do not contain the final store; a block that leaves a loop (found it: unlink, break) belongs to it
            heads = [h for h, body in do_loops if fb.id not in body and (bid in body or (do.dominates(h, bid) and do.blocks[bid].preds and all(p in body for p in do.blocks[bid].preds)))]
            out.append(max(heads) if heads else bid)
        return sorted(set(out), reverse=True)

    def is_asg(n):
        return n.get("k") == "Asg" and n.get("op") == "="

    def unlink_of(field, head=None):
        def pred(n):
            if not is_asg(n):
                return False
            r, l = strip(n["R"]), strip(n["L"])
            if not (r.get("k") == "Mem" and r.get("f") == field):
                return False
            return (l.get("k") == "Un" and l.get("op") == "*") or (l.get("k") == "Mem" and l.get("f") in (field, "contains")) or (l.get("k") == "Ref" and l.get("n") == head)
        return pred

    steps = [
        ("stack-scrub", calls_of("remove_object_from_stack", obname), set()),
        ("name-hash", calls_of("remove_object_hash", obname), set()),
        ("obj-list", step_blocks(unlink_of("next_all", "obj_list")), set()),
        ("living-name", calls_of("remove_living_name", obname), false_edges(lambda e: show(e) == obname + "->living_name")),
        ("sentences", step_blocks(lambda n: n.get("k") == "Call" and n.get("fn") == "free_sentence", depth=1), false_edges(lambda e: show(e) == obname + "->sent")),
        ("input-to", step_blocks(lambda n: is_asg(n) and strip(n["L"]).get("k") == "Mem" and strip(n["L"]).get("f") == "input_to" and const_val(n["R"]) == 0), false_edges(lambda e: e.get("n") == "all_users")),
        ("heart-beat", calls_of("set_heart_beat", obname), set()),
        ("destruct-list", stores(lambda n: strip(n["L"]).get("n") == "obj_list_destruct" and show(strip(n["R"])) == obname), set()),
        ("inventory-unlink", step_blocks(unlink_of("next_inv")), false_edges(lambda e: show(e) == obname + "->super")),
    ]
    for name, blocks, bypass in steps:
        if not blocks:
            run.ob("C08-b", "step:" + name, False, "destruct_object has no %s step" % name, do.file, do.line, "destruct_object", what="destruct_object lacks the %s step" % name)
            continue
        p = do.reach_avoiding([do.entry], lambda blk: blk.id == fb.id, avoid_blocks=blocks, avoid_edges=bypass)
        # the early return for an already destructed object / restricted destruct is not a path to the store, so no exemption needed
        run.ob("C08-b", "step:" + name, p is None, "every path to `%s` passes the %s step%s" % (show(fnode), name, " (or its nothing-to-do edge)" if bypass else "") if p is None else
               "path %s marks the object destructed without the %s step" % (p[:14], name), do.file, do.line_of_block(blocks[0]), "destruct_object",
               what="destruct_object can mark an object destructed without the %s step: it stays findable/listed/called" % name)
    # contents moved out first: the store is only reached with ob->contains == NULL
    emptied = any(show(strip(c)) == obname + "->contains" and t is False for c, t, B in cfgq.guards(do, fb.id))
    run.ob("C08-b", "step:contents", emptied, "the flag is set only after the `while (%s->contains)` loop has emptied the inventory: %s" % (obname, emptied), do.file, fnode.get("l"), "destruct_object",
           what="destruct_object marks a container destructed while it still holds objects")
    # remove_interactive afterwards
    ri = calls_of("remove_interactive", obname)
    byp = false_edges(lambda e: show(e) == obname + "->interactive")
    p = do.reach_avoiding([fb.id], lambda blk: do.exit in blk.live_succ() and not blk.nr, avoid_blocks=ri, avoid_edges=byp) if ri else [0]
    run.ob("C08-b", "step:disconnect", p is None, "after the flag is set every path disconnects an interactive object before returning" if p is None else "an interactive object can stay connected after destruction",
           do.file, fnode.get("l"), "destruct_object", what="destruct_object leaves the connection of a destructed interactive object open")

    # ---- C08-d
    # move_object(item, dest): parameters by position; the cycle walk uses some local that starts at dest and follows ->super
    P_ITEM = mo.params[0].get("n") if len(mo.params or []) > 0 else "item"
    P_DEST = mo.params[1].get("n") if len(mo.params or []) > 1 else "dest"
    links = [(b, i, n) for b, i, n in mo.nodes() if n.get("k") == "Asg" and n.get("op") == "=" and show(strip(n["L"])) in (P_DEST + "->contains", P_ITEM + "->super")]
    run.need(len(links) >= 2, "relink stores in move_object")
    # cycle test: a branch `ob == item` whose true edge raises, inside a loop over ob = ob->super that dominates the links
    walkers = {strip(n["L"]).get("n") for b, i, n in mo.nodes() if n.get("k") == "Asg" and n.get("op") == "=" and strip(n["L"]).get("k") == "Ref" and strip(n["L"]).get("d") == "local"
               and strip(n["R"]).get("k") == "Mem" and strip(n["R"]).get("f") == "super" and strip(strip(n["R"])["b"]).get("n") == strip(n["L"]).get("n")}
    cyc = []
    for bid in mo.reachable():
        c = mo.branch_cond(bid)
        if c is None:
            continue
        for idx, truth in ((0, True), (1, False)):
            op, l, r = atom_of(c, truth)
            if op == "==" and r is not None and {strip(l).get("n"), strip(r).get("n")} & walkers and P_ITEM in (strip(l).get("n"), strip(r).get("n")):
                tgt = mo.blocks[bid].succ[idx]
                if tgt is not None and mo.blocks[tgt].nr:
                    cyc.append(bid)
    okc = False
    if cyc:
        heads = [h for h in mo.reachable() if any(p in mo.reachable() and mo.dominates(h, p) for p in mo.blocks[h].preds) and mo.dominates(h, cyc[0])]
        walks_super = bool(walkers)
        starts_dest = any(n.get("k") == "Asg" and strip(n["L"]).get("n") in walkers and strip(n["R"]).get("k") == "Ref" and strip(n["R"]).get("n") == P_DEST for b, i, n in mo.nodes())
        okc = bool(heads) and all(mo.dominates(heads[0], b.id) for b, i, n in links) and walks_super and starts_dest
    run.ob("C08-d", "cycle-test", okc, "loop `for (x = dest; x; x = x->super) if (x == item) error` dominates the relink: %s" % okc, mo.file, mo.line, "move_object",
           what="move_object can create a containment cycle")
    edges = set()
    for bid in mo.reachable():
        c = mo.branch_cond(bid)
        if c is not None and mentions(c, "O_DESTRUCTED") and (P_DEST + "->flags") in show(c):
            e, t = normalize_cond(c, True)
            s = mo.blocks[bid].succ[1] if t else mo.blocks[bid].succ[0]
            if s is not None:
                edges.add((bid, s))
    dl = [x for x in links if show(strip(x[2]["L"])) == P_DEST + "->contains"][0]
    p = cfgq.reach_consistent(mo, [mo.entry], lambda blk: blk.id == dl[0].id, lambda e: "dest" if (e.get("k") == "Ref" and e.get("n") == P_DEST) else None, avoid_edges=edges) if edges else [0]
    run.ob("C08-d", "dest-live", p is None, "`dest->contains = item` is reached only through the not-destructed edge of the destination test" if p is None else "path %s links into the destination without the destructed test" % (p[:10],),
           mo.file, dl[2].get("l"), "move_object", what="move_object can move an object into a destructed object")

    # ---- C08-c inventory links are not written after a re-entrant hook
    import callgraph
    run.rule("C08-c", "no store to an inventory link (object_t.super/.contains/.next_inv, or through an object_t** cursor) is reachable after a call that can run LPC code and return, in the same function; destruct_object's unlink is the one reviewed exception (it re-reads ob->super, see C08-b)", 2)
    cg = callgraph.CallGraph(prog)
    ret_lpc = cg.reaches(callgraph.LPC_SEEDS | {"<unknown>"}, barriers={"fatal"} | callgraph.RAISE_SEEDS)
    LINK = ("super", "contains", "next_inv")
    REVIEWED = {"destruct_object": "the unlink from the environment runs after the move_or_destruct hooks by design; C08-b requires it to re-read ob->super and to walk the environment's list afresh"}
    nst = 0
    for f in sorted(prog.functions(), key=lambda x: (x.file, x.line)):
        stores = [(b, i, n) for b, i, n in f.nodes() if n.get("k") == "Asg" and n.get("op") == "=" and strip(n["L"]).get("k") == "Mem" and strip(n["L"]).get("f") in LINK and strip(n["L"]).get("rec") in ("object_s", "object_t")]
        stores += [(b, i, n) for b, i, n in f.nodes() if n.get("k") == "Asg" and n.get("op") == "=" and strip(n["L"]).get("k") == "Un" and strip(n["L"]).get("op") == "*"
                   and "object_s **" in (strip(strip(n["L"])["e"]).get("t") or "") and any(x.get("k") == "Mem" and x.get("f") in LINK for x in walk(n["R"]))]
        if not stores:
            continue
        run.saw(f)
        nst += len(stores)
        kills = [(b, i, n) for b, i, n in f.calls() if cg.callees_of_call(f, n) & ret_lpc]
        reach = cfgq.reach_set(f, [s for b, i, n in kills for s in f.blocks[b.id].live_succ()])
        late = []
        for b, i, n in stores:
            if b.id in reach or any(kb.id == b.id and ki < i for kb, ki, kn in kills):
                late.append((n.get("l"), show(n)[:50]))
        inst = "links:%s:%s" % (rel(f.file), f.name)
        if not late:
            run.ob("C08-c", inst, True, "%d inventory link store(s), none after a re-entrant call (%d such calls in the function)" % (len(stores), len(kills)), f.file, f.line, f.name)
        elif f.name in REVIEWED:
            run.ob("C08-c", inst, True, "link stores after hooks %s: %s" % ([l for l, t in late], REVIEWED[f.name]), f.file, f.line, f.name)
        else:
            run.ob("C08-c", inst, False, "inventory link written at line %s (`%s`) after a call that can run LPC code: the objects involved may have been moved or destructed by the hook" % late[0], f.file, late[0][0], f.name,
                   what="%s relinks an inventory after a re-entrant hook without starting from fresh state" % f.name)
    run.need(nst >= 6, "inventory link stores (found %d)" % nst)

    # ---- C08-e an object is entered into the name table before anything can destruct it
    run.rule("C08-e", "load_object/clone_object: between linking a new object onto obj_list and enter_object_hash() no call can reach destruct_object (destruct_object removes the object from the name table unconditionally: for an object that was never entered this empties the whole hash bucket)", 2)
    may_destruct = cg.reaches({"destruct_object"} | callgraph.LPC_SEEDS | {"<unknown>"}, barriers={"fatal"})
    ne = 0
    for f in sorted(prog.functions(), key=lambda x: (x.file, x.line)):
        enters = [(b, i, n) for b, i, n in f.calls("enter_object_hash")]
        links = [(b, i, n) for b, i, n in f.nodes() if n.get("k") == "Asg" and n.get("op") == "=" and strip(n["L"]).get("k") == "Ref" and strip(n["L"]).get("n") == "obj_list" and strip(n["L"]).get("d") in ("global", "static")]
        if not enters or not links:
            continue
        ne += 1
        run.saw(f)
        lb, li, ln = links[0]
        follow = sorted([x for x in enters if f.point_dominates((lb.id, li), (x[0].id, x[1]))], key=lambda x: x[2].get("l") or 0)
        if not follow:
            run.ob("C08-e", "enter-before-destruct:%s:%s" % (rel(f.file), f.name), False, "no enter_object_hash() follows the obj_list link at line %s on every path" % ln.get("l"), f.file, ln.get("l"), f.name,
                   what="%s links a new object onto obj_list without entering it into the name table" % f.name)
            continue
        eb, ei, en = follow[0]
        # calls on some path from the link to the enter (or after the link when the enter does not follow at all)
        fwd = cfgq.reach_set(f, [lb.id])
        back = {bid for bid in f.reachable() if eb.id in cfgq.reach_set(f, [bid])}
        bad = []
        for b, i, n in f.calls():
            if not (cg.callees_of_call(f, n) & may_destruct) or n.get("fn") in ("enter_object_hash",):
                continue
            after_link = (b.id == lb.id and i > li) or (b.id != lb.id and b.id in fwd)
            before_enter = (b.id == eb.id and i < ei) or (b.id != eb.id and b.id in back and not f.point_dominates((eb.id, ei), (b.id, i)))
            if after_link and before_enter and not n.get("nr"):
                bad.append("%s() line %s" % (n.get("fn") or "(*)", n.get("l")))
        ordered = f.point_dominates((lb.id, li), (eb.id, ei)) or f.point_dominates((eb.id, ei), (lb.id, li))
        run.ob("C08-e", "enter-before-destruct:%s:%s" % (rel(f.file), f.name), ordered and not bad,
               "obj_list link (line %s) and enter_object_hash (line %s) are adjacent: nothing in between can reach destruct_object" % (ln.get("l"), en.get("l")) if ordered and not bad else
               "between the obj_list link (line %s) and enter_object_hash (line %s) these calls can destruct the object: %s" % (ln.get("l"), en.get("l"), bad[:4]),
               f.file, en.get("l"), f.name, what="%s lets %s run before the new object is in the name table; destructing it then unlinks the head of its hash bucket and every other object in that bucket becomes unfindable" % (f.name, bad[:2]))
    run.need(ne >= 2, "functions that create and enter objects (found %d)" % ne)

    # ---- C08-f walking a command giver's sentence list across verb functions
    import stale
    run.rule("C08-f", "user_parser: after a verb function returned, the sentence pointer is dereferenced only when it is the list head, or when both (a) no sentence was removed (illegal_sentence_action is clear) and (b) the command giver itself is not destructed (destruct_object frees its whole list); every free_sentence() of a list member signals one of the two", 3)
    up = run.need(prog.func("user_parser"), "user_parser")
    run.saw(up)
    tv = {}
    for b, i, n in up.nodes(reachable_only=False):
        if n.get("k") == "Ref" and n.get("d") in ("local", "param") and "sentence_s *" in (n.get("t") or "") and "**" not in (n.get("t") or ""):
            tv[n["id"]] = n["n"]
    run.need(tv, "sentence_t* locals in user_parser")

    def kill(c, st):
        return "k" if cg.callees_of_call(up, c) & ret_lpc else None

    def head_eq(c, t):
        op, l, r = atom_of(c, t)
        if op != "==":
            return None
        for x, y in ((strip(l), strip(r)), (strip(r), strip(l))):
            if x.get("k") == "Ref" and x.get("id") in tv and y.get("k") == "Mem" and y.get("f") == "sent":
                return x.get("id")
        return None

    def refresh_removed(c, t):
        for a, tt in stale.implied_atoms(c, t):
            h = head_eq(a, tt)
            if h is not None:
                yield h
            op, l, r = atom_of(a, tt)
            if (op == "false" and strip(l).get("n") == "illegal_sentence_action") or (op == "==" and strip(l).get("n") == "illegal_sentence_action" and const_val(r) == 0):
                for v in tv:
                    yield v

    def refresh_owner(c, t):
        for a, tt in stale.implied_atoms(c, t):
            h = head_eq(a, tt)
            if h is not None:
                yield h
            op, l, r = atom_of(a, tt)
            l0 = strip(l)
            if op == "false" and l0.get("k") == "Bin" and l0.get("op") == "&" and facts.any_in_macro(l0, "O_DESTRUCTED") and any(x.get("k") == "Mem" and x.get("f") == "flags" and "command_giver" in show(x) for x in walk(l0)):
                for v in tv:
                    yield v
    # `switch (illegal_sentence_action) { case 1: error; case 2: error; }` has no default: that edge is infeasible when
    # every store to the flag is one of the case constants, 0, or a saved earlier value of the flag itself
    infeasible = set()
    flag_vals = set()
    flag_ok = True
    for g in prog.functions():
        for b2, i2, n2 in g.nodes():
            if n2.get("k") == "Asg" and strip(n2["L"]).get("k") == "Ref" and strip(n2["L"]).get("n") == "illegal_sentence_action":
                v = const_val(n2["R"])
                if v is not None:
                    flag_vals.add(v)
                elif "illegal_sentence_action" not in show(n2["R"]):
                    flag_ok = False
    for bid in up.reachable():
        blk = up.blocks[bid]
        t = blk.term or {}
        if t.get("k") == "SwitchStmt" and strip(t.get("cond") or (blk.el[-1] if blk.el else {})).get("n") == "illegal_sentence_action":
            cases = {up.blocks[x].label.get("lo") for x in blk.succ if x is not None and up.blocks[x].label and up.blocks[x].label.get("k") == "case"}
            if flag_ok and flag_vals - {0} <= cases:
                for x in blk.succ:
                    if x is not None and not (up.blocks[x].label and up.blocks[x].label.get("k") == "case"):
                        infeasible.add((bid, x))
    for hazard, rf, text in (("removed", refresh_removed, "a sentence may have been removed by the verb function (remove_action / an object with actions left): illegal_sentence_action must be tested first"),
                             ("owner-destructed", refresh_owner, "the command giver may have destructed itself, which frees its whole sentence list: its O_DESTRUCTED flag must be tested first")):
        res = stale.analyse(up, tv, kill, rf, infeasible_edges=infeasible)
        bad = sorted({(n.get("l"), what) for blk, n, ref, what, sites in res.uses if sites and what.startswith(tuple(v + "->" for v in tv.values()))})
        run.ob("C08-f", "sentence-walk:%s" % hazard, not bad, "every dereference of the sentence pointer after a verb function is behind the %s test (or the list-head comparison)" % hazard if not bad else
               "%s at line %s after the verb function returned: %s" % (bad[0][1], bad[0][0], text), up.file, bad[0][0] if bad else up.line, "user_parser",
               what="user_parser dereferences a possibly freed sentence (%s at line %s): %s" % (bad[0][1] if bad else "", bad[0][0] if bad else "", text))
    # every free_sentence of something that was a list member signals the walker
    nfs = 0
    for f in sorted(prog.functions(), key=lambda x: (x.file, x.line)):
        for j, (b, i, n) in enumerate(sorted(f.calls("free_sentence"), key=lambda x: x[2].get("l") or 0)):
            a0 = strip(n["args"][0])
            # never in a ->sent list: an input_to sentence, or one allocated in this function and not linked
            if a0.get("k") == "Mem" and a0.get("f") == "input_to":
                continue
            if a0.get("k") == "Ref" and any(n2.get("k") == "Asg" and strip(n2["L"]).get("id") == a0.get("id") and strip(n2["R"]).get("k") == "Call" and strip(n2["R"]).get("fn") == "alloc_sentence" for b2, i2, n2 in f.nodes()):
                continue
            if a0.get("k") == "Ref" and any(n2.get("k") in ("Asg", "Decl") and "input_to" in show(n2) and a0.get("n") in show(n2) for b2, i2, n2 in f.nodes()):
                continue
            nfs += 1
            sets_flag = any(n2.get("k") == "Asg" and strip(n2["L"]).get("n") == "illegal_sentence_action" and const_val(n2["R"]) not in (None, 0) and (b2.id == b.id or f.dominates(b.id, b2.id)) for b2, i2, n2 in f.nodes())
            srcs = [n2["R"] for b2, i2, n2 in f.nodes() if n2.get("k") == "Asg" and strip(n2["L"]).get("id") == a0.get("id")]
            srcs += [v["init"] for b2, i2, n2 in f.nodes() if n2.get("k") == "Decl" for v in n2.get("vars", ()) if v.get("id") == a0.get("id") and isinstance(v.get("init"), dict)]
            owner_dies = f.name in ("destruct_object", "dealloc_object") and any(x.get("k") == "Mem" and x.get("f") == "sent" for r2 in srcs for x in walk(r2))
            run.ob("C08-f", "free-signals:%s:%s:%d" % (rel(f.file), f.name, j), sets_flag or owner_dies,
                   "free_sentence() at line %s %s" % (n.get("l"), "is followed by illegal_sentence_action = <non-zero>" if sets_flag else ("releases the list of the object being destructed (signalled by its O_DESTRUCTED flag)" if owner_dies else "neither sets illegal_sentence_action nor belongs to the destruction of the list's owner")),
                   f.file, n.get("l"), f.name, what="%s frees a sentence that may be part of a list user_parser is walking without signalling it" % f.name)
    run.need(nfs >= 3, "free_sentence sites of list members (found %d)" % nfs)

    # ---- C08-g the name table's unlink relies on the lookup's move-to-front
    run.rule("C08-g", "remove_object_hash() unlinks the head of the bucket (obj_table[h] = ob->next_hash) right after find_obj_n(): so find_obj_n must leave every object it returns at the head of its chain (store obj_table[h] = found, or it had no predecessor)", 2)
    ot = prog.unit("lib/lpc/otable.c")
    fo = run.need(ot.funcs.get("find_obj_n"), "find_obj_n")
    ro = run.need(ot.funcs.get("remove_object_hash"), "remove_object_hash")
    run.saw(fo)
    run.saw(ro)
    rets = [(b, i, n) for b, i, n in fo.nodes() if n.get("k") == "Return" and n.get("e") is not None and const_val(n["e"]) != 0 and strip(n["e"]).get("k") == "Ref"]
    run.need(rets, "return of the found object in find_obj_n")
    vid = strip(rets[0][2]["e"]).get("id")
    heads = {b.id for b, i, n in fo.nodes() if n.get("k") == "Asg" and n.get("op") == "=" and strip(n["L"]).get("k") == "Sub" and strip(strip(n["L"])["b"]).get("n") == "obj_table" and strip(n["R"]).get("id") == vid}
    # a predecessor variable: a local pointer whose every assignment is 0 or the returned variable
    preds = set()
    for b, i, n in fo.nodes():
        if n.get("k") == "Ref" and n.get("d") == "local" and n.get("id") != vid and "object_s *" in (n.get("t") or "") and "**" not in (n.get("t") or ""):
            ds = [strip(n2["R"]) for b2, i2, n2 in fo.nodes() if n2.get("k") == "Asg" and n2.get("op") == "=" and strip(n2["L"]).get("id") == n.get("id")]
            ds += [strip(v["init"]) for b2, i2, n2 in fo.nodes() if n2.get("k") == "Decl" for v in n2.get("vars", []) if v.get("id") == n.get("id") and "init" in v]
            if ds and all(const_val(d) == 0 or d.get("id") == vid for d in ds):
                preds.add(n.get("id"))
    no_pred_edges = set()
    for bid in fo.reachable():
        c = fo.branch_cond(bid)
        if c is None:
            continue
        c0, t0 = normalize_cond(c, True)
        if strip(c0).get("k") == "Ref" and strip(c0).get("id") in preds:
            blk = fo.blocks[bid]
            no_pred_edges.add((bid, blk.succ[1] if t0 else blk.succ[0]))
    # paths to the return that neither store the head nor come through "no predecessor"; the first loop iteration reaches the
    # match with prev == 0, so only the part after the match test matters: start from the blocks that test the name
    match = [bid for bid in fo.reachable() if fo.branch_cond(bid) is not None and any(x.get("k") == "Call" and x.get("fn") in ("strcmp", "__builtin_strcmp") for x in walk(fo.branch_cond(bid)))]
    run.need(match, "name comparison in find_obj_n")
    p = fo.reach_avoiding(match, lambda blk: blk.id == rets[0][0].id, avoid_blocks=heads, avoid_edges=no_pred_edges)
    run.ob("C08-g", "lookup-moves-to-front", p is None, "every object find_obj_n returns is at the head of its chain (obj_table[h] = found, or no predecessor)" if p is None else
           "path %s returns the found object without making it the bucket head: remove_object_hash() then cuts every entry in front of it out of the name table" % (p[:8],), fo.file, rets[0][2].get("l"), "find_obj_n",
           what="find_obj_n no longer moves the object it returns to the head of its hash chain, which remove_object_hash relies on")
    unl = [(b, i, n) for b, i, n in ro.nodes() if n.get("k") == "Asg" and strip(n["L"]).get("k") == "Sub" and strip(strip(n["L"])["b"]).get("n") == "obj_table" and any(x.get("k") == "Mem" and x.get("f") == "next_hash" for x in walk(n["R"]))]
    run.need(unl, "head unlink in remove_object_hash")
    fcall = [(b, i, n) for b, i, n in ro.calls("find_obj_n")]
    oku = bool(fcall) and ro.point_dominates((fcall[0][0].id, fcall[0][1]), (unl[0][0].id, unl[0][1]))
    run.ob("C08-g", "unlink-after-lookup", oku, "remove_object_hash looks the object up (moving it to the head) before unlinking the head", ro.file, unl[0][2].get("l"), "remove_object_hash",
           what="remove_object_hash unlinks the bucket head without first moving the object there")

    # ---- C08-h a destructed object is never called
    run.rule("C08-h", "an object pointer held in a local across a call that may run LPC code is handed to apply()/apply_low()/safe_apply() as the target only after a new test of its O_DESTRUCTED flag (or a fresh assignment): apply does not refuse destructed targets itself", 5)
    import rules.C08h as c08h
    c08h.check(run, prog, cg, callgraph.Effects(cg))

    # ---- C08-k an object read out of a value is tested before it is called
    run.rule("C08-k", "an object pointer read out of a value (sv.u.ob: array item, mapping value, efun argument) and handed to apply()/apply_low() is tested for O_DESTRUCTED between the load and the call: values keep pointing at destructed objects until LPC reads them, later efun arguments are evaluated after earlier ones were pushed, and apply() does not refuse destructed targets", 3)
    c08h.check_loaded(run, prog)

    # ---- C08-i list walks do not follow links out of objects a callback may have unlinked
    run.rule("C08-i", "a loop that follows next_all / next_inv reads the link of its current object only while no LPC-running call has intervened since that object was last known alive and in place (O_DESTRUCTED test, environment test or fresh assignment); otherwise the successor must have been saved before the call", 3)
    c08h.check_walks(run, prog, cg)

    # ---- C08-j the heart-beat table does not lead to a destructed object
    run.rule("C08-j", "heart beats are called through the backend's table without a destructed test of their own: destruct_object() takes the object out of heart_beats[] (C08-b step:heart-beat), and a removal during a running round keeps the round inside the live part of the table - set_heart_beat() lowers the round length for every removed entry that lies inside the round and the cursor for every entry at or before it; otherwise the round walks onto the stale copy that memmove() leaves behind the last entry and calls heart_beat() in the object that was just destructed", 2)
    import rules.C11 as c11
    c11.hb_cursor_rule(run, prog, "C08-j")
