"""C08-h — a destructed object is never called (typestate A3 over object pointers).

apply()/apply_low() do not refuse a destructed target by themselves (only LAZY_RESETS builds re-test after
the reset); their callers hold `object_t *` locals across LPC callbacks, and a callback may destruct
anything.  Forward dataflow per function, state = {object pointer variable -> unvalidated LPC call sites}:
  kill     a call that may run LPC code and return
  refresh  an edge on which `X->flags & O_DESTRUCTED` is known false, or an assignment of X from
           something that is not itself a tracked (possibly stale) pointer
  use      X handed to the apply family as the object to call into
One obligation per use site: no LPC-running call reaches it without a re-test of the target."""
import callgraph
import cfgq
from core import rel
import stale
from stale import implied_atoms
from facts import strip, show, walk, atom_of, const_val, normalize_cond

# safe_apply() is not listed: it tests O_DESTRUCTED itself and drops the call (checked below as an anchor)
APPLY_OBJ_ARG = {"apply": 1, "apply_low": 1, "apply_call": 1}
NO_RETURN = {"fatal"} | callgraph.RAISE_SEEDS


def is_ob_t(t):
    t = (t or "").replace("const ", "")
    return t in ("struct object_s *", "object_t *")


def ob_vars(f):
    out = {}
    for p in f.params or []:
        if is_ob_t(p.get("t")):
            out[p.get("id")] = p.get("n")
    for b, i, n in f.nodes(reachable_only=False):
        if n.get("k") == "Ref" and n.get("d") in ("local", "param") and is_ob_t(n.get("t")):
            out[n.get("id")] = n.get("n")
    return out


def alive_vars(c, truth, obv, inplace=False):
    """variables validated on this edge.  inplace=True: only tests that show the object is still in an
    environment (an alive object may have been moved: its next_inv then belongs to another inventory)"""
    out = []
    # `X && (X->flags & O_DESTRUCTED)` is false: X is NULL or alive - either way nothing destructed is reached through it
    c0, t0 = normalize_cond(c, truth)
    c0 = strip(c0)
    if not inplace and not t0 and c0.get("k") == "Bin" and c0.get("op") == "&&":
        l0, r0 = strip(c0["L"]), strip(c0["R"])
        if l0.get("k") == "Bin" and l0.get("op") == "!=" and const_val(l0["R"]) == 0:
            l0 = strip(l0["L"])
        if l0.get("k") == "Ref" and l0.get("id") in obv and r0.get("k") == "Bin" and r0.get("op") == "&" and "O_DESTRUCTED" in (show(r0) + str(r0)) \
                and any(y.get("k") == "Mem" and y.get("f") == "flags" and strip(y["b"]).get("id") == l0.get("id") for y in walk(r0)):
            out.append(l0.get("id"))
    for a, t in implied_atoms(c, truth):
        e, tt = normalize_cond(a, t)
        e = strip(e)
        # the pointer itself is NULL on this edge: nothing can be called through it or read from it, and the loops
        # that copy it (`ob = next_ob`) test it before they use it
        if not tt and e.get("k") == "Ref" and e.get("id") in obv:
            out.append(e.get("id"))
        # !(X->flags & O_DESTRUCTED)
        if not inplace and not tt and e.get("k") == "Bin" and e.get("op") == "&":
            for x, y in ((strip(e["L"]), e["R"]), (strip(e["R"]), e["L"])):
                if x.get("k") == "Mem" and x.get("f") == "flags" and strip(x["b"]).get("k") == "Ref" and strip(x["b"]).get("id") in obv and "O_DESTRUCTED" in (str(y.get("m")) + show(y) + str(strip(y).get("m"))):
                    out.append(strip(x["b"]).get("id"))
        # X->super == Y / Y == X->super with Y another object pointer: X sits in an inventory, and destruct_object
        # takes an object out of its environment before it marks it (C08-b), so X is not destructed
        op, l, r = atom_of(a, t)
        if op == "==" and r is not None and strip(l).get("k") == "Ref" and strip(r).get("k") == "Ref" and strip(l).get("id") in obv and strip(r).get("id") in obv:
            out.append(("eq", strip(l).get("id"), strip(r).get("id")))
        if op == "==" and r is not None:
            for x, y in ((strip(l), strip(r)), (strip(r), strip(l))):
                if x.get("k") == "Mem" and x.get("f") == "super" and strip(x["b"]).get("k") == "Ref" and strip(x["b"]).get("id") in obv and y.get("k") == "Ref" and y.get("id") in obv:
                    out.append(strip(x["b"]).get("id"))
    return out


def ob_flag_alive(c, truth):
    for a, t in implied_atoms(c, truth):
        e, tt = normalize_cond(a, t)
        e = strip(e)
        if not tt and e.get("k") == "Bin" and e.get("op") == "&" and any(x.get("k") == "Mem" and x.get("f") == "flags" for x in walk(e)) and "O_DESTRUCTED" in (show(e) + str(e)):
            return True
    return False


def check(run, prog, cg, eff, RULE="C08-h", scope=("src/simulate.c", "src/backend.c", "src/comm.c", "src/command.c", "lib/lpc/", "lib/efuns/")):
    # anchor: safe_apply() refuses destructed targets by itself (that is why it is not in the family above)
    sa = prog.func("safe_apply")
    run.need(sa is not None, "safe_apply")
    inner = [(b, i, n) for b, i, n in sa.calls("apply")]
    run.need(inner, "apply() inside safe_apply")
    guarded = all(any(ob_flag_alive(c, t) for c, t, B in cfgq.guards(sa, b.id)) for b, i, n in inner)
    run.ob(RULE, "safe_apply-refuses-destructed", guarded, "safe_apply() reaches apply() only with the target's O_DESTRUCTED flag clear" if guarded else
           "safe_apply() no longer tests the target's O_DESTRUCTED flag before apply(): every safe_apply call site would have to be checked like apply()", sa.file, sa.line, "safe_apply",
           what="safe_apply() calls into destructed objects")
    returning_lpc = cg.reaches(callgraph.LPC_SEEDS | {"<unknown>"}, barriers=NO_RETURN)
    # callees that reach the interpreter only through the master object's hooks: the master is the mudlib's
    # trusted kernel; a hook that destructs the object it is asked about needs a hostile master.  Such sites
    # are reported as undecided, not as violations.
    MASTER = {"apply_master_ob", "safe_apply_master_ob"}
    returning_lpc_user = cg.reaches(callgraph.LPC_SEEDS | {"<unknown>"}, barriers=NO_RETURN | MASTER)
    nuse = 0
    for f in sorted(prog.functions(), key=lambda x: (x.file, x.line)):
        if not any(s in f.file for s in scope):
            continue
        sites = [(b, i, n) for b, i, n in f.calls() if n.get("fn") in APPLY_OBJ_ARG]
        if not sites:
            continue
        obv = ob_vars(f)
        if not obv:
            continue

        def kill(n, st):
            if n.get("fn") in NO_RETURN:
                return None
            cs = cg.callees_of_call(f, n)
            if cs & returning_lpc_user:
                return "lpc"
            if cs & returning_lpc:
                return "master"
            return None
        res = stale.analyse(f, obv, kill, edge_refresh=lambda c, truth: alive_vars(c, truth, obv))
        for blk, n, ref, what, ks in res.uses:
            if n.get("k") != "Call" or n.get("fn") not in APPLY_OBJ_ARG:
                continue
            args = n.get("args", [])
            pos = APPLY_OBJ_ARG[n["fn"]]
            if pos >= len(args) or strip(args[pos]) is not ref and strip(args[pos]).get("id") != ref.get("id"):
                continue
            nuse += 1
            run.saw(f)
            # a kill site that is this very call does not count (operands are evaluated first: handled by analyse)
            ks2 = sorted(ks, key=lambda s: (res.kills.get(s) != "lpc", s[2] or 0))
            verdict = True if not ks2 else (False if res.kills.get(ks2[0]) == "lpc" else None)
            run.ob(RULE, "called:%s:%s:%s@%s" % (rel(f.file), f.name, ref.get("n"), show(strip(args[0]))[:24]), verdict,
                   "%s(%s, %s ..) at line %s: no callback can run between the last liveness test/assignment of `%s` and the call" % (n["fn"], show(strip(args[0]))[:24], ref.get("n"), n.get("l"), ref.get("n")) if not ks2 else
                   ("" if verdict is False else "(only through a master hook: not decided) ") + "%s(%s, %s ..) at line %s calls into `%s`, but %s() at line %s may have run LPC code since `%s` was last known alive, and that code may have destructed it: a destructed object gets a function called in it" % (
                       n["fn"], show(strip(args[0]))[:24], ref.get("n"), n.get("l"), ref.get("n"), ks2[0][3], ks2[0][2], ref.get("n")),
                   f.file, n.get("l"), f.name, what="%s may call %s in an object a previous callback destructed" % (f.name, show(strip(args[0]))[:24]))
    run.need(nuse >= 5, "apply-family calls on local object pointers (found %d)" % nuse)


LINKS = ("next_all", "next_inv")


def check_walks(run, prog, cg, RULE="C08-i"):
    """Following a list link out of an object that a callback may have destructed or moved: destruct_object
    relinks next_all into the list of destructed objects and clears next_inv, and a moved object's next_inv
    belongs to another inventory, so `ob = ob->next_all` / `ob->next_inv` after LPC code ran walks the wrong
    list.  The successor has to be saved before the call, or the object re-tested (O_DESTRUCTED for next_all;
    still in the same environment for next_inv) before its link is used."""
    returning_lpc = cg.reaches(callgraph.LPC_SEEDS | {"<unknown>"}, barriers=NO_RETURN)
    MASTER = {"apply_master_ob", "safe_apply_master_ob"}
    returning_lpc_user = cg.reaches(callgraph.LPC_SEEDS | {"<unknown>"}, barriers=NO_RETURN | MASTER)
    nw = 0
    for f in sorted(prog.functions(), key=lambda x: (x.file, x.line)):
        if "/src/" not in f.file and "/lib/" not in f.file:
            continue
        reads = [(b, i, n) for b, i, n in f.nodes() if n.get("k") == "Mem" and n.get("f") in LINKS and strip(n["b"]).get("k") == "Ref" and strip(n["b"]).get("d") in ("local", "param")]
        if not reads:
            continue
        obv = ob_vars(f)
        if not obv:
            continue

        def kill(n, st, f=f):
            if n.get("fn") in NO_RETURN:
                return None
            cs = cg.callees_of_call(f, n)
            if cs & returning_lpc_user:
                return "lpc"
            if cs & returning_lpc:
                return "master"
            return None
        for link in LINKS:
            if not any(n.get("f") == link for b, i, n in reads):
                continue
            inplace = (link == "next_inv")
            res = stale.analyse(f, obv, kill, edge_refresh=lambda c, truth: alive_vars(c, truth, obv, inplace))
            if not res.kills:
                continue
            nw += _walk_uses(run, f, res, obv, link, inplace, RULE)
    run.need(nw >= 3, "list walks in functions that run callbacks (found %d)" % nw)


def _walk_uses(run, f, res, obv, link, inplace, RULE):
    nw = 0
    seen = set()
    for blk, n, ref, what, ks in res.uses:
        if n.get("k") != "Mem" or n.get("f") != link:
            continue
        # a store into the link (relinking) is the list owner's business, checked by C08-c
        if any(m.get("k") == "Asg" and strip(m["L"]) is n for e in blk.el for m in walk(e, True)):
            continue
        key = (n.get("l"), ref.get("n"), n.get("f"))
        if key in seen:
            continue
        seen.add(key)
        nw += 1
        run.saw(f)
        if ks:
            # `T = X->link` only saves the successor: it is harmless if X is validated (and the function left on
            # the failing edge) before T is looked at.  Search forward from the read for a use of T that is
            # reached without crossing an edge on which X is known alive / in place.
            tvar = None
            for e in blk.el:
                for m in walk(e, True):
                    if m.get("k") == "Asg" and m.get("op") == "=" and strip(m["R"]) is n and strip(m["L"]).get("k") == "Ref" and strip(m["L"]).get("id") != ref.get("id"):
                        tvar = strip(m["L"])
            if tvar is not None:
                ok_edges = set()
                for bid in f.reachable():
                    c = f.branch_cond(bid)
                    if c is None:
                        continue
                    for truth, idx in ((True, 0), (False, 1)):
                        av = alive_vars(c, truth, obv, inplace)
                        sx = f.blocks[bid].succ[idx]
                        if ref.get("id") in av:
                            ok_edges.add((bid, sx))
                        for v in av:
                            if isinstance(v, tuple) and ref.get("id") in v[1:] and bid in res.ins:
                                partner = v[1] if v[2] == ref.get("id") else v[2]
                                # the partner is fresh when the test is made (no callback inside the testing block itself)
                                if not res.ins[bid].get(partner, frozenset()) and not any(k[0] == bid for k in res.kills):
                                    ok_edges.add((bid, sx))

                def uses_t(b2):
                    for e in b2.el:
                        for m in walk(e, True):
                            if m.get("k") == "Ref" and m.get("id") == tvar.get("id") and m.get("l") != n.get("l"):
                                return True
                    return False
                later = False
                hit = False
                for e in blk.el:
                    for m in walk(e, True):
                        if m is n:
                            later = True
                        elif later and m.get("k") == "Ref" and m.get("id") == tvar.get("id") and m.get("l") != n.get("l"):
                            hit = True
                p = None if hit else f.reach_avoiding([sx for sx in blk.live_succ() if (blk.id, sx) not in ok_edges], uses_t, avoid_edges=ok_edges)
                if not hit and p is None:
                    ks = frozenset()
        ks2 = sorted(ks, key=lambda s: (res.kills.get(s) != "lpc", s[2] or 0))
        verdict = True if not ks2 else (False if res.kills.get(ks2[0]) == "lpc" else None)
        if verdict is False and inplace:
            # the property speaks about destructed objects; a callback that *moves* the current object makes the
            # walk continue in another inventory (wrong audience / wrong search result), which is not decided here
            verdict = None
        run.ob(RULE, "walk:%s:%s:%s->%s@%s" % (rel(f.file), f.name, ref.get("n"), n.get("f"), len([k for k in seen if k[1] == ref.get("n")])), verdict,
               "`%s->%s` at line %s is used only while `%s` is known %s" % (ref.get("n"), n.get("f"), n.get("l"), ref.get("n"), "to be in place" if inplace else "alive") if not ks2 else
               ("" if verdict is False else ("(a move, not a destruct: not decided) " if inplace and res.kills.get(ks2[0]) == "lpc" else "(only through a master hook: not decided) ")) + "`%s->%s` at line %s is used after %s() at line %s may have run LPC code that %s `%s`: the walk continues in %s" % (
                   ref.get("n"), n.get("f"), n.get("l"), ks2[0][3], ks2[0][2], "moved or destructed" if inplace else "destructed", ref.get("n"), "another inventory" if inplace else "the list of destructed objects"),
               f.file, n.get("l"), f.name, what="%s follows %s out of an object a callback may have unlinked" % (f.name, n.get("f")))
    return nw


def check_loaded(run, prog, RULE="C08-k"):
    """An object pointer read out of a value (`sv.u.ob` of an array item, a mapping value, an efun argument)
    is not known to be alive: values keep pointing at destructed objects until LPC reads them, and an efun's
    earlier arguments were pushed before its later ones were evaluated.  Handing such a pointer to
    apply()/apply_low() needs a test of O_DESTRUCTED between the load and the call."""
    n_ = 0
    for f in sorted(prog.functions(), key=lambda x: (x.file, x.line)):
        if "/src/" not in f.file and "/lib/" not in f.file:
            continue
        sites = [(b, i, n) for b, i, n in f.calls() if n.get("fn") in APPLY_OBJ_ARG and len(n.get("args", [])) > APPLY_OBJ_ARG[n["fn"]]]
        if not sites:
            continue
        obv = ob_vars(f)

        def from_value(e):
            e = strip(e)
            return e.get("k") == "Mem" and e.get("f") == "ob" and e.get("rec") == "svalue_u"
        for j, (b, i, n) in enumerate(sites):
            a = strip(n["args"][APPLY_OBJ_ARG[n["fn"]]])
            src = None
            if from_value(a):
                src = a
            elif a.get("k") == "Ref" and a.get("d") in ("local", "slocal") and a.get("id") is not None:
                defs = [n2["R"] for b2, i2, n2 in f.nodes() if n2.get("k") == "Asg" and n2.get("op") == "=" and strip(n2["L"]).get("k") == "Ref" and strip(n2["L"]).get("id") == a["id"]]
                defs += [v["init"] for b2, i2, n2 in f.nodes() if n2.get("k") == "Decl" for v in n2.get("vars", ()) if v.get("id") == a["id"] and isinstance(v.get("init"), dict)]
                for d in defs:
                    if from_value(d):
                        src = strip(d)
            if src is None:
                continue
            n_ += 1
            run.saw(f)
            tested = False
            # a slot of the value stack itself: destruct_object() turns every T_OBJECT slot that holds the object into 0
            # (remove_object_from_stack()), so an argument that still says T_OBJECT when the efun reads it is alive.
            # What happens to the pointer after that - held across a callback - is C08-h's part.
            base = src
            while base.get("k") in ("Mem", "Sub", "Un", "Cast") and isinstance(base.get("b") or base.get("e"), dict):
                base = strip(base.get("b") or base.get("e"))
            if base.get("k") == "Bin" and base.get("op") in ("+", "-"):
                base = strip(base["L"])
            stack_slot = base.get("k") == "Ref" and base.get("n") == "sp" and base.get("d") in ("global", "static")
            if not stack_slot and base.get("k") == "Ref" and base.get("d") in ("local", "param") and base.get("id") is not None:
                bdefs = [n2["R"] for b2, i2, n2 in f.nodes() if n2.get("k") == "Asg" and n2.get("op") == "=" and strip(n2["L"]).get("k") == "Ref" and strip(n2["L"]).get("id") == base["id"]]
                bdefs += [v["init"] for b2, i2, n2 in f.nodes() if n2.get("k") == "Decl" for v in n2.get("vars", ()) if v.get("id") == base["id"] and isinstance(v.get("init"), dict)]
                stack_slot = bool(bdefs) and all(any(y.get("k") == "Ref" and y.get("n") == "sp" and y.get("d") in ("global", "static") for y in walk(d)) for d in bdefs)
            if not stack_slot and base.get("k") == "Ref" and base.get("d") == "param":
                # a parameter that every caller fills with a position of the value stack (map_string (sp - n + 1, n))
                pi = [p_.get("pi") for p_ in f.params or [] if p_.get("id") == base.get("id")]
                csites = [(g, n2) for g in prog.functions() for b2, i2, n2 in g.calls(f.name)]

                def on_stack(g, e):
                    for y in walk(e):
                        if y.get("k") == "Ref" and y.get("n") == "sp" and y.get("d") in ("global", "static"):
                            return True
                        if y.get("k") == "Ref" and y.get("d") == "local" and y.get("id") is not None:
                            ds = [n3["R"] for b3, i3, n3 in g.nodes() if n3.get("k") == "Asg" and n3.get("op") == "=" and strip(n3["L"]).get("id") == y["id"]]
                            ds += [v["init"] for b3, i3, n3 in g.nodes() if n3.get("k") == "Decl" for v in n3.get("vars", ()) if v.get("id") == y["id"] and isinstance(v.get("init"), dict)]
                            if ds and all(any(z.get("k") == "Ref" and z.get("n") == "sp" and z.get("d") in ("global", "static") for z in walk(d)) for d in ds):
                                return True
                    return False
                stack_slot = bool(pi) and bool(csites) and all(len(n2.get("args", [])) > pi[0] and on_stack(g, n2["args"][pi[0]]) for g, n2 in csites)
            if stack_slot:
                run.ob(RULE, "loaded:%s:%s:%d" % (rel(f.file), f.name, j), True, "%s(.., %s ..) at line %s: `%s` is a slot of the value stack, which destruct_object() clears (C08-h follows the pointer from there)" % (n["fn"], show(a)[:24], n.get("l"), show(src)[:40]), f.file, n.get("l"), f.name)
                continue
            for c, t, B in cfgq.guards(f, b.id):
                if a.get("k") == "Ref" and a.get("id") in [x for x in alive_vars(c, t, obv) if not isinstance(x, tuple)]:
                    tested = True
                # the flag read through the value itself: !(sv.u.ob->flags & O_DESTRUCTED)
                for at, tt in implied_atoms(c, t):
                    e, t2 = normalize_cond(at, tt)
                    e = strip(e)
                    if not t2 and e.get("k") == "Bin" and e.get("op") == "&" and "O_DESTRUCTED" in (show(e) + str(e)) and any(y.get("k") == "Mem" and y.get("f") == "flags" and show(strip(y["b"])) == show(src) for y in walk(e)):
                        tested = True
            run.ob(RULE, "loaded:%s:%s:%d" % (rel(f.file), f.name, j), tested,
                   "%s(.., %s ..) at line %s: `%s` is taken from a value and tested for O_DESTRUCTED before the call" % (n["fn"], show(a)[:24], n.get("l"), show(src)[:40]) if tested else
                   "%s(.., %s ..) at line %s calls into the object read from `%s` without a test of O_DESTRUCTED: a value keeps pointing at an object after it was destructed (an array element nobody has read since, an efun argument pushed before a later argument destructed it), and %s() does not refuse destructed targets" % (
                       n["fn"], show(a)[:24], n.get("l"), show(src)[:40], n["fn"]),
                   f.file, n.get("l"), f.name, what="%s calls a function in a destructed object taken from `%s`" % (f.name, show(src)[:40]))
    run.need(n_ >= 3, "apply-family calls on objects read out of values (found %d)" % n_)
