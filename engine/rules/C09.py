"""C09 — no event history or failing task takes the driver down.

C09-a  the driver-level recovery point in backend(): typestate (shared with C05-a) and the
       re-executed region between setjmp and the loop head
C09-b  the connection table may be NULL: every subscript of all_users is guarded
C09-e  per-task recovery points: call_out re-arms per entry; the other loops restart safely (table)
C09-d  fault locality of heart beats: see C11-a (imported)"""
import facts
import cfgq
import callgraph
import ctxstate
from core import rel
from facts import strip, show, walk, const_val, normalize_cond, atom_of

# calls allowed in the region that is re-executed after every uncaught error (between setjmp and the loop)
REEXEC_SAFE = {"restore_context": "the recovery action itself"}

# all_users sites discharged by reading (function -> reason)
USERS_TABLE = {
    "new_interactive": "the allocation block `if (i >= max_users)` runs first: either the table was (re)allocated, or i < max_users which implies max_users > 0 and a table exists",
    "create_test_interactive": "unit-test helper: allocates the table itself when NULL",
    "remove_test_interactive": "unit-test helper",
}
CONSOLE_REASON = "console completions are only produced in console mode, where init_console_user() created slot 0 (and the table) before the loop"

# loops that are restarted from the top after an error, with the reason this is safe
RESTART_OK = {
    "backend": "driver main loop: per-iteration state (current_interactive, eval_cost, command turns) is re-initialised at the loop head",
    "look_for_objects_to_swap": "restarts the obj_list walk; reset/clean_up of the failing object is not retried because apply() refreshed time_of_ref / reset_object() advanced next_reset before calling",
    "preload_objects": "the index is advanced before each load",
    "main": "start-up only",
    "fatal": "single protected call",
    "do_catch": "single protected evaluation",
    "safe_apply": "single protected call",
    "safe_call_function_pointer": "single protected call",
}



def _flag_clear(c, truth):
    """the variable a branch fact says is zero: `!x` / `x == 0` true, `x` / `x != 0` false"""
    e, t = normalize_cond(c, truth)
    e = strip(e)
    if e.get("k") == "Ref" and t is False:
        return e
    if e.get("k") == "Bin" and e.get("op") in ("==", "!=") and const_val(e["R"]) == 0 and strip(e["L"]).get("k") == "Ref" and (t is True) == (e["op"] == "=="):
        return strip(e["L"])
    return None

def check(run, prog, tier):
    run.rule("C09-a", "backend(): no raising call before setjmp arms the loop context; the statements re-executed after every recovery are only restore_context or once-guarded start-up steps", 3)
    run.rule("C09-b", "every subscript of the global connection table all_users is guarded by a non-NULL test, an index bound by max_users (0 while NULL), an existing connection record, or a reviewed table entry", 30)
    run.rule("C09-d", "fault locality (shared with C11-a): on every uncaught path error_handler switches off the failing heart beat before it jumps; only the catch path and the in_error exit leave earlier", 4)
    run.rule("C09-e", "tasks run in a loop under one error context either re-arm the recovery point per task (call_out) or restart safely (table)", 5)

    cg = callgraph.CallGraph(prog)
    eff = callgraph.Effects(cg)

    # ---- C09-a
    be = run.need(prog.func("backend"), "backend")
    run.saw(be)
    ctxstate.find_restore_wrappers(prog)
    a = ctxstate.CtxAnalysis(be, eff).run()
    unarmed = []
    for kind, v, blk, idx, n, cur in a.events:
        if kind == "call" and "saved" in cur and eff.call_may_raise(be, n) and (n.get("fn") not in ("push_control_stack",)):
            unarmed.append((n.get("fn") or show(n), n.get("l")))
    run.ob("C09-a", "recover:%s:backend" % rel(be.file), not unarmed,
           "no raising call between save_context and setjmp" if not unarmed else "raising calls before the recovery point is armed: %s" % unarmed,
           be.file, unarmed[0][1] if unarmed else be.line, "backend", what="backend(): %s can raise before setjmp arms the driver's recovery point" % (unarmed[0][0] if unarmed else ""))
    # (on the view with small file-local helpers spliced in: the start-up steps may sit in a helper that is handed the flags)
    bi = prog.funci("backend") or be
    # re-executed region: from the setjmp block to the head of the outermost loop
    sj = [(b, i, n) for b, i, n in bi.calls() if n.get("fn") in ctxstate.SETJMP]
    run.need(sj, "setjmp in backend")
    sjb = sj[0][0]
    # loop head = first block (in forward order) that dominates itself through a back edge: find blocks with a predecessor they dominate
    heads = [bid for bid in bi.reachable() if any(bi.dominates(bid, p) for p in bi.blocks[bid].preds)]
    heads = [h for h in heads if bi.dominates(sjb.id, h)]
    run.need(heads, "main loop after setjmp in backend")
    # outermost = the head that dominates all other heads
    outer = [h for h in heads if all(bi.dominates(h, o) for o in heads)]
    # several loops one after the other (a spliced helper may bring its own): the main loop is the largest one
    head = outer[0] if outer else max(heads, key=lambda h: sum(1 for x in bi.reachable() if bi.dominates(h, x) and h in cfgq.reach_set(bi, [x])))
    region = cfgq.reach_set(bi, sjb.live_succ(), avoid_blocks=[head])
    bad = []
    nreg = 0
    for b, i, n in bi.calls():
        if b.id not in region:
            continue
        nreg += 1
        fn = n.get("fn") or show(n)
        if n.get("spliced") or fn in REEXEC_SAFE or not (eff.call_may_run_lpc(bi, n) or eff.call_may_raise(bi, n)):
            continue        # (a spliced call: its statements are in the region themselves)
        # once-guard: the call is guarded by `!flag` where flag is a local set to a non-zero constant in the same guarded block before the call
        once = False
        for c, truth, B in cfgq.guards(bi, b.id):
            e = _flag_clear(c, truth)
            if e is not None and e.get("d") == "local":
                for b2, i2, n2 in bi.nodes():
                    if n2.get("k") == "Asg" and strip(n2["L"]).get("id") == e.get("id") and const_val(n2["R"]) not in (None, 0) \
                            and bi.point_dominates((b2.id, i2), (b.id, i)) and bi.dominates(B, b2.id):
                        once = True
        if not once:
            bad.append((fn, n.get("l")))
    run.ob("C09-a", "reexec:%s:backend" % rel(bi.file), not bad,
           "%d call(s) in the re-executed region; all are restore_context, non-raising, or run once under a flag" % nreg if not bad else
           "re-executed after every uncaught error without a once-guard: %s" % bad, bi.file, bad[0][1] if bad else sjb.term and sjb.term.get("l"), "backend",
           what="backend(): %s is re-executed after every uncaught error" % (bad[0][0] if bad else ""))
    # the loop context is popped on exit and the loop is an endless loop under the armed context (typestate exits)
    exits_bad = [cur for kind, v, blk, idx, n, cur in a.events if kind in ("return", "exit") and any(s & {"saved", "armed", "jumped", "recovered"} for s in cur.values())]
    run.ob("C09-a", "pop:%s:backend" % rel(be.file), not exits_bad, "backend pops its context on exit" if not exits_bad else "backend returns with its context registered",
           be.file, be.line, "backend")

    # ---- C09-b
    def is_users(e):
        e = strip(e)
        return e.get("k") == "Ref" and e.get("n") == "all_users" and e.get("d") == "global"

    nsite = 0
    for f in prog.functions():
        ordn = 0
        has_ip_param = any("interactive_s" in p.get("t", "") or "interactive_t" in p.get("t", "") for p in f.params)
        for b, i, n in f.nodes():
            if not (n.get("k") == "Sub" and is_users(n["b"])):
                continue
            run.saw(f)
            nsite += 1
            inst = "users:%s:%s:%d" % (rel(f.file), f.name, ordn)
            ordn += 1
            why = None
            idx = strip(n["i"])
            for c, truth, B in cfgq.guards(f, b.id):
                if cfgq.is_null_test(c, truth, is_users) == "nonnull":
                    why = "all_users tested non-NULL at block %d" % B
                    break
                op, l, r = atom_of(c, truth)
                if op == "<" and strip(r).get("n") == "max_users":
                    why = "%s < max_users holds here, so max_users > 0 and the table is allocated (max_users is 0 while it is NULL)" % show(l)
                    break
                # an existing connection record
                def is_ip(e):
                    t = e.get("t", "")
                    return ("interactive_s *" in t or "interactive_t *" in t) and e.get("k") in ("Ref", "Mem")
                if cfgq.is_null_test(c, truth, is_ip) == "nonnull":
                    why = "an existing connection record was tested non-NULL (%s): records live only in the table" % show(c)[:40]
                    break
            if why is None and has_ip_param:
                why = "function operates on an existing connection record passed as parameter: the table it lives in exists"
            if why is None and f.name in USERS_TABLE:
                why = "table: " + USERS_TABLE[f.name]
            if why is None:
                for c, truth, B in cfgq.guards(f, b.id):
                    e, t = normalize_cond(c, truth)
                    if strip(e).get("n") == "g_console_queue" and t:
                        why = "table: " + CONSOLE_REASON
            # short-circuit on the same expression: all_users && all_users[0]
            run.ob("C09-b", inst, why is not None, "%s — %s" % (show(n), why or "no guard found: all_users is NULL until the first connection is made"),
                   f.file, n.get("l"), f.name, what="%s subscripts all_users without a NULL/bound guard" % f.name)
    run.extra["all_users_sites"] = nsite

    # ---- C09-e per-task recovery
    users = [f for f in prog.functions() if any(True for _ in f.calls("save_context")) and f.name not in ("save_context",)]
    for f in sorted(users, key=lambda x: (x.file, x.line)):
        sjs = [b.id for b, i, n in f.calls() if n.get("fn") in ctxstate.SETJMP]
        if not sjs:
            continue
        # LPC-running calls that sit on a cycle
        tasks = []
        for b, i, n in f.calls():
            if n.get("fn") in ctxstate.CTX_API:
                continue
            if eff.call_may_run_lpc(f, n) and b.id in cfgq.reach_set(f, b.live_succ()):
                tasks.append((b, i, n))
        if not tasks:
            if f.name not in RESTART_OK:
                run.ob("C09-e", "task:%s:%s" % (rel(f.file), f.name), True, "no LPC-running call inside a loop under this context", f.file, f.line, f.name)
            else:
                run.ob("C09-e", "task:%s:%s" % (rel(f.file), f.name), True, "single protected call (%s)" % RESTART_OK[f.name], f.file, f.line, f.name)
            continue
        for j, (b, i, n) in enumerate(tasks):
            fn = n.get("fn") or show(n)
            # does every cycle through this call pass a setjmp?
            p = f.reach_avoiding(b.live_succ(), lambda blk, bb=b.id: blk.id == bb, avoid_blocks=sjs)
            inst = "task:%s:%s:%s:%d" % (rel(f.file), f.name, fn, j)
            if p is None or (b.id in sjs):
                run.ob("C09-e", inst, True, "every iteration that reaches %s re-arms the recovery point (setjmp inside the per-task loop)" % fn, f.file, n.get("l"), f.name)
            elif f.name in RESTART_OK:
                run.ob("C09-e", inst, True, "recovery point outside the loop; restart is safe: " + RESTART_OK[f.name], f.file, n.get("l"), f.name)
            else:
                run.ob("C09-e", inst, False, "%s runs LPC code in a loop whose recovery point is armed outside the loop (cycle %s avoids setjmp): after an error the loop is re-entered from the setjmp with its per-task bookkeeping half done" % (fn, p),
                       f.file, n.get("l"), f.name, what="%s: one recovery point for many tasks; an error in one task disturbs the others" % f.name)

    # the reasons in RESTART_OK for look_for_objects_to_swap are checked, not believed: the walk is restarted from the list
    # head after an error, so what made the failing object due must be changed *before* its LPC code runs
    ro = prog.func("reset_object")
    al = prog.func("apply_low")
    lf = prog.func("look_for_objects_to_swap")
    if ro is not None and al is not None and lf is not None:
        def progress_first(g, field, calls, what):
            stores = {b.id for b, i, n in g.nodes() if n.get("k") == "Asg" and strip(n["L"]).get("k") == "Mem" and strip(n["L"]).get("f") == field}
            cfg_skip = set()
            for bid in g.reachable():
                c = g.branch_cond(bid)
                if c is not None and (facts.any_in_macro(c, "CONFIG_INT") or "config_int" in show(c)):
                    e0, t0 = normalize_cond(c, True)
                    cfg_skip.add((bid, g.blocks[bid].succ[1] if t0 else g.blocks[bid].succ[0]))   # the 'feature off' edge
            tgt = {b.id for b, i, n in g.calls() if n.get("fn") in calls}
            run.need(tgt, "%s call in %s" % ("/".join(calls), g.name))
            p = g.reach_avoiding([g.entry], lambda blk: blk.id in tgt, avoid_blocks=stores - tgt, avoid_edges=cfg_skip)
            # same block: the store must come first
            if p is None:
                for b, i, n in g.calls():
                    if n.get("fn") in calls and b.id in stores:
                        si = [i2 for b2, i2, n2 in g.nodes() if b2.id == b.id and n2.get("k") == "Asg" and strip(n2["L"]).get("f") == field]
                        if si and min(si) > i:
                            p = [b.id]
            run.ob("C09-e", "progress:%s:%s" % (g.name, field), p is None and bool(stores), "%s stores ->%s before %s" % (g.name, field, what) if p is None and stores else
                   "%s reaches %s (path %s) before ->%s is changed: when that code raises an error, look_for_objects_to_swap() restarts its walk, finds the same object due again and calls it again - for ever" % (g.name, what, (p or [])[:8], field),
                   g.file, g.line, g.name, what="%s runs LPC code before it has changed ->%s: a failing object is retried endlessly by the restarted walk" % (g.name, field))
        run.saw(ro)
        run.saw(al)
        progress_first(ro, "next_reset", ("apply",), "reset() is applied")
        progress_first(al, "time_of_ref", ("call_program", "eval_instruction"), "the function is run")

    # ---- C09-d
    from rules import C11
    C11.fault_locality(run, prog, "C09-d")

    # ---- C09-g
    run.rule("C09-g", "heart-beat round state (shared with C11-e): cursor and round length are assigned at the start of every round, so a round left by an error cannot make the next one start at a stale (possibly -1) index", 2)
    C11.round_init(run, prog, "C09-g")

    # ---- C09-c stale connection records
    from rules import C09c
    C09c.check(run, prog, tier, cg, eff)

    # ---- C09-f the connection table's recorded length never exceeds its allocation
    run.rule("C09-f", "wherever the connection table all_users is (re)allocated, the element count of every allocation and the bound up to which max_users is advanced are the same expression (C09-b and every scan `i < max_users` rely on max_users <= allocated slots)", 1)
    glob_fn = [f for f in prog.functions() if any(n.get("k") == "Asg" and strip(n["L"]).get("k") == "Ref" and strip(n["L"]).get("n") == "all_users" and strip(n["L"]).get("d") in ("global", "static") for b, i, n in f.nodes())]
    run.need(glob_fn, "functions allocating all_users")

    def alloc_count(rhs):
        """element count of  (T**)realloc(p, sizeof(T*) * N) / xalloc(sizeof(T*[1]) * N) / calloc(N, sizeof(T*))"""
        r = strip(rhs)
        if r.get("k") != "Call":
            return None
        if r.get("fn") in ("calloc", "debugcalloc") and len(r.get("args", [])) >= 2:
            return strip(r["args"][0])
        for a in r.get("args", []):
            a = strip(a)
            if a.get("k") == "Bin" and a.get("op") == "*":
                l, rr = strip(a["L"]), strip(a["R"])
                if l.get("k") == "Sizeof":
                    return rr
                if rr.get("k") == "Sizeof":
                    return l
        return None

    def resolve_local(f, e):
        """a local with exactly one definition stands for that definition's text"""
        e = strip(e)
        if e.get("k") == "Ref" and e.get("d") == "local":
            ds = [v.get("init") for b, i, n in f.nodes() if n.get("k") == "Decl" for v in n.get("vars", []) if v.get("id") == e.get("id") and "init" in v]
            ds += [n["R"] for b, i, n in f.nodes() if n.get("k") == "Asg" and strip(n["L"]).get("id") == e.get("id") and strip(n["L"]).get("k") == "Ref"]
            if len(ds) == 1:
                return facts.show(strip(ds[0]))
        v = const_val(e)
        return str(v) if v is not None else facts.show(e)

    for f in sorted(glob_fn, key=lambda x: x.line):
        run.saw(f)
        counts = []
        for b, i, n in f.nodes():
            if n.get("k") == "Asg" and strip(n["L"]).get("k") == "Ref" and strip(n["L"]).get("n") == "all_users":
                c = alloc_count(n["R"])
                counts.append((n.get("l"), resolve_local(f, c) if c is not None else None))
        # how far max_users is advanced: `max_users = K`  or  `while (max_users < B) .. max_users++`
        bounds = []
        for b, i, n in f.nodes():
            if n.get("k") == "Asg" and n.get("op") == "=" and strip(n["L"]).get("k") == "Ref" and strip(n["L"]).get("n") == "max_users":
                bounds.append((n.get("l"), resolve_local(f, n["R"])))
            if n.get("k") == "Un" and n.get("op") in ("++",) and strip(n["e"]).get("n") == "max_users":
                gb = None
                for c, t, B in cfgq.guards(f, b.id):
                    op, l, r = atom_of(c, t)
                    if op == "<" and strip(l).get("n") == "max_users":
                        gb = resolve_local(f, r)
                bounds.append((n.get("l"), gb))
        inst = "table-length:%s:%s" % (rel(f.file), f.name)
        if not counts or any(c[1] is None for c in counts) or not bounds or any(b[1] is None for b in bounds):
            run.ob("C09-f", inst, None, "allocation counts %s / max_users bounds %s not all recognised" % (counts, bounds), f.file, f.line, f.name)
            continue
        texts = {c[1] for c in counts}
        btexts = {b[1] for b in bounds}
        ok = len(texts) == 1 and texts == btexts
        run.ob("C09-f", inst, ok, "all_users allocated with %s element(s); max_users advanced to %s" % (sorted(texts), sorted(btexts)), f.file, counts[0][0], f.name,
               what="%s allocates all_users with %s slots but advances max_users to %s: the recorded table length can exceed the allocation (writes and scans past the end)" % (f.name, sorted(texts), sorted(btexts)))

    # ---- C09-h a sentence attached to a connection is complete, or detached again, before an error can leave the function
    run.rule("C09-h", "input_to()/get_char(): after set_call() attached the sentence to the connection, every raising exit is preceded by the store that detaches it (->input_to = 0); otherwise the next input line calls through a sentence without a function", 2)
    nh = 0
    for f in sorted(prog.functions(), key=lambda x: (x.file, x.line)):
        scs = [(b, i, n) for b, i, n in f.calls("set_call")]
        if not scs or f.name == "set_call":
            continue
        b0, i0, n0 = scs[0]
        # success edge of `if (!set_call(..))` / `if (set_call(..))`
        c = f.branch_cond(b0.id)
        if c is None or not any(x.get("k") == "Call" and x.get("fn") == "set_call" for x in walk(c)):
            continue
        c0, t0 = normalize_cond(c, True)
        blk = f.blocks[b0.id]
        succ_ok = blk.succ[0] if t0 else blk.succ[1]
        nh += 1
        run.saw(f)
        detach = {b.id for b, i, n in f.nodes() if n.get("k") == "Asg" and n.get("op") == "=" and strip(n["L"]).get("k") == "Mem" and strip(n["L"]).get("f") == "input_to" and const_val(n["R"]) == 0}
        complete = {b.id for b, i, n in f.nodes() if n.get("k") == "Asg" and n.get("op") == "=" and strip(n["L"]).get("k") == "Mem" and strip(n["L"]).get("f") in ("f", "function") and any(x.get("k") == "Mem" and x.get("f") == "function" for x in walk(n["L"]))}
        raises = [(b, i, n) for b, i, n in f.calls() if n.get("nr") and n.get("fn") in ("error", "fatal", "bad_argument")]
        bad = []
        for b, i, n in raises:
            p = f.reach_avoiding([succ_ok], lambda blk2, t=b.id: blk2.id == t, avoid_blocks=detach | complete)
            if p is not None:
                bad.append((n.get("l"), p))
        run.ob("C09-h", "attached-sentence:%s:%s" % (rel(f.file), f.name), not bad, "every error() after set_call() succeeded is preceded by `->input_to = 0` (or the sentence is already complete)" if not bad else
               "error() at line %s is reachable (path %s) with the half-built sentence still attached to the connection" % (bad[0][0], bad[0][1][:8]), f.file, bad[0][0] if bad else n0.get("l"), f.name,
               what="%s can raise an error while a sentence without a callback is attached to the user: the next input line dereferences its NULL function pointer" % f.name)
    run.need(nh >= 2, "functions attaching an input_to sentence (found %d)" % nh)

    # ---- C09-i a connection that still hangs on the master object is not abandoned by an error
    run.rule("C09-i", "while a new connection is attached to the master object (from the store `master_ob->interactive = <record>` until it is handed to its user object, `master_ob->interactive = 0`, or removed with remove_interactive()), no call that can raise an error is made: the error would jump to the backend loop past the clean-up, the next connection overwrites the pointer, and the socket is never closed", 2)
    import callgraph as _cgi
    cgi = _cgi.CallGraph(prog)
    effi = _cgi.Effects(cgi)

    def is_master_ia(e):
        e = strip(e)
        return e.get("k") == "Mem" and e.get("f") == "interactive" and strip(e["b"]).get("k") == "Ref" and strip(e["b"]).get("n") == "master_ob"
    ni = 0
    for f in sorted(prog.functions(), key=lambda x: (x.file, x.line)):
        if "/src/" not in f.file:
            continue
        attach = [(b, i, n) for b, i, n in f.nodes() if n.get("k") == "Asg" and n.get("op") == "=" and is_master_ia(n["L"]) and const_val(n["R"]) != 0]
        detach = {b.id for b, i, n in f.nodes() if n.get("k") == "Asg" and n.get("op") == "=" and is_master_ia(n["L"]) and const_val(n["R"]) == 0}
        detach |= {b.id for b, i, n in f.calls("remove_interactive")}
        starts = []
        if attach:
            starts = [(b, i, "attached at line %s" % n.get("l")) for b, i, n in attach]
        elif detach and any(is_master_ia(x) for b, i, n in f.nodes() for x in walk(n)) and any(n.get("k") == "Asg" and is_master_ia(n["L"]) for b, i, n in f.nodes()):
            # a function that only completes the hand-over (mudlib_connect): the record is attached when it is entered
            starts = [(f.blocks[f.entry], -1, "attached on entry")]
        for b, i, how in starts:
            ni += 1
            run.saw(f)
            region = cfgq.reach_set(f, b.live_succ(), avoid_blocks=detach) | {b.id}
            risky = []
            for b2, i2, n2 in f.calls():
                if b2.id not in region or (b2.id == b.id and i2 <= i) or n2.get("fn") in ("fatal",):
                    continue
                if b2.id in detach:
                    continue
                if effi.call_may_raise(f, n2):
                    why = _cgi.why(cgi, n2.get("fn"), _cgi.RAISE_SEEDS, barriers=_cgi.CATCH_BARRIERS) if n2.get("fn") else None
                    risky.append((n2.get("fn") or "(*)", n2.get("l"), " -> ".join(why or [])[:100]))
            # the push helpers raise only when the value stack is full; these functions run from the backend's event
            # loop with an (almost) empty stack - not decided rather than alarmed
            stack_only = {g.name for g in prog.functions() if g.file.endswith("src/stack.c") and g.name.startswith(("push_", "copy_and_push", "share_and_push"))}
            hard = [r for r in risky if r[0] not in stack_only]
            if risky and not hard:
                run.ob("C09-i", "pending-connection:%s:%s" % (rel(f.file), f.name), None, "%s; only value-stack pushes (%s) can raise here, and only on a full stack: not decided" % (how, ", ".join(sorted({r[0] for r in risky}))), f.file, f.line, f.name)
                continue
            risky = hard
            run.ob("C09-i", "pending-connection:%s:%s" % (rel(f.file), f.name), not risky, "%s: nothing that can raise runs before the connection is handed over or removed" % how if not risky else
                   "%s; %s() at line %s can raise (%s) while the connection still hangs on the master object" % (how, risky[0][0], risky[0][1], risky[0][2]), f.file, risky[0][1] if risky else f.line, f.name,
                   what="%s can be left by error() with a half-accepted connection attached to the master object" % f.name)
    run.need(ni >= 2, "functions handling a connection attached to master_ob (found %d)" % ni)
