"""C09-c — a connection record is re-validated after every callback that may free it (typestate A3).

`interactive_t` records are freed by remove_interactive(), which runs when the connection's object is
destructed or the socket dies.  Any call that can reach remove_interactive() or the LPC interpreter
(apply, process_command, call_function_pointer ...) and *return* therefore makes every `interactive_t *`
held in a local or parameter *stale*.  A stale pointer may only be compared (`ob->interactive == ip`,
the IP_VALID idiom), overwritten, or dropped; dereferencing it or handing it to another function is a
use after free when the callback destructs the user.

Forward dataflow per function, state = {pointer variable -> set of unvalidated kill sites}:
  kill     a call whose resolved callees may free a connection record and return (call-graph summary;
           paths that only reach LPC through error()/longjmp do not return and do not count)
  refresh  an edge on which `X->interactive == ip` holds (also under `!`, `&&`, `||`), an assignment
  use      `ip->field`, `*ip`, ip passed as a call argument
One obligation per kill site: no use of the pointer is reachable from it without a refresh.
Three-valued: a site that is stale only through the snoop path (add_message -> receive_snoop -> the
snooper's LPC receive_snoop()) is reported as undecided, because freeing the snooped connection from the
snooper's callback needs a cooperating privileged object; every other stale use alarms."""
import callgraph
import cfgq
from core import rel
import stale
from stale import implied_atoms
from facts import strip, show, walk, atom_of, const_val

FREE_SEEDS = {"remove_interactive"} | callgraph.LPC_SEEDS | {"<unknown>"}
NO_RETURN = {"fatal"} | callgraph.RAISE_SEEDS


def is_ip_t(t):
    t = t or ""
    return ("interactive_s *" in t or "interactive_t *" in t) and "**" not in t and "(" not in t


def ip_vars(f):
    out = {}
    for p in f.params or []:
        if is_ip_t(p.get("t")):
            out[p.get("id")] = p.get("n")
    for b, i, n in f.nodes(reachable_only=False):
        if n.get("k") == "Ref" and n.get("d") in ("local", "param") and is_ip_t(n.get("t")):
            out[n.get("id")] = n.get("n")
        if n.get("k") == "Decl":
            for v in n.get("vars", []):
                if is_ip_t(v.get("t")):
                    out[v.get("id")] = v.get("n")
    return out


def validated_vars(c, truth, ipv):
    """variable ids proven current by taking this edge: `X->interactive == ip` holds."""
    out = []
    for a, t in implied_atoms(c, truth):
        op, l, r = atom_of(a, t)
        if op != "==":
            continue
        for x, y in ((strip(l), strip(r)), (strip(r), strip(l))):
            if x.get("k") == "Ref" and x.get("id") in ipv and y.get("k") == "Mem" and y.get("f") == "interactive":
                out.append(x.get("id"))
    return out


def closing_protocol(f, ipv, kills):
    """remove_interactive() owns the record: it marks it CLOSING before any callback and a nested call
    returns on seeing CLOSING, so the callbacks it makes cannot free the record under it.  Checked:
    the CLOSING store dominates every kill site, and a CLOSING test with a return dominates it."""
    store = None
    test = None
    for b, i, n in f.nodes():
        if n.get("k") == "Asg" and n.get("op") == "|=" and strip(n["L"]).get("f") == "iflags" and "CLOSING" in (show(n["R"]) + str(n.get("m")) + str(strip(n["R"]).get("m"))):
            store = (b.id, i)
    for b in f.reachable():
        c = f.branch_cond(b)
        if c is not None and any(x.get("k") == "Mem" and x.get("f") == "iflags" for x in walk(c)) and "CLOSING" in str(c):
            test = b
    if store is None or test is None:
        return False
    return all(f.point_dominates(store, k) for k in kills)


def zero_return_clean(g, cg, freeing):
    """g returns an integer and every `return 0` is unreachable from any call that may free a record."""
    if g.rt not in ("int", "_Bool"):
        return False
    kb = set()
    for b, i, n in g.calls():
        if cg.callees_of_call(g, n) & freeing:
            kb.add(b.id)
    if not kb:
        return False
    dirty = cfgq.reach_set(g, kb)
    zero = [b for b, i, n in g.nodes() if n.get("k") == "Return" and n.get("e") is not None and const_val(n["e"]) == 0]
    nonzero = [b for b, i, n in g.nodes() if n.get("k") == "Return" and not (n.get("e") is not None and const_val(n["e"]) == 0)]
    return bool(zero) and all(b.id not in dirty for b in zero)


def check(run, prog, tier, cg, eff):
    run.rule("C09-c", "an interactive_t* held across a call that may free connection records (reaches remove_interactive or the LPC interpreter and returns) is re-validated (`ob->interactive == ip`) or re-loaded before it is dereferenced or passed on", 20)
    strong = cg.reaches(FREE_SEEDS, barriers=NO_RETURN | {"receive_snoop"}, cut_edges=cg.snoop_edges())
    weak = cg.reaches(FREE_SEEDS, barriers=NO_RETURN)
    # tell_object(ob, ..) takes only its add_message branch when ob->interactive is set
    tobj = prog.func("tell_object")
    tell_refined = False
    if tobj is not None:
        for b, i, n in tobj.calls("tell_npc"):
            gs = [atom_of(c, t) for c, t, B in cfgq.guards(tobj, b.id)]
            tell_refined = any(op == "false" and strip(l).get("f") == "interactive" for op, l, r in gs)
    run.extra["tell_object_refined"] = tell_refined
    zero_clean = set()
    for g in prog.functions():
        if zero_return_clean(g, cg, weak):
            zero_clean.add(g.name)
    run.extra["zero_return_callback_free"] = sorted(zero_clean & {"call_function_interactive", "set_call"})
    nfun = 0
    for f in sorted(prog.functions(), key=lambda x: (x.file, x.line)):
        ipv = ip_vars(f)
        if not ipv:
            continue
        nfun += 1

        def kill_strength(n, st):
            cal = cg.callees_of_call(f, n)
            if n.get("fn") == "tell_object" and tell_refined and n.get("args"):
                a0 = strip(n["args"][0])
                if a0.get("k") == "Mem" and a0.get("f") == "ob" and strip(a0["b"]).get("id") in ipv and not st.get(strip(a0["b"]).get("id")):
                    cal = {"add_message"}
            if cal & strong:
                return "strong"
            if cal & weak:
                return "weak"
            return None

        def refresh(c, truth):
            return validated_vars(c, truth, ipv)

        def unkill(c, truth, blk):
            # `if (g(ip, ..))` where g returns 0 only on paths that made no callback: nothing was freed on the zero edge
            for a_, tr_ in implied_atoms(c, truth):
                a_ = strip(a_)
                if not tr_ and a_.get("k") == "Call" and a_.get("fn") in zero_clean:
                    return lambda x, bid=blk.id, fn=a_.get("fn"), ln=a_.get("l"): x[0] == bid and x[3] == fn and x[2] == ln
            return None

        try:
            res = stale.analyse(f, ipv, kill_strength, refresh, unkill)
        except RuntimeError:
            run.ob("C09-c", "ip:%s:%s:diverged" % (rel(f.file), f.name), None, "dataflow did not converge", f.file, f.line, f.name)
            continue
        kills = res.kills
        uses = res.uses
        if not kills:
            continue
        run.saw(f)
        owner = f.name == "remove_interactive" and closing_protocol(f, ipv, [(k[0], k[1]) for k in kills])
        stale_at = res.stale_by_site()
        ordn = {}
        for site in sorted(kills, key=lambda s: (s[2] or 0, s[0], s[1])):
            fn = site[3]
            o = ordn.get(fn, 0)
            ordn[fn] = o + 1
            inst = "ip:%s:%s:%s:%d" % (rel(f.file), f.name, fn, o)
            bad = stale_at.get(site, [])
            if not bad:
                run.ob("C09-c", inst, True, "after %s() (line %s) every held connection pointer is re-validated, re-loaded or dropped before use" % (fn, site[2]), f.file, site[2], f.name)
            elif owner:
                run.ob("C09-c", inst, True, "remove_interactive owns the record: CLOSING is set before %s() and a nested call returns on CLOSING, so the callback cannot free it" % fn, f.file, site[2], f.name)
            elif kills[site] == "weak":
                run.ob("C09-c", inst, None, "after %s() (line %s), which can run the snooper's receive_snoop(), %s is used unvalidated at line %s; stale only if the snooper's callback destructs this user" % (fn, site[2], bad[0][1], bad[0][0]), f.file, site[2], f.name)
            else:
                chain = (callgraph.why(cg, fn, FREE_SEEDS, NO_RETURN | {"receive_snoop"}) if fn in cg.edges else None) or [fn]
                run.ob("C09-c", inst, False, "%s() at line %s can free the connection record (%s); %s at line %s%s uses it without re-validation" % (fn, site[2], " > ".join(chain[:6]), bad[0][1], bad[0][0], " (+%d more uses)" % (len(bad) - 1) if len(bad) > 1 else ""), f.file, site[2], f.name,
                       what="%s uses %s after %s() returned although that callback can destruct the user and free the record" % (f.name, bad[0][1], fn))
    run.extra["ip_holding_functions"] = nfun
