"""C10 — call_out fires exactly once, on time, and can be cancelled (structural clauses only).

C10-a  every site that unlinks a node from a delta-encoded slot list hands the removed delta to the
       successor (or removes a node whose delta is known 0); the insertion site subtracts symmetrically
C10-b  call_out(): dequeue before invoke; one recovery point per entry; the entry is released on both
       setjmp branches; the slot clock advances only after the slot's chain is drained
C10-c  destructed targets are dropped and destructed object arguments scrubbed before the call
Timing arithmetic over histories is not decided."""
import facts
import cfgq
import callgraph
import ctxstate
from core import rel
from facts import strip, show, walk, const_val, normalize_cond, atom_of

REC = ("pending_call_s", "pending_call_t")


def is_next_of(e):
    """e is X->next (pending call) -> returns text of X, else None"""
    e = strip(e)
    if e.get("k") == "Mem" and e.get("f") == "next" and e.get("rec") in REC:
        return show(strip(e["b"]))
    return None


def check(run, prog, tier):
    run.rule("C10-a", "every unlink of a pending call adds the removed node's delta to its successor (or the removed delta is 0); insertion subtracts the new delta from the successor", 5)
    run.rule("C10-b", "call_out(): the slot head is advanced before the callback runs; setjmp is re-armed per entry; the entry is freed on both setjmp branches; call_out_time advances only after the slot chain is drained", 5)
    run.rule("C10-c", "call_out(): apply is reached only past the O_DESTRUCTED test of the target; destructed object arguments are replaced by 0 before they are pushed; a function-pointer call_out is run only past an O_DESTRUCTED test of the pointer's owner", 3)

    cg = callgraph.CallGraph(prog)
    eff = callgraph.Effects(cg)
    unit = prog.unit("lib/efuns/call_out.c")
    funcs = [f for f in unit.funcs.values() if f.file.endswith("call_out.c")]
    run.need(funcs, "functions of call_out.c")

    # ---- C10-a
    nun = 0
    import inline as _inl
    called_here = {n.get("fn") for g in funcs for b, i, n in g.calls()}
    for f0 in sorted(funcs, key=lambda x: x.line):
        # a file-local helper that several removers share is looked at inside each of them
        if f0.static and f0.name in called_here and any(is_next_of(n["R"]) is not None for b, i, n in f0.nodes() if n.get("k") == "Asg" and n.get("op") == "=") \
                and not any(g.name != f0.name and g.static and g.name in called_here and False for g in funcs):
            callers = [g for g in funcs if any(True for _ in g.calls(f0.name))]
            if callers and all(not g.static or True for g in callers):
                continue
        f = _inl.inlined(f0)
        ordn = 0
        for b, i, n in f.nodes():
            if not (n.get("k") == "Asg" and n.get("op") == "="):
                continue
            x = is_next_of(n["R"])
            if x is None:
                continue
            l = strip(n["L"])
            # link store: *copp = X->next  or  call_list[...] = X->next   (not free-list handling: call_list_free = ...)
            if not ((l.get("k") == "Un" and l.get("op") == "*") or (l.get("k") == "Sub" and strip(l["b"]).get("n") == "call_list")):
                continue
            run.saw(f)
            nun += 1
            inst = "unlink:%s:%s:%d" % (rel(f.file), f.name, ordn)
            ordn += 1
            # (1) successor compensation dominating the store
            comp = None
            for b2, i2, n2 in f.nodes():
                if n2.get("k") == "Asg" and n2.get("op") == "+=":
                    l2 = strip(n2["L"])
                    r2 = strip(n2["R"])
                    if l2.get("k") == "Mem" and l2.get("f") == "delta" and is_next_of(l2["b"]) == x \
                            and r2.get("k") == "Mem" and r2.get("f") == "delta" and show(strip(r2["b"])) == x:
                        # the compensation must lie on every path to the store on which a successor exists:
                        # path from its guarding test's true edge
                        gb = [B for c, t, B in cfgq.guards(f, b2.id) if t and is_next_of(c) == x]
                        if gb and f.dominates(gb[0], b.id):
                            # from the test's true edge every path to the store passes the compensation block
                            tedge = f.blocks[gb[0]].succ[0]
                            if f.reach_avoiding([tedge], lambda blk, bb=b.id: blk.id == bb, avoid_blocks=[b2.id]) is None or b2.id == b.id:
                                comp = n2
            if comp is not None:
                run.ob("C10-a", inst, True, "%s preceded by `%s` under `if (%s->next)`" % (show(n), show(comp), x), f.file, n.get("l"), f.name)
                continue
            # (2) removed node's delta known to be 0
            zero = False
            xhead = show(l)
            for c, t, B in cfgq.guards(f, b.id):
                op, cl, cr = atom_of(c, t)
                if op == "==" and const_val(cr) == 0:
                    cl0 = strip(cl)
                    if cl0.get("k") == "Un" and cl0.get("op") == "--":
                        cl0 = strip(cl0["e"])
                    if cl0.get("k") == "Mem" and cl0.get("f") == "delta":
                        zero = True
            run.ob("C10-a", inst, zero, "%s — %s" % (show(n), "the removed head's delta is 0 on this path (slot fired)" if zero else
                                                      "no `%s->next->delta += %s->delta` before the unlink: later entries of the slot fire early" % (x, x)),
                   f.file, n.get("l"), f.name, what="%s unlinks a pending call without passing its delta to the successor" % f.name)
    # insertion symmetry in new_call_out
    nco = run.need(prog.func("new_call_out"), "new_call_out")
    run.saw(nco)
    ins_ok = False
    why = "no mid-list insertion found"
    for b, i, n in nco.nodes():
        if n.get("k") == "Asg" and n.get("op") == "-=":
            l = strip(n["L"])
            if l.get("k") == "Mem" and l.get("f") == "delta":
                succ_txt = show(strip(l["b"]))
                amount = show(strip(n["R"]))
                # same block: cop->delta = <amount>; cop->next = <succ>; <succ slot> = cop
                # on every path from here to a return the new entry takes the same amount as its delta and the shortened
                # entry as its successor, with the amount untouched in between (same block, or behind a `break`)
                def stores(pred):
                    return {b2.id for b2, i2, n2 in nco.nodes() if n2.get("k") == "Asg" and n2.get("op") == "=" and pred(n2)}
                d_blocks = stores(lambda n2: strip(n2["L"]).get("k") == "Mem" and strip(n2["L"]).get("f") == "delta" and show(strip(n2["R"])) == amount)
                n_blocks = stores(lambda n2: strip(n2["L"]).get("k") == "Mem" and strip(n2["L"]).get("f") == "next" and show(strip(n2["R"])) == succ_txt)
                dirty = {b2.id for b2, i2, n2 in nco.nodes() if n2.get("k") == "Asg" and show(strip(n2["L"])) == amount and not (b2.id == b.id)}
                is_exit = lambda blk: nco.exit in blk.live_succ() and not blk.nr
                def all_paths_pass(blocks):
                    if b.id in blocks:
                        return True
                    return bool(blocks) and nco.reach_avoiding(b.live_succ(), is_exit, avoid_blocks=blocks) is None
                clean = b.id in d_blocks or nco.reach_avoiding(b.live_succ(), lambda blk: blk.id in dirty, avoid_blocks=d_blocks) is None
                has_delta = all_paths_pass(d_blocks) and clean
                has_next = all_paths_pass(n_blocks)
                guard = any(op == ">=" and show(strip(cl)).endswith("->delta") and show(strip(cr)) == amount
                            for (op, cl, cr) in [atom_of(c, t) for c, t, B in cfgq.guards(nco, b.id)])
                ins_ok = has_delta and has_next and guard
                why = "successor delta -= %s, new delta = %s, guarded by successor delta >= %s: %s/%s/%s" % (amount, amount, amount, has_delta, has_next, guard)
    run.ob("C10-a", "insert:%s:new_call_out" % rel(nco.file), ins_ok, why, nco.file, nco.line, "new_call_out",
           what="new_call_out inserts before a later entry without subtracting the new delta from it")

    # ---- C10-b
    import inline
    co = inline.inlined(run.need(prog.func("call_out", "lib/efuns/call_out.c"), "call_out()"))
    run.saw(co)
    invoke = [(b, i, n) for b, i, n in co.calls() if n.get("fn") in ("apply", "call_function_pointer", "safe_apply", "apply_low")]
    run.need(len(invoke) >= 2, "callback invocations in call_out()")
    deq = [(b, i, n) for b, i, n in co.nodes() if n.get("k") == "Asg" and strip(n["L"]).get("k") == "Sub" and strip(strip(n["L"])["b"]).get("n") == "call_list"
           and is_next_of(n["R"]) is not None]
    run.need(deq, "dequeue store in call_out()")
    db = deq[0]
    bad = [n.get("fn") for b, i, n in invoke if not co.point_dominates((db[0].id, db[1]), (b.id, i))]
    run.ob("C10-b", "dequeue-first", not bad, "`%s` dominates every callback invocation" % show(db[2]) if not bad else "callback %s can run before the entry is taken off the slot list" % bad,
           co.file, db[2].get("l"), "call_out", what="call_out(): the entry is still queued while its callback runs (an error repeats it)")
    sjs = [b.id for b, i, n in co.calls() if n.get("fn") in ctxstate.SETJMP]
    run.need(sjs, "setjmp in call_out()")
    for j, (b, i, n) in enumerate(invoke):
        p = co.reach_avoiding(b.live_succ(), lambda blk, bb=b.id: blk.id == bb, avoid_blocks=sjs)
        run.ob("C10-b", "rearm:%s:%d" % (n["fn"], j), p is None, "every iteration reaching %s passes setjmp" % n["fn"] if p is None else "cycle %s reaches %s again without re-arming" % (p, n["fn"]),
               co.file, n.get("l"), "call_out", what="call_out(): one recovery point shared by several entries")
    frees = {b.id for b, i, n in co.calls() if n.get("fn") in ("free_called_call", "free_call")}
    # from each setjmp branch, the next dequeue / loop exit cannot be reached without releasing the entry
    for sj in sjs:
        targets = {db[0].id}
        p = co.reach_avoiding(co.blocks[sj].live_succ(), lambda blk: blk.id in targets or (co.exit in blk.live_succ() and not blk.nr), avoid_blocks=frees)
        run.ob("C10-b", "release:%d" % sj, p is None, "both setjmp branches release the entry (free_called_call) before the next dequeue or return" if p is None else "path %s reaches the next entry without releasing the current one" % p,
               co.file, co.line_of_block(sj), "call_out", what="call_out(): an entry is leaked or reused on one setjmp branch")
    inc = [(b, i, n) for b, i, n in co.nodes() if n.get("k") == "Un" and n.get("op") == "++" and strip(n["e"]).get("n") == "call_out_time"]
    run.need(inc, "call_out_time++ in call_out()")
    # chain-drained test: the do-while condition on the slot head's delta
    drain = [bid for bid in co.reachable() if (co.branch_cond(bid) is not None and "delta == 0" in show(co.branch_cond(bid)) and "--" not in show(co.branch_cond(bid)))]
    ok = bool(drain)
    why = "no drain condition found"
    if drain:
        for b, i, n in invoke:
            p = co.reach_avoiding(b.live_succ(), lambda blk: blk.id == inc[0][0].id, avoid_blocks=drain)
            if p is not None:
                ok = False
                why = "call_out_time++ reachable from %s via %s without re-testing the slot head" % (n["fn"], p)
        if ok:
            why = "call_out_time++ is reached from a callback only through the slot-drained test `%s`" % show(co.branch_cond(drain[0]))
    run.ob("C10-b", "clock-after-drain", ok, why, co.file, inc[0][2].get("l"), "call_out", what="call_out(): the slot clock advances while entries of the slot are still pending")

    # ---- C10-c
    def expanded(e, depth=0):
        """text of e with every local that has exactly one definition replaced by that definition (a test of
        `owner->flags` with `owner = cop->ob ? cop->ob : ...` is a test of the call_out's object)"""
        txt = show(e)
        if depth > 2:
            return txt
        for x in walk(e):
            if x.get("k") == "Ref" and x.get("d") == "local" and x.get("id") is not None:
                defs = [n2["R"] for b2, i2, n2 in co.nodes() if n2.get("k") == "Asg" and n2.get("op") == "=" and strip(n2["L"]).get("k") == "Ref" and strip(n2["L"]).get("id") == x["id"]]
                defs += [v["init"] for b2, i2, n2 in co.nodes() if n2.get("k") == "Decl" for v in n2.get("vars", ()) if v.get("id") == x["id"] and isinstance(v.get("init"), dict)]
                if len(defs) == 1:
                    txt += " /*%s=*/ %s" % (x.get("n"), expanded(defs[0], depth + 1))
        return txt
    ap = [(b, i, n) for b, i, n in invoke if n["fn"] == "apply"]
    edges = set()
    for bid in co.reachable():
        c = co.branch_cond(bid)
        if c is None:
            continue
        e, t = normalize_cond(c, True)
        if facts.any_in_macro(e, "O_DESTRUCTED") and "cop->ob" in expanded(e):
            blk = co.blocks[bid]
            s = blk.succ[1] if t else blk.succ[0]  # edge where the flag test is false
            if s is not None:
                edges.add((bid, s))
    okc = bool(edges) and bool(ap)
    whyc = "no O_DESTRUCTED test of cop->ob"
    for b, i, n in ap:
        # paths must agree on the truth of `cop->ob` (not reassigned between the dequeue and the call)
        p = cfgq.reach_consistent(co, [db[0].id], lambda blk, bb=b.id: blk.id == bb,
                                  lambda e: "cop->ob" if (e.get("k") == "Mem" and show(e) == "cop->ob") else None, avoid_edges=edges)
        if p is not None:
            okc = False
            whyc = "path %s reaches apply without passing the not-destructed edge" % p
    if okc:
        whyc = "apply(cop->function.s, cop->ob, ...) only past the false edge of `cop->ob->flags & O_DESTRUCTED`"
    run.ob("C10-c", "target-live", okc, whyc, co.file, ap[0][2].get("l") if ap else co.line, "call_out", what="call_out(): a destructed object's call_out is applied")
    # the same for call_outs of a function pointer: they belong to the pointer's owner
    fpc = [(b, i, n) for b, i, n in invoke if n["fn"] == "call_function_pointer"]
    if fpc:
        edges2 = set()
        for bid in co.reachable():
            c = co.branch_cond(bid)
            if c is None:
                continue
            e, t = normalize_cond(c, True)
            if facts.any_in_macro(e, "O_DESTRUCTED") and "hdr.owner" in expanded(e):
                blk = co.blocks[bid]
                s2 = blk.succ[1] if t else blk.succ[0]
                if s2 is not None:
                    edges2.add((bid, s2))
        p = None
        for b, i, n in fpc:
            p = p or co.reach_avoiding([db[0].id], lambda blk, bb=b.id: blk.id == bb, avoid_edges=edges2)
        run.ob("C10-c", "owner-live", bool(edges2) and p is None, "call_function_pointer(cop->function.f, ...) only past the false edge of an O_DESTRUCTED test of the pointer's owner" if edges2 and p is None else
               ("no O_DESTRUCTED test of the function pointer's owner in call_out()" if not edges2 else "path %s reaches call_function_pointer without passing the owner's not-destructed edge" % p[:8]),
               co.file, fpc[0][2].get("l"), "call_out", what="call_out(): a function-pointer call_out is run after its owner was destructed")
    push = [(b, i, n) for b, i, n in co.calls("transfer_push_some_svalues")]
    scrub = [(b, i, n) for b, i, n in co.nodes() if n.get("k") == "Asg" and show(strip(n["R"])) == "const0" and
             any(t and facts.any_in_macro(c, "O_DESTRUCTED") for c, t, B in cfgq.guards(co, b.id))]
    oks = bool(push) and bool(scrub)
    if oks:
        # the scrub loop's condition block dominates the push
        loops = [B for c, t, B in cfgq.guards(co, scrub[0][0].id) if co.dominates(B, push[0][0].id)]
        oks = bool(loops)
    run.ob("C10-c", "args-scrubbed", oks, "destructed object arguments are replaced by 0 in a loop that dominates the push" if oks else "no scrub of destructed arguments before transfer_push_some_svalues",
           co.file, push[0][2].get("l") if push else co.line, "call_out", what="call_out(): destructed objects are passed as arguments")

    # ---- C10-d the revolutions of a new entry are counted from the wheel's position, not from the clock alone
    run.rule("C10-d", "new_call_out: the value stored into ->delta derives from an expression over the delay, current_time AND call_out_time (the wheel can lag the clock while heart beats/resets run or during catch-up); the slot index derives from delay + current_time; time_left() uses both as well", 3)
    nc = run.need(prog.func("new_call_out"), "new_call_out")
    run.saw(nc)
    dstores = [(b, i, n) for b, i, n in nc.nodes() if n.get("k") == "Asg" and n.get("op") == "=" and strip(n["L"]).get("k") == "Mem" and strip(n["L"]).get("f") == "delta"]
    run.need(dstores, "stores to ->delta in new_call_out")
    srcs = {strip(n["R"]).get("id") for b, i, n in dstores if strip(n["R"]).get("k") == "Ref"}
    run.need(len(srcs) == 1 and None not in srcs, "a single local feeding ->delta")
    vid = srcs.pop()
    first = min(dstores, key=lambda x: x[2].get("l") or 0)
    defs = [(b, i, n) for b, i, n in nc.nodes() if n.get("k") == "Asg" and n.get("op") == "=" and strip(n["L"]).get("k") == "Ref" and strip(n["L"]).get("id") == vid and nc.point_dominates((b.id, i), (first[0].id, first[1]))]
    def names_of(f, e, depth=0, skip=()):
        """globals/params an expression depends on, following local variables through their definitions"""
        out = set()
        for x in walk(e):
            if x.get("k") != "Ref":
                continue
            out.add(x.get("n"))
            if x.get("d") == "local" and depth < 3 and x.get("id") not in skip:
                for b2, i2, n2 in f.nodes():
                    if n2.get("k") == "Asg" and strip(n2["L"]).get("id") == x.get("id"):
                        out |= names_of(f, n2["R"], depth + 1, tuple(skip) + (x.get("id"),))
                    elif n2.get("k") == "Decl":
                        for v in n2.get("vars", []):
                            if v.get("id") == x.get("id") and "init" in v:
                                out |= names_of(f, v["init"], depth + 1, tuple(skip) + (x.get("id"),))
        return out

    ok, why = False, "no assignment to the revolutions variable dominates the insertion"
    if defs:
        b, i, n = max(defs, key=lambda x: x[2].get("l") or 0)
        names = names_of(nc, n["R"], 0, (vid,))
        ok = {"call_out_time", "current_time"} <= names and any(x.get("k") == "Bin" and x.get("op") == "/" for x in walk(n["R"]))
        why = "revolutions = %s" % show(n["R"])[:90]
    run.ob("C10-d", "revolutions:new_call_out", ok, why + ("" if ok else " - does not depend on call_out_time: when the wheel lags the clock the entry gets too few revolutions and fires early"), nc.file, defs[0][2].get("l") if defs else nc.line, "new_call_out",
           what="new_call_out computes the number of wheel revolutions without the wheel position call_out_time (%s)" % why)
    slot = [(b, i, n) for b, i, n in nc.nodes() if n.get("k") == "Sub" and strip(n["b"]).get("n") == "call_list"]
    run.need(slot, "call_list[...] in new_call_out")
    sid = strip(slot[0][2]["i"]).get("id")
    sdefs = [n for b, i, n in nc.nodes() if n.get("k") == "Asg" and n.get("op") == "=" and strip(n["L"]).get("id") == sid and nc.point_dominates((b.id, i), (slot[0][0].id, slot[0][1]))]
    oks = bool(sdefs) and "current_time" in names_of(nc, sdefs[-1]["R"]) and any(x.get("k") == "Bin" and x.get("op") == "&" for x in walk(sdefs[-1]["R"]))
    run.ob("C10-d", "slot:new_call_out", oks, "slot = %s" % (show(sdefs[-1]["R"])[:80] if sdefs else "?"), nc.file, slot[0][2].get("l"), "new_call_out", what="new_call_out picks the slot without the absolute due time (delay + current_time) masked to the wheel size")
    tl = run.need(prog.func("time_left"), "time_left")
    run.saw(tl)
    rets = [n for b, i, n in tl.nodes() if n.get("k") == "Return" and n.get("e") is not None]
    okt = bool(rets) and all({"call_out_time", "current_time"} <= names_of(tl, r["e"]) for r in rets)
    run.ob("C10-d", "time_left", okt, "every return of time_left() is relative to both call_out_time and current_time", tl.file, tl.line, "time_left", what="time_left() reports the remaining delay without the wheel position or without the clock")

    # ---- C10-e a count of pending entries moves by one per entry
    run.rule("C10-e", "call_out.c: a file-scope counter that is incremented where an entry is queued and decremented where entries leave is decremented once per entry: no path decrements it directly and then again through a callee that also decrements it (the sweep that unlinks an entry and then hands it to the helper that throws it away), otherwise the count runs low and whatever it gates (an idle fast path, statistics) misses pending entries. No such counter exists today; the witness catalogue carries the positive example", 0)
    counters = {}
    for f in funcs:
        for b, i, n in f.nodes():
            if n.get("k") == "Un" and n.get("op") in ("++", "--") and strip(n["e"]).get("k") == "Ref" and strip(n["e"]).get("d") in ("static", "global"):
                counters.setdefault(strip(n["e"]).get("n"), {"++": [], "--": []})[n["op"]].append((f, b, i, n))
    for cname, sites in sorted(counters.items()):
        if not sites["++"] or not sites["--"]:
            continue
        if not any(f.name == "new_call_out" for f, b, i, n in sites["++"]):
            continue
        decf = {f.name for f, b, i, n in sites["--"]}
        for f, b, i, n in sites["--"]:
            run.saw(f)
            # "the same entry": the path ends where the function takes the next entry into its cursor (an assignment to a
            # local of the entry type); statements in front of that assignment in its block still belong to this entry
            taken = {}
            for b2, i2, n2 in f.nodes():
                if n2.get("k") == "Asg" and n2.get("op") == "=" and strip(n2["L"]).get("k") == "Ref" and strip(n2["L"]).get("d") in ("local", "slocal") and "pending_call" in (strip(n2["L"]).get("t") or ""):
                    taken.setdefault(b2.id, i2)
                    taken[b2.id] = min(taken[b2.id], i2)
            cuts = [x for x in taken if x != b.id or taken[x] > i]
            after = cfgq.reach_set(f, b.live_succ(), avoid_blocks=[b.id] + cuts)
            edge_of = {x for x in cuts if x != b.id and any(x in f.blocks[a].live_succ() for a in list(after) + [b.id])}

            def behind(b2, i2):
                if b2.id == b.id:
                    return i2 > i and (b.id not in taken or taken[b.id] < i or i2 < taken[b.id])
                return b2.id in after or (b2.id in edge_of and i2 < taken[b2.id])
            twice = [(c.get("fn"), c.get("l")) for b2, i2, c in f.calls() if c.get("fn") in decf and c.get("fn") != f.name and behind(b2, i2)]
            again = [n2.get("l") for f2, b2, i2, n2 in sites["--"] if f2 is f and n2 is not n and behind(b2, i2)]
            bad = twice or again
            run.ob("C10-e", "count:%s:%s:%s" % (cname, f.name, n.get("l") and sites["--"].index((f, b, i, n))), not bad,
                   "`%s--` in %s(): no second decrement on any path behind it" % (cname, f.name) if not bad else
                   "`%s--` at line %s is followed on the same path by %s: the entry is counted out twice" % (cname, n.get("l"), ("%s() (line %s), which decrements it too" % twice[0]) if twice else "another `%s--` at line %s" % (cname, again[0])),
                   f.file, n.get("l"), f.name, what="%s counts one entry out of `%s` twice" % (f.name, cname))
