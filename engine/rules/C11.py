"""C11 — heart_beat runs once per interval; faults stay local (structural clauses).

C11-a  fault locality: error_handler switches off exactly the failing object's heart beat
       (set_heart_beat(current_heart_beat, 0), then clears it) on the uncaught path; writers of
       current_heart_beat are call_heart_beat and error_handler only; call_heart_beat publishes the
       object before calling it
C11-b  destruct_object removes the heart beat before it sets O_DESTRUCTED (set_heart_beat refuses
       destructed objects, so the opposite order leaves a dangling entry)
C11-c  heart_beats[] subscripts are bounded by the list length; the growth site really grows
Index compensation over enable/disable histories is not decided."""
import facts
import cfgq
from core import rel
from facts import strip, show, walk, const_val, normalize_cond, atom_of


def round_init(run, prog, RULE):
    """C11-e / C09-g: the heart-beat round starts from freshly assigned cursors."""
    chb = run.need(prog.funci("call_heart_beat"), "call_heart_beat")
    run.saw(chb)
    subs = [(b, i, n) for b, i, n in chb.nodes() if n.get("k") == "Sub" and strip(n["b"]).get("n") == "heart_beats"]
    run.need(subs, "heart_beats[] subscript in call_heart_beat")
    sb, si, sn = min(subs, key=lambda x: x[2].get("l") or 0)
    idxv = strip(sn["i"])
    run.need(idxv.get("k") == "Ref" and idxv.get("d") in ("global", "static"), "the round cursor is a file-scope variable")
    # the bound it is compared with inside the loop
    bounds = {strip(x).get("n") for b, i, n in chb.nodes() if n.get("k") == "Bin" and n.get("op") in ("==", "<", ">=", "!=") for x, y in ((n["R"], n["L"]), (n["L"], n["R"]))
              if any(w.get("k") == "Ref" and w.get("n") == idxv.get("n") for w in walk(y)) and strip(x).get("k") == "Ref" and strip(x).get("d") in ("global", "static")}
    for v in [idxv.get("n")] + sorted(bounds - {idxv.get("n")}):
        inits = [(b, i, n) for b, i, n in chb.nodes() if n.get("k") == "Asg" and n.get("op") == "=" and strip(n["L"]).get("n") == v and chb.point_dominates((b.id, i), (sb.id, si))]
        # chained  a = b = 0  counts for both
        inits += [(b, i, n) for b, i, n in chb.nodes() if n.get("k") == "Asg" and n.get("op") == "=" and strip(n["R"]).get("k") == "Asg" and strip(strip(n["R"])["L"]).get("n") == v and chb.point_dominates((b.id, i), (sb.id, si))]
        run.ob(RULE, "round-init:%s" % v, bool(inits), "%s is assigned at line %s, before the first heart_beats[] subscript (line %s)" % (v, inits[0][2].get("l"), sn.get("l")) if inits else
               "%s is not assigned in call_heart_beat before heart_beats[%s] is first used (line %s): after a heart_beat error the previous round's value is reused" % (v, idxv.get("n"), sn.get("l")),
               chb.file, sn.get("l"), "call_heart_beat", what="call_heart_beat starts a round with a stale %s when the previous round was left by an error (objects skipped, or heart_beats[-1] read)" % v)



def fault_locality(run, prog, RULE):
    """C11-a / C09-d: the failing heart beat, and only it, is switched off on the uncaught path."""
    eh = run.need(prog.funci("error_handler"), "error_handler")
    chb = run.need(prog.funci("call_heart_beat"), "call_heart_beat")
    run.saw(eh)
    run.saw(chb)
    # ---- C11-a
    ljs = [(b, i, n) for b, i, n in eh.calls() if n.get("fn") in ("longjmp", "_longjmp", "siglongjmp")]
    # a local that only ever holds current_heart_beat stands for it (object_t *failed = current_heart_beat)
    hb_alias = set()
    for b, i, n in eh.nodes():
        if n.get("k") == "Decl":
            for v in n.get("vars", ()):
                if isinstance(v.get("init"), dict) and strip(v["init"]).get("k") == "Ref" and strip(v["init"]).get("n") == "current_heart_beat":
                    others = [1 for b2, i2, n2 in eh.nodes() if n2.get("k") == "Asg" and strip(n2["L"]).get("k") == "Ref" and strip(n2["L"]).get("id") == v.get("id")]
                    if not others:
                        hb_alias.add(v.get("id"))

    def is_hb(e):
        e = strip(facts.normalize_cond(e, True)[0])
        return e.get("k") == "Ref" and (e.get("n") == "current_heart_beat" or (e.get("id") in hb_alias and e.get("id") is not None))
    tests = [bid for bid in eh.reachable() if eh.branch_cond(bid) is not None and is_hb(eh.branch_cond(bid))]
    ok, why = False, "error_handler does not test current_heart_beat"
    if tests:
        B = tests[0]
        blk = eh.blocks[B]
        # the edge on which the heart beat object is set
        set_edge = blk.succ[0] if facts.normalize_cond(eh.branch_cond(B), True)[1] else blk.succ[1]
        offs = [b.id for b, i, n in eh.calls("set_heart_beat") if is_hb(n["args"][0]) and const_val(n["args"][1]) == 0]
        clears = [b.id for b, i, n in eh.nodes() if n.get("k") == "Asg" and strip(n["L"]).get("n") == "current_heart_beat" and const_val(n["R"]) == 0]
        final = [(b, i, n) for b, i, n in ljs if b.id in cfgq.reach_set(eh, [B])]
        if not offs:
            why = "no set_heart_beat(current_heart_beat, 0) in error_handler"
        elif not clears:
            why = "current_heart_beat is not cleared"
        elif not final:
            why = "no longjmp after the heart beat test"
        else:
            ok = True
            why = "uncaught path: `if (current_heart_beat)` -> set_heart_beat(current_heart_beat, 0) -> current_heart_beat = 0 before the jump"
            # reviewed exception: the error ends at a recovery point inside the LPC call chain (a protected call made by
            # heart_beat() itself: `current_error_context->save_csp >= control_stack`), so heart_beat() goes on and is
            # not at fault; the switch-off may be skipped on exactly that edge
            contained = set()
            for bid in eh.reachable():
                c = eh.branch_cond(bid)
                if c is None:
                    continue
                for idx, truth in ((0, True), (1, False)):
                    op, l, r = atom_of(c, truth)
                    if op == ">=" and r is not None and "save_csp" in show(l) and strip(r).get("n") == "control_stack" and idx < len(eh.blocks[bid].succ):
                        contained.add((bid, eh.blocks[bid].succ[idx]))
            for lb, li, ln in final:
                if not eh.dominates(B, lb.id):
                    ok, why = False, "the final longjmp (line %s) is not dominated by the heart beat test" % ln.get("l")
                p = eh.reach_avoiding([set_edge], lambda x, t=lb.id: x.id == t, avoid_blocks=offs, avoid_edges=contained)
                if p is not None:
                    ok, why = False, "path %s from the test's true edge reaches the jump without set_heart_beat(current_heart_beat, 0)" % p
                p = eh.reach_avoiding([set_edge], lambda x, t=lb.id: x.id == t, avoid_blocks=clears, avoid_edges=contained)
                if p is not None:
                    ok, why = False, "path %s reaches the jump with current_heart_beat still set" % p
            # order: switch off before clearing
            if ok and not any(eh.dominates(o, c) for o in offs for c in clears):
                ok, why = False, "current_heart_beat is cleared before set_heart_beat uses it"
    run.ob(RULE, "switch-off", ok, why, eh.file, eh.line, "error_handler", what="an error in a heart_beat does not switch off that object's heart beat: " + why)
    # every other way out of error_handler: only the catch path (a caught error is not a fault of the heart beat) and the
    # `in_error` exit (a second error while the driver itself dumps the trace of the first) may skip the switch-off
    after_test = cfgq.reach_set(eh, [tests[0]]) if tests else set()
    for j, (lb, li, ln) in enumerate(sorted([x for x in ljs if x[0].id not in after_test], key=lambda x: x[2].get("l") or 0)):
        allowed = None
        for c, t, B in cfgq.guards(eh, lb.id):
            op, l, r = atom_of(c, t)
            if op == "true" and strip(l).get("k") == "Ref" and strip(l).get("n") == "in_error":
                allowed = "nested error while the driver dumps the first error's trace (`in_error`)"
            if op == "==" and (facts.any_in_macro(c, "FRAME_CATCH") or "FRAME_CATCH" in show(c)) and "framekind" in show(c):
                allowed = "catch path (innermost context is a catch frame)"
        run.ob(RULE, "early-exit:%d" % j, allowed is not None, "longjmp at line %s skips the heart-beat switch-off: %s" % (ln.get("l"), allowed or "not one of the two reviewed exits (catch frame / in_error); its guards are %s" % [show(c)[:40] for c, t, B in cfgq.guards(eh, lb.id)]),
               eh.file, ln.get("l"), "error_handler", what="error_handler leaves at line %s without switching off the failing heart beat on a path that is neither the catch path nor the in_error exit" % ln.get("l"))
    # catch path must not switch it off (a caught error is not a fault of the heart beat) - the catch longjmp is not reachable from the test
    import helpers
    writers = sorted(helpers.fold(prog, {f.name for f in prog.functions() for b, i, n in f.nodes() if n.get("k") == "Asg" and strip(n["L"]).get("n") == "current_heart_beat" and strip(n["L"]).get("d") in ("global", "static")},
                                  {"call_heart_beat", "error_handler"}))
    run.ob(RULE, "writers", set(writers) <= {"call_heart_beat", "error_handler"} and bool(writers), "current_heart_beat written by %s" % writers, chb.file, chb.line, "call_heart_beat",
           what="current_heart_beat written outside call_heart_beat/error_handler: %s" % writers)
    calls = [(b, i, n) for b, i, n in chb.calls() if n.get("fn") in ("call_function", "apply", "apply_low", "call_function_pointer")]
    sets = [(b, i, n) for b, i, n in chb.nodes() if n.get("k") == "Asg" and strip(n["L"]).get("n") == "current_heart_beat" and const_val(n["R"]) != 0]
    run.need(calls, "heart_beat invocation in call_heart_beat")
    okp = bool(sets) and all(any(chb.point_dominates((sb.id, si), (b.id, i)) for sb, si, sn in sets) for b, i, n in calls)
    # and the published object is the one that is called
    same = False
    if sets and calls:
        pub = show(strip(sets[0][2]["R"]))
        same = any(pub in show(a) for a in calls[0][2].get("args", []))
    run.ob(RULE, "publish", okp and same, "current_heart_beat = %s dominates %s" % (show(strip(sets[0][2]["R"])) if sets else "?", show(calls[0][2])[:60]), chb.file, calls[0][2].get("l"), "call_heart_beat",
           what="the heart_beat call runs without current_heart_beat naming the called object")
    clr = [(b, i, n) for b, i, n in chb.nodes() if n.get("k") == "Asg" and strip(n["L"]).get("n") == "current_heart_beat" and const_val(n["R"]) == 0]
    # cleared before the other per-tick tasks (reset / call_out) run, so their errors are not blamed on a heart beat
    others = [(b, i, n) for b, i, n in chb.calls() if n.get("fn") in ("look_for_objects_to_swap", "call_out")]
    okc = bool(clr) and all(any(chb.point_dominates((cb.id, ci), (b.id, i)) for cb, ci, cn in clr) for b, i, n in others)
    run.ob(RULE, "clear-before-other-tasks", okc, "current_heart_beat = 0 dominates look_for_objects_to_swap()/call_out()" if okc else "reset/call_out run with current_heart_beat possibly still set",
           chb.file, chb.line, "call_heart_beat", what="an error in reset()/call_out switches off the last heart beat object's heart beat")




def hb_cursor_rule(run, prog, RULE):
    """removal from heart_beats[] during a round keeps the round cursors right (used by C11-d and C08-j)"""
    shb = run.need(prog.funci("set_heart_beat"), "set_heart_beat")
    run.saw(shb)
    # ---- C11-d round cursors on removal
    # the position of the entry being removed: the local that subscripts heart_beats[] in set_heart_beat (whatever it is called)
    pos_ids = {strip(n["i"]).get("id") for b, i, n in shb.nodes() if n.get("k") == "Sub" and strip(n["b"]).get("n") == "heart_beats" and strip(n["i"]).get("k") == "Ref" and strip(n["i"]).get("d") == "local"}
    run.need(pos_ids, "local subscript of heart_beats[] in set_heart_beat")
    for var, cmpop, other in (("num_hb_to_do", "<", "num_hb_to_do"), ("heart_beat_index", "<=", "heart_beat_index")):
        decs = [(b, i, n) for b, i, n in shb.nodes() if n.get("k") == "Un" and n.get("op") == "--" and strip(n["e"]).get("n") == var]
        if not decs:
            run.ob(RULE, "cursor:" + var, False, "set_heart_beat never adjusts %s when an entry is removed" % var, shb.file, shb.line, "set_heart_beat", what="removal from heart_beats[] does not adjust %s" % var)
            continue
        b, i, n = decs[0]
        g = [atom_of(c, t) for c, t, B in cfgq.guards(shb, b.id)]
        inside = any(op == cmpop and strip(l).get("id") in pos_ids and strip(l).get("d") == "local" and strip(r).get("n") == other for op, l, r in g)
        in_round = any((op == "true" and strip(l).get("n") == "num_hb_to_do") or (op == "!=" and strip(l).get("n") == "num_hb_to_do" and const_val(r) == 0) for op, l, r in g)
        run.ob(RULE, "cursor:" + var, inside and in_round and len(decs) == 1, "%s-- under `index %s %s` (%s) and only while a round is running (%s)" % (var, cmpop, other, inside, in_round), shb.file, n.get("l"), "set_heart_beat",
               what="set_heart_beat(ob,0) adjusts %s for entries that are not part of the running round (or not at all): objects are skipped or called twice in that tick" % var)



def _flag_clear(c, truth):
    """the variable a branch fact says is zero: `!x` / `x == 0` true, `x` / `x != 0` false"""
    e, t = normalize_cond(c, truth)
    e = strip(e)
    if e.get("k") == "Ref" and t is False:
        return e
    if e.get("k") == "Bin" and e.get("op") in ("==", "!=") and const_val(e["R"]) == 0 and strip(e["L"]).get("k") == "Ref" and (t is True) == (e["op"] == "=="):
        return strip(e["L"])
    return None

def check(run, prog, tier):
    run.rule("C11-a", "error_handler: on the uncaught path with current_heart_beat set, set_heart_beat(current_heart_beat,0) and the clearing store precede the jump; current_heart_beat has no other writers; it is set before the heart_beat call", 4)
    run.rule("C11-b", "destruct_object: set_heart_beat(ob, 0) dominates the store that sets O_DESTRUCTED", 1)
    run.rule("C11-e", "call_heart_beat: the round cursor and the round length (the variables the heart_beats[] subscript and its bound use) are assigned in call_heart_beat before the first subscript on every path; an error leaves the round by longjmp, so the reset at the end of a round cannot be relied on", 2)
    run.rule("C11-d", "set_heart_beat removal: num_hb_to_do-- only for an entry inside the running round (index < num_hb_to_do), heart_beat_index-- only for an entry at or before the cursor, both only while a round runs", 2)
    run.rule("C11-c", "heart_beats[]: every subscript is bounded by num_hb_objs (counting-down loop from the length, or append after the capacity test); the capacity variable is increased before the reallocation", 6)

    eh = run.need(prog.funci("error_handler"), "error_handler")
    chb = run.need(prog.funci("call_heart_beat"), "call_heart_beat")
    shb = run.need(prog.funci("set_heart_beat"), "set_heart_beat")
    do = run.need(prog.func("destruct_object"), "destruct_object")
    for f in (eh, chb, shb, do):
        run.saw(f)

    fault_locality(run, prog, "C11-a")

    hb_cursor_rule(run, prog, "C11-d")

    # ---- C11-b
    flagsets = [(b, i, n) for b, i, n in do.nodes() if n.get("k") == "Asg" and n.get("op") == "|=" and strip(n["L"]).get("f") == "flags" and facts.any_in_macro(n["R"], "O_DESTRUCTED")]
    run.need(flagsets, "O_DESTRUCTED store in destruct_object")
    offs = [(b, i, n) for b, i, n in do.calls("set_heart_beat") if const_val(n["args"][1]) == 0]
    fb, fi, fnode = flagsets[0]
    okb = any(do.point_dominates((b.id, i), (fb.id, fi)) and show(strip(n["args"][0])) == show(strip(strip(fnode["L"])["b"])) for b, i, n in offs)
    run.ob("C11-b", "order", okb, "set_heart_beat(%s, 0) dominates `%s`" % (show(strip(strip(fnode["L"])["b"])), show(fnode)) if okb else "O_DESTRUCTED is set before (or without) set_heart_beat(ob, 0): the entry stays in heart_beats[]",
           do.file, fnode.get("l"), "destruct_object", what="destruct_object leaves the object in the heart beat list")

    # ---- C11-c
    unit = prog.unit("src/backend.c")
    for f in sorted([x for x in unit.funcs.values() if x.file.endswith("backend.c")], key=lambda x: x.line):
        ordn = 0
        for b, i, n in f.nodes():
            base = None
            if n.get("k") == "Sub" and strip(n["b"]).get("n") == "heart_beats":
                base, idx = n, strip(n["i"])
            elif n.get("k") == "Bin" and n.get("op") == "+" and strip(n["L"]).get("n") == "heart_beats":
                base, idx = n, strip(n["R"])
            if base is None:
                continue
            inst = "hb-index:%s:%d" % (f.name, ordn)
            ordn += 1
            verdict, why = None, "index shape not recognised"
            # strip a constant offset: heart_beats + (index + 1) is the memmove source, bounded by the count argument
            if idx.get("k") == "Bin" and idx.get("op") == "+" and const_val(idx["R"]) == 1:
                idx = strip(idx["L"])
                plus1 = True
            else:
                plus1 = False
            if idx.get("k") == "Ref" and idx.get("d") == "local":
                asg = [n2 for b2, i2, n2 in f.nodes() if n2.get("k") == "Asg" and strip(n2["L"]).get("id") == idx.get("id")]
                from_len = bool(asg) and all(strip(a["R"]).get("n") == "num_hb_objs" for a in asg)
                counting = any(t and strip(c).get("k") == "Un" and strip(c).get("op") == "--" and strip(strip(c)["e"]).get("id") == idx.get("id") for c, t, B in cfgq.guards(f, b.id))
                found = any(t is False and atom_of(c, t)[0] == ">=" or (atom_of(c, t)[0] == "<" and const_val(atom_of(c, t)[2]) == 0 and not t) for c, t, B in cfgq.guards(f, b.id))
                if from_len and counting:
                    verdict, why = True, "%s counts down from num_hb_objs under `while (%s--)`: 0 <= %s < num_hb_objs" % (idx["n"], idx["n"], idx["n"])
                elif from_len and any(atom_of(c, t)[0] == ">=" and const_val(atom_of(c, t)[2]) == 0 or (atom_of(c, t) [0] == "<" and False) for c, t, B in cfgq.guards(f, b.id)):
                    verdict, why = True, "%s came from the counting-down search and `%s < 0` was excluded" % (idx["n"], idx["n"])
                elif from_len:
                    g = [(atom_of(c, t)) for c, t, B in cfgq.guards(f, b.id)]
                    if any(op == ">=" and show(strip(l)) == idx["n"] and const_val(r) == 0 for op, l, r in g):
                        verdict, why = True, "%s from the search loop, `%s >= 0` established" % (idx["n"], idx["n"])
                    else:
                        why = "index from the search loop but the not-found case (-1) is not excluded"
                        verdict = False
            elif idx.get("k") == "Un" and idx.get("op") == "++" and strip(idx["e"]).get("n") == "num_hb_objs":
                # append: every path passes the capacity logic
                tests = [bid for bid in f.reachable() if f.branch_cond(bid) is not None and "max_heart_beats" in show(f.branch_cond(bid))]
                dom = [t for t in tests if f.dominates(t, b.id)]
                verdict = bool(dom)
                why = "append at num_hb_objs++ after the capacity tests %s" % [show(f.branch_cond(t)) for t in dom] if dom else "append without a capacity test"
            elif idx.get("k") == "Ref" and idx.get("n") == "heart_beat_index":
                verdict, why = None, "heart_beat_index < num_hb_to_do <= num_hb_objs depends on the index compensation in set_heart_beat over enable/disable histories (not decided statically)"
            run.ob("C11-c", inst, verdict, "%s — %s" % (show(base), why), f.file, n.get("l"), f.name, what="heart_beats[] subscript in %s may leave the list: %s" % (f.name, why))
    # growth
    grow = [(b, i, n) for b, i, n in shb.calls() if n.get("fn") in ("realloc", "xrealloc") or "RESIZE" in (n.get("m") or ())]
    run.need(grow, "reallocation of heart_beats in set_heart_beat")
    gb, gi, gn = grow[0]
    def grows_capacity(n):
        if n.get("k") != "Asg" or strip(n["L"]).get("n") != "max_heart_beats":
            return False
        if n.get("op") == "+=":
            return (const_val(n["R"]) or 0) > 0
        r = strip(n["R"])
        if n.get("op") == "=" and r.get("k") == "Bin" and r.get("op") == "+":
            return any(strip(a).get("n") == "max_heart_beats" and (const_val(b_) or 0) > 0 for a, b_ in ((r["L"], r["R"]), (r["R"], r["L"])))
        return False
    incs = [(b, i, n) for b, i, n in shb.nodes() if grows_capacity(n)]
    okg = any(shb.point_dominates((b.id, i), (gb.id, gi)) for b, i, n in incs) and "max_heart_beats" in show(gn)
    run.ob("C11-c", "hb-growth", okg, "`%s` dominates `%s`" % (show(incs[0][2]) if incs else "?", show(gn)[:70]) if okg else "the list is 'grown' to an unchanged capacity",
           shb.file, gn.get("l"), "set_heart_beat", what="set_heart_beat reallocates heart_beats[] without increasing its capacity")

    round_init(run, prog, "C11-e")

    # ---- C11-f the flag and the table say the same
    run.rule("C11-f", "O_HEART_BEAT mirrors membership in heart_beats[]: query_heart_beat() and clone_object() read the bit instead of searching the table, and set_heart_beat() may rely on it too; so the bit is written only inside set_heart_beat(), `|=` on the path that appended the entry and `&= ~` on the path that removed it. A store of the bit anywhere else makes the table and the flag disagree (an entry nobody can remove, an object entered twice)", 2)
    nfw = 0
    for f in sorted(prog.functions(), key=lambda x: (x.file, x.line)):
        for b, i, n in f.nodes():
            if n.get("k") != "Asg" or strip(n["L"]).get("k") != "Mem" or strip(n["L"]).get("f") != "flags" or "object" not in (strip(n["L"]).get("rec") or ""):
                continue
            if not facts.any_in_macro(n["R"], "O_HEART_BEAT"):
                continue
            nfw += 1
            run.saw(f)
            import helpers
            inside = f.name == "set_heart_beat" or bool(helpers.owners(prog, f.name, {"set_heart_beat"}))
            ok = inside
            why = "%s in set_heart_beat()%s" % (show(n)[:50], "" if f.name == "set_heart_beat" else " (its file-local half %s())" % f.name)
            if inside:
                # next to the table update: the append store (heart_beats[..] / ->ob =) or the removal (num_hb_objs--) dominates or is in the same block
                upd = [(b2.id, i2) for b2, i2, n2 in f.nodes() if (n2.get("k") == "Un" and n2.get("op") in ("--", "++") and strip(n2["e"]).get("n") == "num_hb_objs")]
                near = any(f.point_dominates(p, (b.id, i)) and (p[0] == b.id or f.dominates(p[0], b.id)) for p in upd)
                ok = near
                why += ": after the table was updated (num_hb_objs changed on this path)" if near else ": not on a path that updated the table"
            else:
                why = "%s() writes the heart-beat bit (`%s`, line %s) without touching heart_beats[]" % (f.name, show(n)[:50], n.get("l"))
            run.ob("C11-f", "flag-writer:%s:%s" % (f.name, n.get("op")), ok, why, f.file, n.get("l"), f.name,
                   what="%s - the flag and the heart-beat table disagree afterwards: a later set_heart_beat()/query_heart_beat() that trusts the bit leaves a stale entry or appends a second one" % why)
    run.need(nfw >= 2, "stores of O_HEART_BEAT into object flags (found %d)" % nfw)

    # ---- C11-g a round that is run outside the main loop is run once
    run.rule("C11-g", "a function that arms a recovery point with setjmp() and runs a heart-beat round in the code between the setjmp() and its main loop re-enters that code after every uncaught error: the round is under a once-flag that is set BEFORE the round is called (a heart_beat that raises jumps back to the setjmp; a flag set after the call is still clear then, and the objects in front of the failing one get a second heart_beat in the same tick)", 1)
    ng = 0
    for f in sorted(prog.functions(), key=lambda x: (x.file, x.line)):
        if not any(n.get("fn") in ("setjmp", "_setjmp", "__sigsetjmp", "sigsetjmp") for b, i, n in f.calls()):
            continue
        # with file-local helpers spliced in: the start-up steps may sit in a helper that is handed the flags
        f = prog.funci(f.name) or f
        sj = [(b, i, n) for b, i, n in f.calls() if n.get("fn") in ("setjmp", "_setjmp", "__sigsetjmp", "sigsetjmp")]
        rounds = [(b, i, n) for b, i, n in f.calls("call_heart_beat")]
        if not sj or not rounds:
            continue
        sjb = sj[0][0]
        heads = [bid for bid in f.reachable() if any(f.dominates(bid, p) for p in f.blocks[bid].preds) and f.dominates(sjb.id, bid)]
        outer = [h for h in heads if all(f.dominates(h, o) for o in heads)]
        # several loops one after the other (a spliced helper may bring its own): the main loop is the largest one
        head = outer[0] if outer else (max(heads, key=lambda h: sum(1 for x in f.reachable() if f.dominates(h, x) and h in cfgq.reach_set(f, [x]))) if heads else None)
        region = cfgq.reach_set(f, sjb.live_succ(), avoid_blocks=[head] if head is not None else [])
        for j, (b, i, n) in enumerate(rounds):
            if b.id not in region:
                continue
            ng += 1
            run.saw(f)
            once, late = False, None
            for c, truth, B in cfgq.guards(f, b.id):
                e = _flag_clear(c, truth)
                if e is not None and e.get("d") in ("local", "slocal", "static"):
                    for b2, i2, n2 in f.nodes():
                        if n2.get("k") == "Asg" and strip(n2["L"]).get("k") == "Ref" and strip(n2["L"]).get("n") == e.get("n") and strip(n2["L"]).get("id") == e.get("id") and const_val(n2["R"]) not in (None, 0):
                            if f.point_dominates((b2.id, i2), (b.id, i)) and f.dominates(B, b2.id):
                                once = True
                            else:
                                late = (e.get("n"), n2.get("l"))
            run.ob("C11-g", "once:%s:%d" % (f.name, j), once, "call_heart_beat() at line %s runs under a flag that is set before the call" % n.get("l") if once else
                   ("call_heart_beat() at line %s is re-entered after an uncaught error in a heart_beat: `%s` is set at line %s, after the call, so it is still clear when the error jumps back to the setjmp() - the round starts again in the same tick" % (n.get("l"), late[0], late[1]) if late else
                    "call_heart_beat() at line %s lies between setjmp() and the main loop without a once-flag: it is run again after every uncaught error" % n.get("l")),
                   f.file, n.get("l"), f.name, what="%s runs a heart-beat round again after an uncaught error" % f.name)
    run.need(ng >= 1, "heart-beat rounds in code re-entered after a recovery point (found %d)" % ng)
