"""C12 — buffered commands are served fairly (structural clauses; schedules are not decided).

C12-a  backend(): the turn-granting loop visits every slot below max_users from 0 and runs, in every
       iteration of the main loop, before the command loop
C12-b  get_user_command(): the turn is consumed and the user selected only when a complete command
       exists and the turn is held; a user without a turn keeps its command; the scan visits
       max_users slots
C12-c  who may write / read the HAS_CMD_TURN bit: grant (backend), consume (get_user_command),
       connection set-up; command() issued by LPC never consults it"""
import facts
import cfgq
from core import rel
from facts import strip, show, walk, const_val, normalize_cond, atom_of


def mentions(e, macro):
    return facts.any_in_macro(e, macro)


def _grown_local(f, r, store):
    """r is a local with the single definition `max_users + K` (K > 0), and every other store to max_users in f is a
    `max_users++` under the test `max_users < r`"""
    defs = [n2["R"] for b2, i2, n2 in f.nodes() if n2.get("k") == "Asg" and strip(n2["L"]).get("k") == "Ref" and strip(n2["L"]).get("id") == r.get("id")]
    defs += [v["init"] for b2, i2, n2 in f.nodes() if n2.get("k") == "Decl" for v in n2.get("vars", ()) if v.get("id") == r.get("id") and isinstance(v.get("init"), dict)]
    if len(defs) != 1:
        return False
    d = strip(defs[0])
    if not (d.get("k") == "Bin" and d.get("op") == "+" and any(strip(a).get("n") == "max_users" and (const_val(b_) or 0) > 0 for a, b_ in ((d["L"], d["R"]), (d["R"], d["L"])))):
        return False
    for b2, i2, n2 in f.nodes():
        if n2 is store:
            continue
        tgt = None
        if n2.get("k") == "Asg":
            tgt = strip(n2["L"])
        elif n2.get("k") == "Un" and n2.get("op") in ("++", "--"):
            tgt = strip(n2["e"])
        if tgt is None or tgt.get("k") != "Ref" or tgt.get("n") != "max_users":
            continue
        if not (n2.get("k") == "Un" and n2.get("op") == "++"):
            return False
        g = [atom_of(c, t) for c, t, B in cfgq.guards(f, b2.id)]
        if not any(op == "<" and strip(l).get("n") == "max_users" and strip(rr).get("id") == r.get("id") for op, l, rr in g):
            return False
    return True


def check(run, prog, tier):
    run.rule("C12-a", "backend(): grant loop `for (i = 0; i < max_users; i++) if (all_users[i]) iflags |= HAS_CMD_TURN` dominates the command loop inside the main loop", 2)
    run.rule("C12-b", "get_user_command(): consume + select are guarded by (complete command) and (turn held); the no-turn branch neither consumes input nor the turn; the scan is bounded by max_users", 3)
    run.rule("C12-d", "process_user_command returns 0 only when get_user_command found nothing: every return reachable after a command was taken is non-zero", 1)
    run.rule("C12-c", "HAS_CMD_TURN is set only by the grant loop and cleared only by get_user_command; only get_user_command reads it", 2)

    import rules.scanfns as scanfns
    SCANNERS, TAKERS = scanfns.find(prog.unit("src/comm.c"))
    run.need(SCANNERS and TAKERS, "buffer scan functions of src/comm.c (the complete-command test and the function that takes the first command)")
    run.note("buffer scan functions by role: scanners %s, takers %s" % (sorted(SCANNERS), sorted(TAKERS)))
    be = run.need(prog.funci("backend"), "backend")
    guc = run.need(prog.funci("get_user_command", "src/comm.c"), "get_user_command")
    run.saw(be)
    run.saw(guc)

    # ---- C12-a
    grants = [(b, i, n) for b, i, n in be.nodes() if n.get("k") == "Asg" and n.get("op") == "|=" and mentions(n["R"], "HAS_CMD_TURN")]
    run.need(grants, "grant store in backend")
    gb, gi, gn = grants[0]
    g = [atom_of(c, t) + (B,) for c, t, B in cfgq.guards(be, gb.id)]
    loop = [(op, l, r, B) for op, l, r, B in g if op == "<" and strip(r).get("n") == "max_users" and strip(l).get("k") == "Ref"]
    ok = bool(loop)
    why = "grant store is not inside a loop bounded by max_users"
    if ok:
        ivar = strip(loop[0][1])
        B = loop[0][3]
        # i starts at 0 before the loop and is only incremented by one
        inits = [n for b, i, n in be.nodes() if n.get("k") == "Asg" and n.get("op") == "=" and strip(n["L"]).get("id") == ivar.get("id") and const_val(n["R"]) == 0
                 and be.dominates(b.id, B)]
        steps = [n for b, i, n in be.nodes() if n.get("k") == "Un" and n.get("op") == "++" and strip(n["e"]).get("id") == ivar.get("id") and B in cfgq.reach_set(be, [b.id])
                 and b.id in cfgq.reach_set(be, [gb.id])]
        # the only other guard between the loop test and the store is the slot being occupied
        extra = [(op, show(l)) for op, l, r, B2 in g if be.dominates(B, B2) and B2 != B]
        # the slot itself, or a local that was just loaded from it (interactive_t *user = all_users[i])
        slot_alias = {strip(n2["L"]).get("id") for b2, i2, n2 in be.nodes() if n2.get("k") == "Asg" and n2.get("op") == "=" and strip(n2["L"]).get("k") == "Ref" and strip(n2["R"]).get("k") == "Sub" and strip(strip(n2["R"])["b"]).get("n") == "all_users"}
        slot_alias |= {v.get("id") for b2, i2, n2 in be.nodes() if n2.get("k") == "Decl" for v in n2.get("vars", ()) if isinstance(v.get("init"), dict) and strip(v["init"]).get("k") == "Sub" and strip(strip(v["init"])["b"]).get("n") == "all_users"}
        slot_alias.discard(None)

        def is_slot(l):
            l = strip(l)
            return (l.get("k") == "Sub" and strip(l["b"]).get("n") == "all_users") or (l.get("k") == "Ref" and l.get("id") in slot_alias)
        slot_only = all(op == "true" and is_slot(l) for op, l, r, B2 in g if be.dominates(B, B2) and B2 != B)
        ok = bool(inits) and bool(steps) and slot_only
        why = "i = 0 (%s); i++ (%s); store guarded only by the slot being occupied (%s)" % (bool(inits), bool(steps), extra)
        cmds = [(b, i, n) for b, i, n in be.calls("process_user_command")]
        run.need(cmds, "process_user_command call in backend")
        # main loop head
        heads = [bid for bid in be.reachable() if any(p in be.reachable() and be.dominates(bid, p) for p in be.blocks[bid].preds)]
        main = [h for h in heads if all(be.dominates(h, o) for o in heads)]
        # every path from the main loop head to the command call passes the grant loop's exit (test false edge)
        exit_edge = be.blocks[B].succ[1]
        p = be.reach_avoiding([main[0]] if main else [be.entry], lambda blk, t=cmds[0][0].id: blk.id == t, avoid_blocks=[B])
        run.ob("C12-a", "grant-before-commands", p is None, "every path from the main loop head to process_user_command() passes the grant loop" if p is None else "path %s reaches the command loop without granting turns" % p,
               be.file, cmds[0][2].get("l"), "backend", what="backend(): commands are processed in an iteration that did not grant turns first")
    run.ob("C12-a", "grant-loop", ok, why, be.file, gn.get("l"), "backend", what="backend(): the grant loop does not give every connected user a turn: " + why)

    # ---- C12-b
    consume = [(b, i, n) for b, i, n in guc.nodes() if n.get("k") == "Asg" and n.get("op") == "&=" and mentions(n["R"], "HAS_CMD_TURN")]
    run.need(consume, "turn consumption in get_user_command")
    cb, ci, cn = consume[0]
    # guards with leading negations folded: `!user_command` false is `user_command` true
    g = [normalize_cond(c, t) for c, t, B in cfgq.guards(guc, cb.id)]
    has_cmd = any(t and strip(c).get("k") == "Ref" and strip(c).get("n") == "user_command" for c, t in g)
    has_turn = any(t and mentions(c, "HAS_CMD_TURN") for c, t in g)
    in_buf = any(t and mentions(c, "CMD_IN_BUF") for c, t in g)
    # user_command comes from first_cmd_in_buf
    from_first = any(n.get("k") == "Asg" and strip(n["L"]).get("n") == "user_command" and strip(n["R"]).get("fn") in TAKERS and guc.dominates(b.id, cb.id) for b, i, n in guc.nodes())
    run.ob("C12-b", "consume-guard", has_cmd and has_turn and from_first, "consume under: complete command (%s, from first_cmd_in_buf %s), turn held (%s), CMD_IN_BUF (%s)" % (has_cmd, from_first, has_turn, in_buf),
           guc.file, cn.get("l"), "get_user_command", what="get_user_command consumes a turn without a complete command and a held turn")
    # the no-turn edge: from the false edge of the HAS_CMD_TURN test, the next loop iteration is reached without next_cmd_in_buf / clearing CMD_IN_BUF / consuming
    tblocks = [B for c, t, B in cfgq.guards(guc, cb.id) if mentions(c, "HAS_CMD_TURN")]
    okskip = False
    whys = "no turn test"
    if tblocks:
        T = tblocks[0]
        # the edge on which the turn bit is clear (whichever way round the test is written)
        s_false = guc.blocks[T].succ[1] if normalize_cond(guc.branch_cond(T), True)[1] else guc.blocks[T].succ[0]
        # blocks reachable from the false edge before coming back to the loop head (the for-condition block)
        heads = [bid for bid in guc.reachable() if any(p in guc.reachable() and guc.dominates(bid, p) for p in guc.blocks[bid].preds)]
        region = cfgq.reach_set(guc, [s_false], avoid_blocks=heads)
        bad = []
        for b, i, n in guc.nodes():
            if b.id not in region:
                continue
            if n.get("k") == "Call" and n.get("fn") in ("next_cmd_in_buf", "telnet_neg"):
                bad.append(show(n))
            if n.get("k") == "Asg" and n.get("op") == "&=" and (mentions(n["R"], "HAS_CMD_TURN") or mentions(n["R"], "CMD_IN_BUF")):
                bad.append(show(n))
            if n.get("k") == "Return" and "e" in n and const_val(n["e"]) != 0:
                bad.append("returns a command")
        resets = any(n.get("k") == "Asg" and strip(n["L"]).get("n") == "user_command" and const_val(n["R"]) == 0 and b.id in region for b, i, n in guc.nodes())
        okskip = not bad and resets
        whys = "no-turn edge: user_command reset (%s), nothing consumed (%s)" % (resets, bad or "ok")
    run.ob("C12-b", "skip-keeps-command", okskip, whys, guc.file, cn.get("l"), "get_user_command", what="a user without a turn loses its buffered command or turn: " + whys)
    # scan bound
    lg = [atom_of(c, t) for c, t, B in cfgq.guards(guc, cb.id)]
    bounded = any(op == "<" and strip(r).get("n") == "max_users" for op, l, r in lg)
    run.ob("C12-b", "scan-bound", bounded, "the scan loop is bounded by max_users" if bounded else "scan loop not bounded by max_users", guc.file, guc.line, "get_user_command",
           what="get_user_command does not visit every connection slot once")

    # ---- C12-d: process_user_command's result drives the backend's command loop
    puc = run.need(prog.funci("process_user_command", "src/comm.c"), "process_user_command")
    run.saw(puc)
    gtest = [bid for bid in puc.reachable() if puc.branch_cond(bid) is not None and any(x.get("k") == "Call" and x.get("fn") == "get_user_command" for x in walk(puc.branch_cond(bid)))]
    run.need(gtest, "get_user_command test in process_user_command")
    G = gtest[0]
    e0, t0 = normalize_cond(puc.branch_cond(G), True)
    taken = puc.blocks[G].succ[0] if t0 else puc.blocks[G].succ[1]   # edge on which a command was obtained
    region = cfgq.reach_set(puc, [taken])
    bad = []
    nret = 0
    for b, i, e in puc.elements():
        if e.get("k") != "Return" or "e" not in e or b.id not in region:
            continue
        # is this return reachable from the 'command taken' edge?
        nret += 1
        v = strip(e["e"])
        cv = const_val(v)
        if cv is not None:
            if cv == 0:
                # reachable with a command taken?  (the shared 'no command' exit is also in the region if code falls through)
                p = puc.reach_avoiding([taken], lambda blk, bb=b.id: blk.id == bb)
                if p is not None:
                    bad.append("line %s returns 0 after a command was taken (path %s)" % (e.get("l"), p[:8]))
        elif v.get("k") == "Ref" and v.get("d") in ("local", "slocal"):
            nz = [b2.id for b2, i2, n2 in puc.nodes() if n2.get("k") == "Asg" and strip(n2["L"]).get("id") == v.get("id") and const_val(n2["R"]) not in (None, 0)]
            p = puc.reach_avoiding([taken], lambda blk, bb=b.id: blk.id == bb, avoid_blocks=nz)
            if p is not None:
                bad.append("line %s returns %s, still 0 on path %s after a command was taken" % (e.get("l"), v.get("n"), p[:8]))
        else:
            bad.append("line %s returns a non-constant %s" % (e.get("l"), show(v)))
    run.ob("C12-d", "served-means-nonzero", not bad, "all %d returns reachable after a command was taken yield non-zero (the backend loop continues with the next user)" % nret if not bad else "; ".join(bad[:3]),
           puc.file, puc.line, "process_user_command",
           what="process_user_command reports 'no more commands' although it took one (e.g. when the user quit): the backend stops serving the remaining users in that cycle")

    # ---- C12-c
    setters, clearers, readers = set(), set(), set()
    TURN_BIT = None
    for f in prog.functions():
        for b, i, n in f.nodes():
            if n.get("k") == "Asg" and n.get("op") == "&=" and strip(n["L"]).get("f") == "iflags" and mentions(n["R"], "HAS_CMD_TURN") and const_val(n["R"]) is not None and const_val(n["R"]) < 0:
                v = ~const_val(n["R"]) & 0xFFFFFFFF
                if v and v & (v - 1) == 0:
                    TURN_BIT = v
    for f in prog.functions():
        for b, i, e in f.elements():
            for n in walk(e, True):
                if n.get("k") == "Asg" and n.get("op") == "&=" and const_val(n["R"]) is not None and const_val(n["R"]) >= 0 and strip(n["L"]).get("f") == "iflags":
                    # a keep-mask: clears the bit exactly when it does not list it
                    if TURN_BIT is not None and not (const_val(n["R"]) & TURN_BIT):
                        clearers.add(f.name)
                elif n.get("k") == "Asg" and mentions(n["R"], "HAS_CMD_TURN"):
                    (setters if n.get("op") == "|=" else clearers).add(f.name)
                elif n.get("k") == "Bin" and n.get("op") == "&" and mentions(n["R"], "HAS_CMD_TURN") and "~" not in show(n["R"]):
                    readers.add(f.name)
    import helpers
    setters = helpers.fold(prog, setters, {"backend"})
    clearers = helpers.fold(prog, clearers, {"get_user_command"})
    readers = helpers.fold(prog, readers, {"get_user_command", "backend"})
    run.ob("C12-c", "bit-writers", setters == {"backend"} and clearers == {"get_user_command"}, "set by %s, cleared by %s" % (sorted(setters), sorted(clearers)), be.file, None, None,
           what="HAS_CMD_TURN set by %s / cleared by %s" % (sorted(setters), sorted(clearers)))
    run.ob("C12-c", "bit-readers", readers <= {"get_user_command"}, "read by %s (command() issued from LPC goes through process_command and never consults the turn)" % sorted(readers), guc.file, None, None,
           what="HAS_CMD_TURN consulted outside get_user_command: %s" % sorted(readers))

    # ---- C12-e the round-robin cursor moves past the served user before the command can run
    run.rule("C12-e", "get_user_command(): on every path from the consumption of a turn to its return the scan cursor (the variable indexing all_users in the scan) is advanced inside get_user_command itself, i.e. before the command runs and can leave by longjmp; skipped slots advance it too", 2)
    subs = [(b, i, n) for b, i, n in guc.nodes() if n.get("k") == "Sub" and strip(n["b"]).get("n") == "all_users" and strip(n["i"]).get("k") == "Ref" and strip(n["i"]).get("d") in ("slocal", "static", "global")]
    run.need(subs, "all_users[<cursor>] in get_user_command")
    cur = strip(subs[0][2]["i"]).get("n")
    # direct stores, and calls of functions that store the cursor
    writers = {f.name for f in prog.functions() for b, i, n in f.nodes()
               if ((n.get("k") == "Asg" and strip(n["L"]).get("n") == cur) or (n.get("k") == "Un" and n.get("op") in ("++", "--") and strip(n["e"]).get("n") == cur))
               and strip(n["L"] if n.get("k") == "Asg" else n["e"]).get("d") in ("slocal", "static", "global")}
    upd = set()
    for b, i, n in guc.nodes():
        if (n.get("k") == "Asg" and strip(n["L"]).get("n") == cur) or (n.get("k") == "Un" and n.get("op") in ("++", "--") and strip(n["e"]).get("n") == cur):
            upd.add(b.id)
        if n.get("k") == "Call" and n.get("fn") in writers - {"get_user_command"}:
            upd.add(b.id)
    retcmd = {b.id for b, i, n in guc.nodes() if n.get("k") == "Return" and n.get("e") is not None and const_val(n["e"]) != 0}
    # a return taken because the served user's connection is gone (`!IP_VALID (ip, ob)`: ob->interactive != ip) hands
    # back nothing to execute, and the slot the cursor stands on is empty: where the cursor stays does not matter
    from stale import implied_atoms as _ia

    def gone_guard(f2, c, t):
        for a, tr in _ia(c, t):
            op, l, r = atom_of(a, tr)
            if op == "!=" and r is not None and (any(x.get("k") == "Mem" and x.get("f") == "interactive" for x in walk(l)) or any(x.get("k") == "Mem" and x.get("f") == "interactive" for x in walk(r))):
                return True
        e0, t0 = normalize_cond(c, t)
        return (not t0) and (facts.any_in_macro(e0, "IP_VALID") or facts.any_in_macro(c, "IP_VALID"))
    # file-local predicates that answer 0 exactly when the user's connection is gone
    gone_preds = set()
    for h in prog.unit("src/comm.c").funcs.values():
        h = getattr(h, "plain", h)
        if not h.static or h.rt != "int":
            continue
        rets = [(b2, e) for b2, i2, e in h.elements() if e.get("k") == "Return" and "e" in e]
        zero = [b2 for b2, e in rets if const_val(e["e"]) == 0]
        if zero and all(const_val(e["e"]) is not None for b2, e in rets) and all(any(gone_guard(h, c, t) for c, t, B in cfgq.guards(h, b2.id)) for b2 in zero):
            gone_preds.add(h.name)

    def user_gone(bid):
        # `!ob || ob->interactive != ip`: the block is entered from the true edge of either disjunct
        preds = [p for p in guc.blocks[bid].preds if p in guc.reachable()]
        if len(preds) >= 2:
            kinds = []
            for p in preds:
                c = guc.branch_cond(p)
                if c is None:
                    kinds.append(None)
                    continue
                idx = 0 if guc.blocks[p].succ[0] == bid else 1
                op, l, r = atom_of(c, idx == 0)
                l0 = strip(l) if l is not None else {}
                if op == "!=" and r is not None and (any(x.get("k") == "Mem" and x.get("f") == "interactive" for x in walk(l)) or any(x.get("k") == "Mem" and x.get("f") == "interactive" for x in walk(r))):
                    kinds.append("gone")
                elif (op == "false" or (op == "==" and r is not None and const_val(r) == 0)) and "object" in (l0.get("t") or ""):
                    kinds.append("null-ob")
                else:
                    kinds.append(None)
            if all(kinds) and "gone" in kinds:
                return True
        for c, t, B in cfgq.guards(guc, bid):
            e1, t1 = normalize_cond(c, t)
            if (not t1) and strip(e1).get("k") == "Call" and strip(e1).get("fn") in gone_preds:
                return True
            disj = []
            # !(a && b) does not decompose; look for the disjunct form too: ob->interactive != ip || ...
            for a, tr in _ia(c, t):
                op, l, r = atom_of(a, tr)
                if op == "!=" and r is not None and any(x.get("k") == "Mem" and x.get("f") == "interactive" for x in walk(l)) or (op == "!=" and r is not None and any(x.get("k") == "Mem" and x.get("f") == "interactive" for x in walk(r))):
                    return True
            e0, t0 = normalize_cond(c, t)
            if not t0 and (facts.any_in_macro(e0, "IP_VALID") or facts.any_in_macro(c, "IP_VALID")):
                return True
        return False
    retcmd = {x for x in retcmd if not user_gone(x)}
    run.need(retcmd, "return of a command in get_user_command")
    p = guc.reach_avoiding([cb.id], lambda blk: blk.id in retcmd, avoid_blocks=upd - {cb.id}) if cb.id not in upd else None
    run.ob("C12-e", "advance-after-pick", p is None, "cursor `%s`: every path from the turn consumption to the return passes an advance (blocks %s)" % (cur, sorted(upd)) if p is None else "path %s returns the picked command with the cursor `%s` still on the served user: if the command raises an error the next scan starts with the same user again" % (p[:8], cur),
           guc.file, cn.get("l"), "get_user_command", what="get_user_command returns a command without having advanced the round-robin cursor %s; an erroring command lets the same user be served first again (starvation of later users)" % cur)
    others = sorted(writers - {"get_user_command"} - {w for w in writers if any(n.get("fn") == w for b, i, n in guc.calls())})
    run.ob("C12-e", "cursor-writers", not others, "the cursor %s is written only by get_user_command (and helpers it calls): %s" % (cur, sorted(writers)), guc.file, guc.line, "get_user_command",
           what="the round-robin cursor is also moved by %s" % others)

    # ---- C12-f a complete buffered command is never un-announced
    run.rule("C12-f", "CMD_IN_BUF is cleared only on the word of the buffer scan: every store that removes the bit is on the no-command edge of cmd_in_buf()/first_cmd_in_buf(); otherwise a user whose complete line is still buffered is skipped every cycle until new data arrives", 2)
    ncl = 0
    # the value of the bit, read off a store that clears it by name (`&= ~CMD_IN_BUF`)
    CMD_BIT = None
    for f in prog.functions():
        for b, i, n in f.nodes():
            if n.get("k") == "Asg" and n.get("op") == "&=" and strip(n["L"]).get("f") == "iflags" and mentions(n["R"], "CMD_IN_BUF") and const_val(n["R"]) is not None and const_val(n["R"]) < 0:
                v = ~const_val(n["R"]) & 0xFFFFFFFF
                if v and v & (v - 1) == 0:
                    CMD_BIT = v
    for f in sorted(prog.functions(), key=lambda x: (x.file, x.line)):
        clears = [(b, i, n) for b, i, n in f.nodes() if n.get("k") == "Asg" and n.get("op") == "&=" and mentions(n["R"], "CMD_IN_BUF") and strip(n["L"]).get("f") == "iflags"
                  and not (const_val(n["R"]) is not None and CMD_BIT is not None and (const_val(n["R"]) & CMD_BIT))]
        # ... and a keep-mask that does not list the bit clears it just the same (`iflags &= (A | B | C)`)
        clears += [(b, i, n) for b, i, n in f.nodes() if n.get("k") == "Asg" and n.get("op") == "&=" and strip(n["L"]).get("f") == "iflags" and not mentions(n["R"], "CMD_IN_BUF")
                   and const_val(n["R"]) is not None and const_val(n["R"]) >= 0 and CMD_BIT is not None and not (const_val(n["R"]) & CMD_BIT)]
        clears += [(b, i, n) for b, i, n in f.nodes() if n.get("k") == "Asg" and n.get("op") == "=" and strip(n["L"]).get("f") == "iflags" and strip(n["R"]).get("k") == "Bin" and strip(n["R"]).get("op") == "&"
                   and any(y.get("k") == "Mem" and y.get("f") == "iflags" for y in walk(n["R"])) and CMD_BIT is not None
                   and any(const_val(z) is not None and const_val(z) >= 0 and not (const_val(z) & CMD_BIT) for z in (strip(n["R"])["L"], strip(n["R"])["R"]))]
        for j, (b, i, n) in enumerate(sorted(clears, key=lambda x: x[2].get("l") or 0)):
            ncl += 1
            run.saw(f)
            ok = False
            for c, t, B in cfgq.guards(f, b.id):
                c0, t = normalize_cond(c, t)
                c0 = strip(c0)
                if not t and c0.get("k") == "Call" and c0.get("fn") in (SCANNERS | TAKERS):
                    ok = True
                if not t and c0.get("k") == "Ref" and any(n2.get("k") == "Asg" and strip(n2["L"]).get("id") == c0.get("id") and strip(n2["R"]).get("k") == "Call" and strip(n2["R"]).get("fn") in ("first_cmd_in_buf", "cmd_in_buf") for b2, i2, n2 in f.nodes()):
                    ok = True
            run.ob("C12-f", "cmd-flag-clear:%s:%s:%d" % (rel(f.file), f.name, j), ok, "CMD_IN_BUF cleared at line %s %s" % (n.get("l"), "because the buffer scan found no complete command" if ok else "without consulting cmd_in_buf()/first_cmd_in_buf(): typed-ahead complete lines stay in the buffer unannounced"),
                   f.file, n.get("l"), f.name, what="%s clears CMD_IN_BUF without the buffer scan: a user with a complete command waiting is no longer served" % f.name)
    run.need(ncl >= 2, "stores clearing CMD_IN_BUF (found %d)" % ncl)

    # ---- C12-g nothing but the driver's own constants reaches the flag word that holds the turn
    run.rule("C12-g", "interactive_t.iflags holds the turn bit (HAS_CMD_TURN) and the command-available bit (CMD_IN_BUF) next to bits that LPC code chooses (input_to()/get_char() flags): every `|=` / `=` into iflags takes a constant, or a value cut down by `& CONSTANT` with a constant that contains neither of the two bits - at the store or, for a parameter, at every call site; a raw integer from LPC would hand its user the turn back in the same cycle", 10)
    cmask = 0
    for f0 in prog.functions():
        for b, i, n in f0.nodes():
            if n.get("k") == "Asg" and strip(n["L"]).get("k") == "Mem" and strip(n["L"]).get("f") == "iflags" and const_val(n["R"]) is not None:
                for mname in ("HAS_CMD_TURN", "CMD_IN_BUF"):
                    if facts.any_in_macro(n["R"], mname) and n.get("op") == "|=":
                        cmask |= const_val(n["R"])
    run.need(cmask, "values of HAS_CMD_TURN / CMD_IN_BUF (from their own stores)")
    byname = {}
    for f0 in prog.functions():
        byname.setdefault(f0.name, []).append(f0)

    def cut(f0, e, depth=0):
        """None if the value is a constant or is cut down by a constant mask without the turn bits; else a reason"""
        e0 = strip(e)
        if const_val(e0) is not None:
            return None
        if e0.get("k") == "Bin" and e0.get("op") == "&":
            for a, b2 in ((e0["L"], e0["R"]), (e0["R"], e0["L"])):
                c = const_val(b2)
                if c is not None:
                    return None if not (c & cmask) else "mask 0x%x lets the turn bits through" % c
            return cut(f0, e0["L"], depth + 1) and cut(f0, e0["R"], depth + 1)
        if e0.get("k") == "Bin" and e0.get("op") == "|":
            return cut(f0, e0["L"], depth + 1) or cut(f0, e0["R"], depth + 1)
        if e0.get("k") == "Un" and e0.get("op") == "~":
            return "complement of a value"
        if e0.get("k") == "Cond":
            return cut(f0, e0["a"], depth + 1) or cut(f0, e0["b"], depth + 1)
        if e0.get("k") == "Ref" and e0.get("d") == "param" and depth < 3:
            sites = [(g, c) for gs in byname.values() for g in gs for b2, i2, c in g.calls(f0.name)]
            if not sites:
                return "parameter `%s` of %s() (no call site in the driver)" % (e0.get("n"), f0.name)
            for g, c in sites:
                args = c.get("args", [])
                if e0.get("pi") is None or e0["pi"] >= len(args):
                    return "parameter `%s`" % e0.get("n")
                why = cut(g, args[e0["pi"]], depth + 1)
                if why:
                    return "%s() line %s passes `%s` for `%s`: %s" % (g.name, c.get("l"), show(args[e0["pi"]])[:40], e0.get("n"), why)
            return None
        if e0.get("k") == "Ref" and e0.get("d") == "local" and depth < 3:
            defs = [n2["R"] for b2, i2, n2 in f0.nodes() if n2.get("k") == "Asg" and n2.get("op") == "=" and strip(n2["L"]).get("id") == e0.get("id")]
            defs += [v["init"] for b2, i2, n2 in f0.nodes() if n2.get("k") == "Decl" for v in n2.get("vars", ()) if v.get("id") == e0.get("id") and isinstance(v.get("init"), dict)]
            if not defs:
                return "`%s` has no visible definition" % e0.get("n")
            for d in defs:
                why = cut(f0, d, depth + 1)
                if why:
                    return why
            return None
        return "`%s` is not a constant and not masked" % show(e0)[:40]
    ng = 0
    for f0 in sorted(prog.functions(), key=lambda x: (x.file, x.line)):
        k = 0
        for b, i, n in f0.nodes():
            if n.get("k") != "Asg" or n.get("op") not in ("|=", "=") or strip(n["L"]).get("k") != "Mem" or strip(n["L"]).get("f") != "iflags" or "interactive" not in (strip(n["L"]).get("rec") or ""):
                continue
            ng += 1
            run.saw(f0)
            why = cut(f0, n["R"])
            run.ob("C12-g", "iflags-store:%s:%d" % (f0.name, k), why is None, "`%s`: a constant or a masked value" % show(n)[:60] if why is None else "`%s` (line %s): %s" % (show(n)[:50], n.get("l"), why), f0.file, n.get("l"), f0.name,
                   what="%s stores a value into iflags that is not cut down to the caller-settable bits: %s" % (f0.name, why))
            k += 1
    run.need(ng >= 10, "stores into iflags (found %d)" % ng)


    # ---- C12-h the scan bound never shrinks under the scan cursor
    run.rule("C12-h", "get_user_command() keeps its round-robin position in a static between calls and inspects max_users slots from there, wrapping only below 0: the bound max_users never decreases (no --/-=, and an assignment only under a test that the new value is larger), otherwise the cursor is left above the table and whole cycles look at empty slots while connected users wait", 1)
    nmu = 0
    for f0 in sorted(prog.functions(), key=lambda x: (x.file, x.line)):
        k = 0
        for b, i, n in f0.nodes():
            tgt = None
            if n.get("k") == "Asg":
                tgt = strip(n["L"])
            elif n.get("k") == "Un" and n.get("op") in ("++", "--"):
                tgt = strip(n["e"])
            if tgt is None or tgt.get("k") != "Ref" or tgt.get("n") != "max_users" or tgt.get("d") not in ("global", "static"):
                continue
            nmu += 1
            run.saw(f0)
            verdict, why = None, "`%s` (line %s) is not in a form this rule reads" % (show(n)[:50], n.get("l"))
            if n.get("k") == "Un":
                verdict = n.get("op") == "++"
                why = "`%s`" % show(n)
            elif n.get("op") == "+=":
                verdict = (const_val(n["R"]) or 0) > 0
                why = "`%s`: grows by a positive constant" % show(n)[:50]
            elif n.get("op") == "-=":
                verdict, why = False, "`%s`" % show(n)[:50]
            elif n.get("op") == "=":
                r = strip(n["R"])
                if r.get("k") == "Bin" and r.get("op") == "+" and any(strip(a).get("n") == "max_users" and (const_val(b_) or 0) > 0 for a, b_ in ((r["L"], r["R"]), (r["R"], r["L"]))):
                    verdict, why = True, "`%s`: grows by a positive constant" % show(n)[:50]
                elif const_val(r) is not None and any(op_ in ("false",) and strip(l_).get("n") == "all_users" for op_, l_, r_ in [atom_of(c, t) for c, t, B in cfgq.guards(f0, b.id)]):
                    verdict, why = True, "`%s` while the table does not exist yet (max_users is 0 there)" % show(n)[:40]
                elif r.get("k") == "Ref" and r.get("d") == "local" and _grown_local(f0, r, n):
                    verdict, why = True, "`%s`: %s is max_users plus a positive constant, and max_users only counts up to it in between" % (show(n)[:50], r.get("n"))
                else:
                    g = [atom_of(c, t) for c, t, B in cfgq.guards(f0, b.id)]
                    grows = any(op in (">", ">=") and show(strip(l)) == show(r) and strip(rr).get("n") == "max_users" for op, l, rr in g) or any(op in ("<", "<=") and strip(l).get("n") == "max_users" and show(strip(rr)) == show(r) for op, l, rr in g)
                    if grows:
                        verdict, why = True, "`%s` under a test that the new value is larger" % show(n)[:50]
            if verdict is False:
                why += " (line %s) lowers max_users: the cursor of get_user_command() can be left above the table" % n.get("l")
            run.ob("C12-h", "bound:%s:%d" % (f0.name, k), verdict, why, f0.file, n.get("l"), f0.name, what="%s lowers the scan bound max_users while get_user_command() keeps its position across calls" % f0.name)
            k += 1
    run.need(nmu >= 1, "stores to max_users (found %d)" % nmu)
