"""C13 — input framing: memory clauses (split-independence is not decided).

C13-a  fixed arrays of interactive_t indexed by a cursor field: the cursor's maximum (from the guards
       of all its increments and its constant assignments) must be a valid index at every use
C13-b  expansion-factor agreement: the largest number of bytes copy_chars can emit per input byte
       is <= the divisor used for the read budget in get_user_data, at every place it is computed;
       scratch buffers are as large as the connection's text buffer
C13-c  newly read bytes are appended at text_end (never written over unconsumed input)"""
import facts
import cfgq
from core import rel
from facts import strip, show, walk, const_val, normalize_cond, atom_of

IREC = ("interactive_s", "interactive_t")


def field_of(e, name=None):
    e = strip(e)
    if isinstance(e, dict) and e.get("k") == "Mem" and e.get("rec") in IREC and (name is None or e.get("f") == name):
        return e.get("f")
    return None


def max_stores_per_iteration(f, store_pred):
    """For each natural loop head H of f: the maximum number of matching stores on an acyclic walk of
    one iteration (inner cycles containing a store make it unbounded).  Returns {head: (count|None, line)}."""
    out = {}
    heads = [bid for bid in f.reachable() if any(f.dominates(bid, p) for p in f.blocks[bid].preds)]
    cnt = {}
    for bid in f.reachable():
        c = 0
        for e in f.blocks[bid].el:
            for n in walk(e, True):
                if store_pred(n):
                    c += 1
        cnt[bid] = c
    for H in heads:
        body = set()
        # natural loop: nodes that can reach a back-edge source without passing H
        backs = [p for p in f.blocks[H].preds if p in cnt and f.dominates(H, p)]
        st = list(backs)
        body.add(H)
        while st:
            x = st.pop()
            if x in body:
                continue
            body.add(x)
            st.extend(p for p in f.blocks[x].preds if p in cnt)
        if not any(cnt[b] for b in body):
            continue
        # longest path in body from H (excluded back edges to H); detect inner cycles with stores
        memo = {}
        onstack = set()
        unbounded = [False]

        def dfs(b):
            if b in memo:
                return memo[b]
            if b in onstack:
                return None  # inner cycle
            onstack.add(b)
            best = 0
            for s in f.blocks[b].live_succ():
                if s == H or s not in body:
                    continue
                r = dfs(s)
                if r is None:
                    # cycle: unbounded if any block on it stores; approximate: if any store in the SCC region
                    if any(cnt[x] for x in onstack):
                        pass
                    continue
                best = max(best, r)
            onstack.discard(b)
            memo[b] = best + cnt[b]
            return memo[b]
        total = dfs(H)
        # inner loops with stores
        inner = [h2 for h2 in heads if h2 != H and h2 in body]
        for h2 in inner:
            b2 = set()
            backs2 = [p for p in f.blocks[h2].preds if p in cnt and f.dominates(h2, p)]
            st2 = list(backs2)
            b2.add(h2)
            while st2:
                x = st2.pop()
                if x in b2:
                    continue
                b2.add(x)
                st2.extend(p for p in f.blocks[x].preds if p in cnt)
            if any(cnt[x] for x in b2):
                unbounded[0] = True
        out[H] = (None if unbounded[0] else total, f.line_of_block(H))
    return out


def check(run, prog, tier):
    run.rule("C13-a", "a cursor field that indexes a fixed array of interactive_t never exceeds the last valid index at any use: max over its writers (guarded increments, constants) is compared with the declared extent", 3)
    run.rule("C13-b", "copy_chars emits at most D bytes per input byte where D is the divisor of every telnet read budget in get_user_data; the post-discard budget and the scratch buffers fit the text buffer", 4)
    run.rule("C13-c", "get_user_data stores newly read bytes at text + text_end (append), not over unconsumed input", 2)

    comm = prog.unit("src/comm.c")
    funcs = [f for f in comm.funcs.values() if f.file.endswith("/comm.c")]
    recs = prog.records()
    irec = recs.get("interactive_s") or recs.get("interactive_t")
    run.need(irec, "struct interactive_s")
    ext = {fl["n"]: fl.get("ext") for fl in irec["fields"] if fl.get("ext")}

    # ---- C13-a
    # uses: ip->ARR[ ip->CUR ] / ip->ARR[ip->CUR++]
    uses = []
    for f in funcs:
        for b, i, n in f.nodes():
            if n.get("k") == "Sub":
                arr = field_of(n["b"])
                if arr and arr in ext:
                    idx = strip(n["i"])
                    post = False
                    if idx.get("k") == "Un" and idx.get("op") == "++" and idx.get("post"):
                        idx = strip(idx["e"])
                        post = True
                    cur = field_of(idx)
                    if cur:
                        uses.append((f, b, i, n, arr, cur, post))
    # `memset (ip->ARR + ip->CUR, 0, ..)` writes the terminator at ARR[CUR]: the same kind of use as a subscript
    for f in funcs:
        for b, i, n in f.calls():
            if n.get("fn") in ("memset", "__builtin_memset") and n.get("args"):
                a0 = strip(n["args"][0])
                if a0.get("k") == "Bin" and a0.get("op") == "+":
                    arr = field_of(a0["L"])
                    cur = field_of(a0["R"])
                    if arr and arr in ext and cur:
                        uses.append((f, b, i, n, arr, cur, False))
    cursors = sorted({u[5] for u in uses})
    run.need("sb_pos" in cursors, "sb_buf[sb_pos] uses")
    for cur in cursors:
        # writers of the cursor across the whole program
        bound = 0
        wdesc = []
        unknown = []
        for f in prog.functions():
            for b, i, n in f.nodes():
                tgt = None
                if n.get("k") == "Asg" and field_of(n["L"], cur):
                    cv = const_val(n["R"])
                    r0 = strip(n["R"])
                    if n.get("op") == "=" and cv is not None:
                        bound = max(bound, cv)
                        wdesc.append("%s: = %d" % (f.name, cv))
                    elif n.get("op") == "=" and r0.get("k") == "Bin" and r0.get("op") == "%" and (const_val(r0["R"]) or 0) > 0 and \
                            (strip(r0["L"]).get("t") or "").startswith("unsigned") is False and any(field_of(x, cur) for x in walk(r0["L"])):
                        # cur = (cur + k) % K with cur >= 0: the result is at most K - 1 (C's % keeps the sign of the left
                        # operand, and the left operand is built from the non-negative cursor and constants)
                        l0 = strip(r0["L"])
                        nonneg = l0.get("k") == "Bin" and l0.get("op") == "+" and (const_val(l0["R"]) or 0) >= 0 and field_of(l0["L"], cur)
                        if nonneg:
                            bound = max(bound, const_val(r0["R"]) - 1)
                            wdesc.append("%s:%s: %% %d" % (f.name, n.get("l"), const_val(r0["R"])))
                        else:
                            unknown.append("%s:%s: %s" % (f.name, n.get("l"), show(n)))
                    else:
                        unknown.append("%s:%s: %s" % (f.name, n.get("l"), show(n)))
                elif n.get("k") == "Un" and n.get("op") == "++" and field_of(n["e"], cur):
                    # guard: cur < K  (or the surviving edge of `cur >= K -> break`)
                    K = None
                    for c, t, B in cfgq.guards(f, b.id):
                        op, l, r = atom_of(c, t)
                        if op == "<" and field_of(l, cur) and const_val(r) is not None:
                            K = const_val(r) if K is None else min(K, const_val(r))
                        if op == "<=" and field_of(l, cur) and const_val(r) is not None:
                            K = const_val(r) + 1 if K is None else min(K, const_val(r) + 1)
                    if K is None:
                        unknown.append("%s:%s: unguarded %s" % (f.name, n.get("l"), show(n)))
                    else:
                        bound = max(bound, K)  # after the increment the cursor is at most K
                        wdesc.append("%s:%s: ++ under %s < %d" % (f.name, n.get("l"), cur, K))
                elif n.get("k") == "Un" and n.get("op") == "&" and field_of(n["e"], cur):
                    unknown.append("%s:%s: address taken" % (f.name, n.get("l")))
        for j, (f, b, i, n, arr, c2, post) in enumerate([u for u in uses if u[5] == cur]):
            run.saw(f)
            inst = "cursor:%s:%s[%s]:%d" % (f.name, arr, cur, j)
            # local guard at the use
            local = None
            for c, t, B in cfgq.guards(f, b.id):
                op, l, r = atom_of(c, t)
                if op == "<" and field_of(l, cur) and const_val(r) is not None:
                    local = const_val(r) - 1 if local is None else min(local, const_val(r) - 1)
            maxidx = local if local is not None else (None if unknown else bound)
            if maxidx is None:
                run.ob("C13-a", inst, None, "%s — cursor has writers the rule cannot bound: %s" % (show(n), unknown[:3]), f.file, n.get("l"), f.name)
            else:
                ok = maxidx <= ext[arr] - 1
                run.ob("C13-a", inst, ok, "%s — max index %d (%s), extent %d" % (show(n), maxidx, "guard at the use" if local is not None else "; ".join(wdesc), ext[arr]),
                       f.file, n.get("l"), f.name, what="%s: %s can be written at index %d of %d" % (f.name, arr, maxidx, ext[arr]))

    # ---- C13-b
    cc = run.need(comm.funcs.get("copy_chars"), "copy_chars")
    # copy_chars(from, to, count, ip): the parameters are identified by position, not by name
    _bytep = [p_ for p_ in (cc.params or []) if "char" in (p_.get("t") or "") and "*" in (p_.get("t") or "")]
    # the two byte pointers by role, wherever they stand in the parameter list: the one stored through is the output
    _written = {strip(strip(strip(n_["L"])["e"]).get("e") or strip(strip(n_["L"])["e"])).get("id") if strip(strip(n_["L"])["e"]).get("k") == "Un" else strip(strip(n_["L"])["e"]).get("id")
                for b_, i_, n_ in cc.nodes() if n_.get("k") == "Asg" and strip(n_["L"]).get("k") == "Un" and strip(n_["L"]).get("op") == "*"}
    _to = [p_ for p_ in _bytep if p_.get("id") in _written]
    _from = [p_ for p_ in _bytep if p_.get("id") not in _written]
    P_FROM = (_from[0].get("n") if _from else (cc.params[0].get("n") if len(cc.params or []) > 0 else "from"))
    PI_FROM = _from[0].get("pi", 0) if _from else 0
    PI_TO = _to[0].get("pi", 1) if _to else 1
    P_TO = (_to[0].get("n") if _to else (cc.params[1].get("n") if len(cc.params or []) > 1 else "to"))
    import inline as _inl
    gud = _inl.inlined(run.need(comm.funcs.get("get_user_data"), "get_user_data"), 2, None, True)
    run.saw(cc)
    run.saw(gud)
    to_id = [p.get("id") for p in cc.params if p["n"] == P_TO]
    run.need(to_id, "parameter 'to' of copy_chars")

    def is_to_store(n):
        if n.get("k") != "Asg":
            return False
        l = strip(n["L"])
        if l.get("k") == "Un" and l.get("op") == "*":
            inner = strip(l["e"])
            if inner.get("k") == "Un" and inner.get("op") == "++":
                inner = strip(inner["e"])
            return inner.get("k") == "Ref" and inner.get("id") == to_id[0] and inner.get("d") == "param"
        return False
    per = max_stores_per_iteration(cc, is_to_store)
    run.need(per, "output stores in copy_chars' loop")
    E = max((v[0] if v[0] is not None else 10 ** 6) for v in per.values())
    # budgets: assignments to text_space under the telnet case
    budgets = []
    for b, i, n in gud.nodes():
        if n.get("k") == "Asg" and n.get("op") == "=" and strip(n["L"]).get("n") == "text_space":
            sg = cfgq.switch_guard(gud, b.id)
            labels = [l.get("src") for l in (sg[1] if sg else []) if l]
            budgets.append((b, n, labels))
    tel = [(b, n) for b, n, labels in budgets if any("PORT_TELNET" in (x or "") for x in labels) and len(labels) == 1]
    run.need(len(tel) >= 2, "telnet read budgets in get_user_data")
    mt = ext.get("text")
    for j, (b, n) in enumerate(tel):
        r = strip(n["R"])
        D = const_val(r["R"]) if r.get("k") == "Bin" and r.get("op") == "/" else None
        ok = D is not None and D >= E
        detail = "copy_chars emits at most %s byte(s) per input byte; budget `%s` divides by %s" % (E, show(n), D)
        # the constant budget must also fit: D*space + 1 <= MAX_TEXT
        cv = const_val(r)
        if ok and cv is not None:
            ok = E * cv + 1 <= mt
            detail += "; constant budget %d: %d*%d+1 <= %d" % (cv, E, cv, mt)
        run.ob("C13-b", "budget:%d" % j, ok, detail, gud.file, n.get("l"), "get_user_data", what="telnet read budget does not cover copy_chars' worst-case expansion (%s)" % detail)
    # the amount read is the budget
    recv = [(b, i, n) for b, i, n in gud.calls() if n.get("fn") in ("recv", "read", "SOCKET_RECV")]
    okr = bool(recv) and all(strip(n["args"][2]).get("n") == "text_space" for b, i, n in recv)
    run.ob("C13-b", "recv-len", okr, "recv length is text_space" if okr else "recv length is not the computed budget", gud.file, recv[0][2].get("l") if recv else gud.line, "get_user_data",
           what="get_user_data reads more than the computed budget")
    # scratch buffers
    for f, var in ((gud, "buf"), (comm.funcs.get("get_user_command"), "buf")):
        if f is None:
            continue
        decl = None
        for b, i, n in f.nodes():
            if n.get("k") == "Decl":
                for v in n.get("vars", []):
                    if v["n"] == var:
                        decl = v
        e2 = None
        if decl:
            t = decl.get("t", "")
            if "[" in t:
                try:
                    e2 = int(t[t.index("[") + 1:t.index("]")])
                except ValueError:
                    e2 = None
        run.ob("C13-b", "scratch:%s:%s" % (f.name, var), e2 is not None and e2 >= mt, "%s %s[%s] vs text[%s]" % (f.name, var, e2, mt), f.file, f.line, f.name,
               what="%s: scratch buffer smaller than the connection text buffer" % f.name)

    # ---- C13-c
    nst = 0
    # the receive buffer may be handed to a file-local helper that does the copying for one port kind
    recv_buf = "buf"
    scan = [(gud, recv_buf, None)]
    for b, i, n in gud.calls():
        g = comm.funcs.get(n.get("fn"))
        if g is not None and g.static and g is not gud and n.get("fn") != "copy_chars":
            for ai, a in enumerate(n.get("args", [])):
                if strip(a).get("k") == "Ref" and strip(a).get("n") == recv_buf and ai < len(g.params or []):
                    scan.append((g, g.params[ai].get("n"), b.id))
    sites = []
    for g, srcname, via in scan:
        for b, i, n in g.calls():
            sites.append((g, srcname, via, b, i, n))
    for g, srcname, via, b, i, n in sites:
        fn = n.get("fn")
        dst = None
        if fn in ("memcpy", "memmove", "__builtin_memcpy") and strip(n["args"][1]).get("n") == srcname:
            dst = n["args"][0]
        elif fn == "copy_chars" and PI_FROM < len(n["args"]) and PI_TO < len(n["args"]) and any(x.get("k") == "Ref" and x.get("n") == srcname for x in walk(n["args"][PI_FROM])):
            dst = n["args"][PI_TO]
        if dst is None:
            continue
        # resolve a local pointer initialised from ip->text + X
        d0 = strip(dst)
        if d0.get("k") == "Ref" and d0.get("d") == "local":
            for b2, i2, n2 in g.nodes():
                if n2.get("k") == "Decl":
                    for v in n2.get("vars", []):
                        if v.get("id") == d0.get("id") and "init" in v:
                            d0 = strip(v["init"])
        off = None
        if d0.get("k") == "Bin" and d0.get("op") == "+" and field_of(d0["L"], "text"):
            off = field_of(d0["R"])
        if not (field_of(d0, "text") or off):
            continue  # not a store into the connection text buffer
        sg = cfgq.switch_guard(gud, b.id if via is None else via)
        labels = ",".join(sorted((l.get("src") or l.get("k")) for l in (sg[1] if sg else []) if l))
        inst = "append:%s:%s" % (fn, labels)
        nst += 1
        run.ob("C13-c", inst, off == "text_end", "%s stores new input at text + %s" % (fn, off), g.file, n.get("l"), g.name,
               what="get_user_data (%s) copies new input to text + %s: a partial line kept from the previous read is overwritten, so delivered lines depend on packet boundaries" % (labels, off))
    run.need(nst >= 2, "stores of new input in get_user_data")

    # ---- C13-d producer and consumer agree on what a complete command is
    import rules.scanfns as scanfns
    SCANNERS, TAKERS = scanfns.find(comm)
    run.need(SCANNERS, "the complete-command scanner of src/comm.c")
    run.rule("C13-d", "the 'command available' flag CMD_IN_BUF is raised only on the true edge of cmd_in_buf(ip) - the same scanner get_user_command relies on (first_cmd_in_buf/cmd_in_buf) - so that whether a line is delivered does not depend on how the bytes were split into reads", 2)
    nset = 0
    for f in sorted(prog.functions(), key=lambda x: (x.file, x.line)):
        sets = [(b, i, n) for b, i, n in f.nodes() if n.get("k") == "Asg" and n.get("op") == "|=" and facts.any_in_macro(n["R"], "CMD_IN_BUF") and strip(n["L"]).get("f") == "iflags"]
        for j, (b, i, n) in enumerate(sets):
            nset += 1
            run.saw(f)
            g = [(strip(c), t) for c, t, B in cfgq.guards(f, b.id)]
            ok = any(t and c.get("k") == "Call" and c.get("fn") in (SCANNERS | TAKERS) for c, t in g)
            run.ob("C13-d", "cmd-flag:%s:%s:%d" % (rel(f.file), f.name, j), ok, "CMD_IN_BUF raised under cmd_in_buf(ip)" if ok else "CMD_IN_BUF is raised under %s, not under the buffer scan cmd_in_buf(): a complete line followed by the start of the next one in the same read is not announced" % [show(c)[:40] for c, t in g][-2:],
                   f.file, n.get("l"), f.name, what="%s raises CMD_IN_BUF from a shortcut test instead of cmd_in_buf(): delivery of a complete line depends on where the read ended" % f.name)
    run.need(nset >= 2, "stores raising CMD_IN_BUF (found %d)" % nset)

    # ---- C13-e input bytes bypass the telnet state machine only when the whole state word says "plain data"
    run.rule("C13-e", "copy_chars: a bulk copy of input bytes (memcpy/memmove from the input buffer, bypassing the per-byte switch) is guarded by a test of the complete state word (ip->state == TS_DATA), not of the masked state: flag bits above the mask (a pending CR) carry across reads", 1)
    cc = run.need(prog.func("copy_chars"), "copy_chars")
    run.saw(cc)
    src_param = [p for p in (cc.params or []) if p.get("n") == P_FROM]
    bulk = []
    for b, i, n in cc.calls():
        if n.get("fn") in ("memcpy", "memmove", "strncpy", "__builtin_memcpy", "__memcpy_chk", "__builtin___memcpy_chk") and len(n.get("args", [])) >= 2:
            if any(x.get("k") == "Ref" and x.get("d") == "param" and src_param and x.get("id") == src_param[0].get("id") for x in walk(n["args"][1])):
                bulk.append((b, i, n))
    if not bulk:
        run.ob("C13-e", "bulk-copy", True, "copy_chars has no bulk copy from its input: every byte goes through the state switch", cc.file, cc.line, "copy_chars")
    for j, (b, i, n) in enumerate(bulk):
        full = False
        masked = False
        for c, t, B in cfgq.guards(cc, b.id):
            op, l, r = atom_of(c, t)
            if op != "==":
                continue
            for x, y in ((strip(l), strip(r)), (strip(r), strip(l))):
                if const_val(y) is None:
                    continue
                if x.get("k") == "Mem" and x.get("f") == "state":
                    full = full or const_val(y) == 0 or facts.any_in_macro(y, "TS_DATA")
                if x.get("k") == "Bin" and x.get("op") == "&" and any(w.get("k") == "Mem" and w.get("f") == "state" for w in walk(x)):
                    masked = True
        run.ob("C13-e", "bulk-copy:%d" % j, full, "bulk copy at line %s is taken only when ip->state == TS_DATA (no pending flags)" % n.get("l") if full else
               "bulk copy of input at line %s is guarded by %s: a CR pending from the previous read (TS_CR_SEEN, above the mask) is ignored, so the line split depends on where the read ended" % (n.get("l"), "the masked state only" if masked else "no test of the state word"),
               cc.file, n.get("l"), "copy_chars", what="copy_chars copies input bytes past the telnet state machine without requiring the complete state word to be TS_DATA")

    # ---- C13-f backward steps of an output cursor are bound-checked one by one
    run.rule("C13-f", "telnet_neg (backspace/delete editing): every decrement of the output cursor is reached only through a comparison of the cursor with the saved start of the buffer taken since the previous decrement (no path from one decrement, or from the entry, to a decrement without `to > first`)", 1)
    nf = 0
    for f in [prog.func("telnet_neg")] + [g for g in prog.unit("src/comm.c").funcs.values() if g.name != "telnet_neg" and g.file.endswith("comm.c")]:
        if f is None:
            continue
        # cursor: a char* param/local that is decremented; start: a local initialised/assigned from it once
        decs = []
        for b, i, n in f.nodes():
            t = None
            if n.get("k") == "Un" and n.get("op") == "--":
                t = strip(n["e"])
            elif n.get("k") == "Asg" and n.get("op") == "-=":
                t = strip(n["L"])
            if t is not None and t.get("k") == "Ref" and t.get("d") in ("param", "local") and (t.get("t") or "").replace("unsigned ", "") in ("char *",):
                decs.append((b, i, n, t))
        if not decs:
            continue
        for cur_id in sorted({t.get("id") for b, i, n, t in decs}):
            cname = [t.get("n") for b, i, n, t in decs if t.get("id") == cur_id][0]
            starts = [strip(n2["L"]).get("id") for b2, i2, n2 in f.nodes() if n2.get("k") == "Asg" and n2.get("op") == "=" and strip(n2["R"]).get("k") == "Ref" and strip(n2["R"]).get("id") == cur_id and strip(n2["L"]).get("k") == "Ref"]
            starts += [v.get("id") for b2, i2, n2 in f.nodes() if n2.get("k") == "Decl" for v in n2.get("vars", []) if "init" in v and strip(v["init"]).get("k") == "Ref" and strip(v["init"]).get("id") == cur_id]
            if not starts:
                continue
            nf += 1
            run.saw(f)
            # edges on which cursor > start holds
            good_edges = set()
            for bid in f.reachable():
                c = f.branch_cond(bid)
                if c is None:
                    continue
                blk = f.blocks[bid]
                for idx, truth in ((0, True), (1, False)):
                    op, l, r = atom_of(c, truth)
                    l0, r0 = strip(l), strip(r) if r is not None else {}
                    if op in (">", "<", ">=", "<=", "!=") and r is not None:
                        if l0.get("id") == cur_id and r0.get("id") in starts and op in (">", "!="):
                            good_edges.add((bid, blk.succ[idx]))
                        if r0.get("id") == cur_id and l0.get("id") in starts and op in ("<", "!="):
                            good_edges.add((bid, blk.succ[idx]))
            sites = [(b, i, n) for b, i, n, t in decs if t.get("id") == cur_id]
            bad = None
            for b, i, n in sites:
                # from the entry
                srcs = [f.entry] + [s for b2, i2, n2 in sites for s in f.blocks[b2.id].live_succ()]
                # a path to this decrement that takes no good edge
                p = f.reach_avoiding(srcs, lambda blk, t=b.id: blk.id == t, avoid_edges=good_edges)
                # same-block second decrement
                same = [x for x in sites if x[0].id == b.id and x[1] < i]
                if p is not None or same:
                    bad = (n.get("l"), p)
                    break
            run.ob("C13-f", "cursor-decrement:%s:%s" % (f.name, cname), bad is None, "every `%s` decrement follows a fresh `%s > start` test" % (cname, cname) if bad is None else
                   "the decrement of `%s` at line %s is reachable (path %s) without a new comparison with the buffer start: a run of deletable bytes walks the cursor below the buffer" % (cname, bad[0], (bad[1] or [])[:8]),
                   f.file, sites[0][2].get("l"), f.name, what="%s moves its output cursor `%s` backwards without re-checking the start of the buffer each time" % (f.name, cname))
    run.need(nf >= 1, "cursor-decrementing editors (found %d)" % nf)

    # ---- C13-g after-IAC states are left by the byte that completes the sequence
    run.rule("C13-g", "copy_chars: the telnet states that stand for 'the next byte completes this command' (after IAC; after IAC DO/DONT/WILL/WONT) assign ip->state on every path through their case, and in the state 'IAC seen inside a sub-negotiation' every branch taken for a specific byte value does; otherwise the following data byte is consumed as part of the command", 6)
    sw_blocks = [bid for bid in sorted(cc.reachable()) if (cc.blocks[bid].term or {}).get("k") == "SwitchStmt"]
    outer = None
    for bid in sw_blocks:
        t = cc.blocks[bid].term
        cond = t.get("cond") or (cc.blocks[bid].el[-1] if cc.blocks[bid].el else None)
        if cond is not None and any(x.get("k") == "Mem" and x.get("f") == "state" for x in walk(cond)):
            outer = bid
            break
    run.need(outer is not None, "switch over ip->state in copy_chars")
    state_store = {b.id for b, i, n in cc.nodes() if n.get("k") == "Asg" and n.get("op") == "=" and strip(n["L"]).get("k") == "Mem" and strip(n["L"]).get("f") == "state"}
    cases = {}
    for sx in cc.blocks[outer].succ:
        if sx is None:
            continue
        lab = cc.blocks[sx].label
        if lab and lab.get("k") == "case":
            cases[lab.get("src") or str(lab.get("lo"))] = sx
    run.need(len(cases) >= 6, "cases of the telnet state switch (found %d)" % len(cases))
    STEADY = {"TS_DATA": "ordinary data", "TS_SB": "collecting a sub-negotiation"}
    ESCAPE_IN_SB = "TS_SB_IAC"
    ng = 0
    for name, start in sorted(cases.items()):
        if name in STEADY:
            continue
        starts = [(start, "any byte")]
        if name == ESCAPE_IN_SB:
            starts = []
            inside = cfgq.reach_set(cc, [start], avoid_blocks=[outer])
            for bid in sorted(inside):
                c = cc.branch_cond(bid)
                if c is None:
                    continue
                op, l, r = atom_of(c, True)
                if op == "==" and r is not None and const_val(r) is not None and any(x.get("k") == "Ref" and x.get("d") == "param" and x.get("n") == P_FROM for x in walk(l)):
                    starts.append((cc.blocks[bid].succ[0], "byte %s" % show(strip(r))))
            run.need(starts, "byte tests in the TS_SB_IAC case")
        for st, what in starts:
            ng += 1
            p = cc.reach_avoiding([st], lambda blk, t=outer: blk.id == t, avoid_blocks=state_store) if st not in state_store else None
            run.ob("C13-g", "leaves:%s:%s" % (name, what), p is None, "every path through %s (%s) assigns ip->state before the next byte is looked at" % (name, what) if p is None else
                   "in state %s (%s) path %s returns to the state switch without assigning ip->state: the next byte of the stream is taken as part of the telnet command and disappears from the input" % (name, what, p[:8]),
                   cc.file, cc.blocks[st].el[0].get("l") if cc.blocks[st].el else cc.line, "copy_chars", what="telnet state %s is not left after the byte that completes the command (%s)" % (name, what))
    run.need(ng >= 6, "after-IAC state instances (found %d)" % ng)

    # ---- C13-h a data byte that is not a control byte is stored
    run.rule("C13-h", "copy_chars, data state: the default branch (a byte that is neither IAC nor CR) stores a byte through the output cursor on every path; a path without a store makes a typed character vanish", 1)
    data_case = cases.get("TS_DATA")
    run.need(data_case is not None, "case TS_DATA")
    # the region where the byte is known to be none of the control bytes: the default branch of a switch over the byte, or
    # what is left when every `byte == K` test of an if-chain has failed (the byte may have been copied into a local first)
    byte_locals = set()
    for b, i, n in cc.nodes():
        if n.get("k") == "Decl":
            for v in n.get("vars", ()):
                if isinstance(v.get("init"), dict) and any(x.get("k") == "Ref" and x.get("d") == "param" and x.get("n") == P_FROM for x in walk(v["init"])) and "*" not in (v.get("t") or ""):
                    byte_locals.add(v.get("id"))

    def is_byte(e):
        return any((x.get("k") == "Ref" and x.get("d") == "param" and x.get("n") == P_FROM) or (x.get("k") == "Ref" and x.get("id") in byte_locals and x.get("id") is not None) for x in walk(e))
    cur, tests = data_case, 0
    for _ in range(12):
        blk = cc.blocks[cur]
        t2 = blk.term or {}
        c2 = cc.branch_cond(cur)
        if t2.get("k") == "SwitchStmt":
            cond2 = t2.get("cond") or (blk.el[-1] if blk.el else None)
            d2 = [sx for sx in blk.succ if sx is not None and (cc.blocks[sx].label or {}).get("k") == "default"]
            if cond2 is None or not is_byte(cond2) or not d2:
                break
            cur, tests = d2[0], tests + 1
            continue
        if c2 is not None:
            op, l, r = atom_of(c2, True)
            if op in ("==", "!=") and r is not None and const_val(r) is not None and is_byte(l):
                cur, tests = (blk.succ[1] if op == "==" else blk.succ[0]), tests + 1
                continue
            break
        ls2 = blk.live_succ()
        if len(ls2) == 1 and ls2[0] != outer:
            cur = ls2[0]
            continue
        break
    run.need(tests >= 1, "tests of the byte against the control bytes in the data state")
    dflt = [cur]
    to_stores = {b.id for b, i, n in cc.nodes() if n.get("k") == "Asg" and n.get("op") == "=" and strip(n["L"]).get("k") == "Un" and strip(n["L"]).get("op") == "*"
                 and any(x.get("k") == "Ref" and x.get("d") == "param" and x.get("n") == P_TO for x in walk(n["L"]))}
    run.need(to_stores, "stores through `to`")
    p = cc.reach_avoiding([dflt[0]], lambda blk, t=outer: blk.id == t, avoid_blocks=to_stores) if dflt[0] not in to_stores else None
    run.ob("C13-h", "data-byte-stored", p is None, "every path of the default branch stores through `to`" if p is None else
           "path %s through the default branch of the data state stores nothing: the byte is dropped from the command line" % p[:8], cc.file, cc.blocks[dflt[0]].el[0].get("l") if cc.blocks[dflt[0]].el else cc.line, "copy_chars",
           what="a plain data byte can be dropped by the telnet state machine (e.g. the byte after a lone CR)")

    # ---- C13-i fixed-offset reads of the sub-negotiation buffer see initialised bytes
    run.rule("C13-i", "copy_chars: a read of ip->sb_buf at a constant offset is dominated by a clear of the unused tail of the buffer (memset from sb_buf + sb_pos) or by a test that sb_pos is beyond that offset: a short sub-negotiation must not expose bytes of an earlier one", 3)
    clears = [(b, i) for b, i, n in cc.calls("memset") if any(x.get("k") == "Mem" and x.get("f") == "sb_buf" for x in walk(n["args"][0])) and any(x.get("k") == "Mem" and x.get("f") == "sb_pos" for x in walk(n["args"][0]))]
    nr = 0
    seen_off = set()
    for b, i, n in cc.nodes():
        if n.get("k") != "Sub" or const_val(n.get("i")) is None:
            continue
        if not (strip(n["b"]).get("k") == "Mem" and strip(n["b"]).get("f") == "sb_buf"):
            continue
        # stores are not reads
        if any(m.get("k") == "Asg" and m.get("op") == "=" and strip(m["L"]) is n for e in b.el for m in walk(e, True)):
            continue
        k = const_val(n["i"])
        nr += 1
        cleared = any(cc.point_dominates((cb.id, ci), (b.id, i)) for cb, ci in clears)
        tested = False
        for c, truth, B in cfgq.guards(cc, b.id):
            from stale import implied_atoms as _ia
            for a, tr in _ia(c, truth):
                op, l, r = atom_of(a, tr)
                if r is not None and const_val(r) is not None and strip(l).get("k") == "Mem" and strip(l).get("f") == "sb_pos" and ((op == ">" and const_val(r) >= k) or (op == ">=" and const_val(r) > k)):
                    tested = True
        key = (k, n.get("l"))
        if key in seen_off:
            continue
        seen_off.add(key)
        run.ob("C13-i", "sb-read:%d@%d" % (k, len([x for x in seen_off if x[0] == k])), cleared or tested, "sb_buf[%d] at line %s is read after the tail was cleared" % (k, n.get("l")) if cleared else ("sb_pos tested" if tested else
               "sb_buf[%d] is read at line %s without the unused tail having been cleared and without a test of sb_pos: after a shorter sub-negotiation it still holds bytes of an earlier one (or heap garbage)" % (k, n.get("l"))),
               cc.file, n.get("l"), "copy_chars", what="telnet sub-negotiation handlers read bytes the client did not send")
    run.need(nr >= 3, "constant-offset reads of sb_buf (found %d)" % nr)

    # ---- C13-j the over-long-line discard looks at pending commands first
    run.rule("C13-j", "get_user_data: the stores that throw the input buffer away (text_start = text_end = 0 under 'no room left') are reached only through a test that calls cmd_in_buf(), except when the new bytes were already taken off the socket (completion buffer present): a buffer that is full of complete commands is not an over-long line", 1)
    nd = 0
    for b, i, n in gud.nodes():
        if n.get("k") == "Asg" and n.get("op") == "=" and strip(n["L"]).get("k") == "Mem" and strip(n["L"]).get("f") == "text_end" and const_val(n["R"]) == 0:
            # only the discard under a space test (not connection set-up)
            sized = [B for c, t, B in cfgq.guards(gud, b.id) if any(x.get("k") == "Ref" and x.get("n") == "text_space" for x in walk(c))]
            if not sized:
                continue
            nd += 1
            looks = {bid for bid in gud.reachable() if gud.branch_cond(bid) is not None and any(x.get("k") == "Call" and x.get("fn") in SCANNERS for x in walk(gud.branch_cond(bid)))}
            # bytes that were already taken off the socket (completion buffer of an asynchronous read) cannot be
            # left there: on the edge `evt->buffer != NULL` the discard is the only option, whatever is pending
            taken = set()
            for bid in gud.reachable():
                c = gud.branch_cond(bid)
                if c is None or not gud.dominates(sized[0], bid):
                    continue
                from stale import implied_atoms as _ia
                for truth, idx in ((True, 0), (False, 1)):
                    for a, tr in _ia(c, truth):
                        e0, t0 = normalize_cond(a, tr)
                        e0 = strip(e0)
                        if t0 and e0.get("k") == "Mem" and e0.get("f") == "buffer":
                            taken.add((bid, gud.blocks[bid].succ[idx]))
            p = gud.reach_avoiding([gud.entry], lambda blk, t=b.id: blk.id == t, avoid_blocks=looks, avoid_edges=taken)
            run.ob("C13-j", "discard:%s" % show(n)[:30], p is None, "the discard at line %s is reached only after a test of cmd_in_buf(ip)" % n.get("l") if p is None else
                   "path %s reaches the discard at line %s without asking cmd_in_buf(): pasted short lines that fill the buffer are thrown away although each is a complete command" % (p[:8], n.get("l")), gud.file, n.get("l"), "get_user_data",
                   what="get_user_data discards buffered complete commands as if they were one over-long line")
    run.need(nd >= 1, "discard of the input buffer (found %d)" % nd)

    # ---- C13-k the two cursors of the input buffer stay ordered
    run.rule("C13-k", "interactive_t.text_start <= text_end: a store that sets text_end to a constant (throwing buffered input away) is made with text_start known to be 0 on every path to it - assigned 0, or the failing edge of a `text_start > 0` test with no store since - or together with `text_start = 0` in the same straight-line block; otherwise the next read is parsed from a stale start beyond the end (lost bytes, a negative length handed to memchr)", 4)
    from dataflow import solve as _solve
    nk = 0
    for f in sorted([g for g in comm.funcs.values()], key=lambda x: x.line):
        lows = [(b, i, n) for b, i, n in f.nodes() if n.get("k") == "Asg" and n.get("op") == "=" and strip(n["L"]).get("k") == "Mem" and strip(n["L"]).get("f") == "text_end"
                and (const_val(n["R"]) is not None)]
        if not lows:
            continue

        def is_zero_store(n):
            if not (n.get("k") == "Asg" and n.get("op") == "=" and strip(n["L"]).get("k") == "Mem" and strip(n["L"]).get("f") == "text_start"):
                return None
            r = strip(n["R"])
            while r.get("k") == "Asg" and r.get("op") == "=":
                r = strip(r["R"])
            return const_val(r) == 0

        def transfer(blk, st):
            for e in blk.el:
                for x in walk(e, True):
                    z = is_zero_store(x)
                    if z is not None:
                        st = "Z" if z else "U"
                    elif x.get("k") in ("Asg", "Un") and strip(x.get("L") or x.get("e") or {}).get("k") == "Mem" and strip(x.get("L") or x.get("e")).get("f") == "text_start" and (x.get("k") == "Asg" or x.get("op") in ("++", "--")):
                        st = "U"
            return st

        def edge(blk, idx, s, st):
            c = f.branch_cond(blk)
            if c is None or idx > 1:
                return st
            op, l, r = atom_of(c, idx == 0)
            l0 = strip(l) if l is not None else {}
            if l0.get("k") == "Mem" and l0.get("f") == "text_start":
                if (op in ("<=", "==") and r is not None and const_val(r) == 0) or op == "false" or (op == "<" and r is not None and const_val(r) == 1):
                    return "Z"
            return st

        ins = _solve(f, "U", transfer, edge, lambda a, b: a if a == b else "U")
        for j, (b, i, n) in enumerate(lows):
            nk += 1
            run.saw(f)
            st = ins.get(b.id, "U")
            # state just before the store inside its block, and stores of text_start = 0 in the same block
            for ei, e in enumerate(b.el):
                for x in walk(e, True):
                    if x is n:
                        break
                    z = is_zero_store(x)
                    if z is not None:
                        st = "Z" if z else "U"
                else:
                    continue
                break
            same_block = any(is_zero_store(x) for e in b.el for x in walk(e, True))
            chained = any(x.get("k") == "Asg" and strip(x["L"]).get("f") == "text_start" and any(y is n for y in walk(x["R"])) for e in b.el for x in walk(e))
            ok = st == "Z" or same_block or chained
            run.ob("C13-k", "lower:%s:%d" % (f.name, j), ok, "`%s` with text_start %s" % (show(n)[:40], "known to be 0" if st == "Z" else "set to 0 in the same block") if ok else
                   "`%s` (line %s) can be reached with text_start > 0: the kept input is thrown away but its start is not, so text_start > text_end afterwards" % (show(n)[:40], n.get("l")), f.file, n.get("l"), f.name,
                   what="%s lowers text_end without text_start: the next read is parsed from a stale start" % f.name)
    run.need(nk >= 4, "stores that set text_end to a constant (found %d)" % nk)

    # ---- C13-l what the console feeder counts as moved is moved
    run.rule("C13-l", "console input: the feeder (the function that takes messages off the console queue) cuts each piece down to the room it computed (K1 - text_end) and then counts the piece as consumed; the function it hands the piece to refuses silently when text_end + len reaches its own limit K2. K2 > K1, so the refusal cannot happen for a piece the feeder has counted - otherwise those bytes are neither stored nor offered again and the commands around them are glued together", 1)

    def lin(f, e, depth=0):
        """(constant, coefficient of ->text_end, id of the one local added with coefficient 1 or None) for a linear expression"""
        e = strip(e)
        k = const_val(e)
        if k is not None:
            return (k, 0, None)
        if field_of(e, "text_end"):
            return (0, 1, None)
        if e.get("k") == "Cast" and isinstance(e.get("e"), dict):
            return lin(f, e["e"], depth)
        if e.get("k") == "Ref" and e.get("d") in ("local", "param") and e.get("id") is not None:
            return (0, 0, e["id"])
        if e.get("k") == "Bin" and e.get("op") in ("+", "-"):
            a, b = lin(f, e["L"], depth), lin(f, e["R"], depth)
            if a is None or b is None:
                return None
            s = 1 if e["op"] == "+" else -1
            if b[2] is not None and (s < 0 or a[2] is not None):
                return None
            return (a[0] + s * b[0], a[1] + s * b[1], a[2] if a[2] is not None else b[2])
        return None

    def single_def(f, vid):
        defs = [n2["R"] for b2, i2, n2 in f.nodes() if n2.get("k") == "Asg" and n2.get("op") == "=" and strip(n2["L"]).get("k") == "Ref" and strip(n2["L"]).get("id") == vid]
        defs += [v["init"] for b2, i2, n2 in f.nodes() if n2.get("k") == "Decl" for v in n2.get("vars", ()) if v.get("id") == vid and isinstance(v.get("init"), dict)]
        return defs
    nl_ = 0
    for f in sorted(comm.funcs.values(), key=lambda x: x.line):
        if not any(True for _ in f.calls("async_queue_dequeue")):
            continue
        for b, i, n in f.calls():
            g = comm.funcs.get(n.get("fn") or "")
            if g is None or not g.static or g.name == f.name:
                continue
            # a piece: (pointer, length local) handed over, and the length added to a position afterwards
            lens = [(ai, strip(a)) for ai, a in enumerate(n.get("args", [])) if strip(a).get("k") == "Ref" and strip(a).get("d") == "local" and "int" in (strip(a).get("t") or "")]
            counted = None
            for ai, a in lens:
                for b2, i2, n2 in f.nodes():
                    if n2.get("k") == "Asg" and n2.get("op") == "+=" and strip(n2["R"]).get("id") == a.get("id") and (b2.id in cfgq.reach_set(f, b.live_succ()) or (b2.id == b.id and i2 > i)):
                        counted = (ai, a)
            if counted is None:
                continue
            ai, a = counted
            nl_ += 1
            run.saw(f)
            run.saw(g)
            # K1: `if (len > room) len = room` with room = K1 - text_end
            k1 = None
            for b2, i2, n2 in f.nodes():
                if n2.get("k") == "Asg" and n2.get("op") == "=" and strip(n2["L"]).get("id") == a.get("id") and strip(n2["R"]).get("k") == "Ref" and strip(n2["R"]).get("d") == "local":
                    rid = strip(n2["R"]).get("id")
                    clamp = any(op in (">", ">=") and strip(l).get("id") == a.get("id") and strip(r).get("id") == rid for op, l, r in [atom_of(c, t) for c, t, B in cfgq.guards(f, b2.id)] if r is not None)
                    ds = single_def(f, rid)
                    if clamp and len(ds) == 1:
                        lf = lin(f, ds[0])
                        if lf is not None and lf[1] == -1 and lf[2] is None:
                            k1 = lf[0]
            # K2: the branches of g that return without a store through a pointer, on text_end + len
            pid_ = None
            for p_ in g.params or []:
                if p_.get("pi") == ai:
                    pid_ = p_.get("id")
            k2, unread = None, None
            storing = {b2.id for b2, i2, n2 in g.nodes() if n2.get("k") == "Asg" and strip(n2["L"]).get("k") in ("Un", "Sub")}
            for bid in g.reachable():
                blk = g.blocks[bid]
                c = g.branch_cond(blk)
                if c is None or len(blk.succ) < 2:
                    continue
                for truth, s in ((True, blk.succ[0]), (False, blk.succ[1])):
                    if s is None:
                        continue
                    # does this side leave without storing anything?
                    if g.reach_avoiding([s], lambda bb: bb.id in storing, avoid_blocks=()) is not None:
                        continue
                    op, l, r = atom_of(c, truth)
                    if r is None:
                        continue
                    lf, rf = lin(g, l), lin(g, r)
                    if lf is None or rf is None or lf[2] != pid_ or lf[1] != 1 or rf[1] != 0 or rf[2] is not None:
                        if lf is not None and lf[2] == pid_ and lf[1] == 1:
                            unread = show(c)[:60]
                        continue
                    lim = rf[0] - lf[0]
                    lim = lim if op == ">=" else lim + 1 if op == ">" else None
                    if lim is not None:
                        k2 = lim if k2 is None else min(k2, lim)
            if k1 is None:
                ok, why = None, "the room the feeder cuts a piece down to is not of the form K - text_end"
            elif k2 is None and unread is None:
                ok, why = True, "%s() has no silent refusal on text_end + len" % g.name
            elif k2 is None:
                ok, why = None, "%s() refuses under `%s`, which this rule does not read" % (g.name, unread)
            else:
                ok = k2 > k1
                why = "%s() cuts a piece to %d - text_end and counts it; %s() refuses only from text_end + len >= %d" % (f.name, k1, g.name, k2) if ok else \
                    "%s() cuts a piece to %d - text_end and adds its length to the position it has consumed (line %s); %s() returns without storing it when text_end + len >= %d, which a piece of exactly that room reaches: the bytes are dropped from the middle of the stream" % (f.name, k1, n.get("l"), g.name, k2)
            run.ob("C13-l", "counted-is-stored:%s:%s" % (f.name, g.name), ok, why, f.file, n.get("l"), f.name, what="%s counts console input as consumed that %s refuses to store" % (f.name, g.name))
    run.need(nl_ >= 1, "pieces handed over and counted by the console feeder (found %d)" % nl_)
