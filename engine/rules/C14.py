"""C14 — output ring buffer arithmetic (delivery over send-result sequences is not decided).

C14-a  every store into message_buf[] is indexed by message_producer, executes with at least one
       free slot (slack dataflow over the full-buffer tests), and is followed in the same block by
       the modular advance of the producer and message_length++
C14-b  flush_message: chunk length is producer-consumer when consumer < producer, else SIZE-consumer;
       the consumer advances modulo SIZE by the bytes actually sent and message_length drops by the same amount;
       a would-block/failed send changes neither
C14-c  who may write message_producer / message_consumer / message_length
C14-d  add_message and add_vmessage agree (same stores, same tests)"""
import facts
import cfgq
from core import rel
from dataflow import solve
from facts import strip, show, walk, const_val, normalize_cond, atom_of

IREC = ("interactive_s", "interactive_t")
# callees that never add bytes to a connection's ring buffer
NO_RING_WRITE = {"flush_message", "debug_message", "debug_message_with_src", "async_runtime_modify", "free", "vasprintf", "__builtin_va_start", "__builtin_va_end", "debug_perror"}


def fld(e, name=None):
    e = strip(e)
    if isinstance(e, dict) and e.get("k") == "Mem" and e.get("rec") in IREC and (name is None or e.get("f") == name):
        return e.get("f")
    return None


def _upper_bound(atom, is_x):
    """largest value of x the comparison allows, for `x <= k`, `x + c <= k`, `K - x >= k` (and <, >, either way round)"""
    op, l, r = atom
    if r is None or op not in ("<", "<=", ">", ">="):
        return None
    if const_val(l) is not None and const_val(r) is None:
        l, r = r, l
        op = {"<": ">", "<=": ">=", ">": "<", ">=": "<="}[op]
    k = const_val(r)
    if k is None:
        return None
    l = strip(l)
    if is_x(l):
        return k if op == "<=" else k - 1 if op == "<" else None
    if l.get("k") == "Bin" and l.get("op") == "+":
        for a, b in ((l["L"], l["R"]), (l["R"], l["L"])):
            if is_x(strip(a)) and const_val(b) is not None:
                return k - const_val(b) if op == "<=" else k - const_val(b) - 1 if op == "<" else None
    if l.get("k") == "Bin" and l.get("op") == "-" and const_val(l["L"]) is not None and is_x(strip(l["R"])):
        return const_val(l["L"]) - k if op == ">=" else const_val(l["L"]) - k - 1 if op == ">" else None
    return None


def check(run, prog, tier):
    run.rule("C14-a", "every store into message_buf[] is at message_producer, has slack >= 1 on every path (full-buffer tests, re-test after flush), and is followed by producer = (producer+1) % SIZE and message_length++", 4)
    run.rule("C14-b", "flush_message: contiguous chunk length, modular consumer advance by the bytes sent, message_length -= bytes sent, nothing consumed when send fails, accepted bytes recorded in the connection record before any return", 5)
    run.rule("C14-c", "message_producer / message_consumer / message_length are written only by the functions that put bytes into the ring (each store checked under C14-a), flush_message and connection set-up", 3)
    run.rule("C14-d", "add_message and add_vmessage are siblings: same number of ring stores and the same full-buffer tests", 1)

    comm = prog.unit("src/comm.c")
    recs = prog.records()
    irec = recs.get("interactive_s") or recs.get("interactive_t")
    SIZE = [f_.get("ext") for f_ in irec["fields"] if f_["n"] == "message_buf"][0]
    run.need(SIZE, "extent of message_buf")

    from rules import C14a
    shapes, ring = C14a.check(run, prog, SIZE)
    # a writer may delegate the whole copy loop to one self-sufficient putter (add_message -> queue_message):
    # it then has that putter's shape
    for fname in ("add_message", "add_vmessage"):
        if fname not in shapes and fname in comm.funcs:
            via = sorted({n.get("fn") for b, i, n in comm.funcs[fname].calls() if n.get("fn") in shapes and n.get("fn") not in ring.raw})
            if len(via) == 1:
                shapes[fname] = shapes[via[0]]
                run.note("%s puts bytes into the ring through %s()" % (fname, via[0]))
        run.need(fname in shapes, "%s puts bytes into the ring (directly or through a helper)" % fname)

    a, v = shapes["add_message"], shapes["add_vmessage"]
    run.ob("C14-d", "siblings", a == v, "add_message %s vs add_vmessage %s (stores, full-buffer test constants)" % (a, v), comm.funcs["add_message"].file, comm.funcs["add_message"].line, "add_message",
           what="add_message and add_vmessage disagree on ring stores/tests: %s vs %s" % (a, v))

    # ---- C14-b
    fm = run.need(comm.funcs.get("flush_message"), "flush_message")
    run.saw(fm)
    # the chunk length is whatever is handed to send()/write() as the byte count; it may be computed by a file-local helper
    snd0 = [(b, i, n) for b, i, n in fm.calls() if n.get("fn") in ("send", "write", "sendto") and len(n.get("args", [])) >= 3 and any(fld(x, "message_buf") for x in walk(n["args"][1]))]
    run.need(snd0, "send()/write() of message_buf in flush_message")
    lv = strip(snd0[0][2]["args"][2])
    run.need(lv.get("k") == "Ref" and lv.get("id") is not None, "a local as the byte count of the send")
    LF, lvid = fm, lv.get("id")
    ldefs = [n for b, i, n in fm.nodes() if n.get("k") == "Asg" and n.get("op") == "=" and strip(n["L"]).get("k") == "Ref" and strip(n["L"]).get("id") == lvid]
    if len(ldefs) == 1 and strip(ldefs[0]["R"]).get("k") == "Call" and comm.funcs.get(strip(ldefs[0]["R"]).get("fn")) is not None and comm.funcs[strip(ldefs[0]["R"])["fn"]].static:
        hf = comm.funcs[strip(ldefs[0]["R"])["fn"]]
        rets = {strip(n["e"]).get("id") for b, i, n in hf.nodes() if n.get("k") == "Return" and isinstance(n.get("e"), dict) and strip(n["e"]).get("k") == "Ref"}
        if len(rets) == 1 and None not in rets:
            LF, lvid = hf, rets.pop()
            run.saw(hf)
            run.note("flush_message takes the chunk length from %s()" % hf.name)
    fm_, fm = fm, LF          # the chunk-length clauses below are about the function that computes it
    lens = [(b, i, n) for b, i, n in fm.nodes() if n.get("k") == "Asg" and n.get("op") == "=" and strip(n["L"]).get("k") == "Ref" and strip(n["L"]).get("id") == lvid]
    run.need(len(lens) >= 2, "chunk length assignments in flush_message")
    okl = True
    unrec = False
    why = []
    for b, i, n in lens:
        r = strip(n["R"])
        g = [atom_of(c, t) for c, t, B in cfgq.guards(fm, b.id)]
        lt = any(op == "<" and fld(l, "message_consumer") and fld(rr, "message_producer") for op, l, rr in g)
        ge = any(op == ">=" and fld(l, "message_consumer") and fld(rr, "message_producer") for op, l, rr in g)
        if r.get("k") == "Bin" and r.get("op") == "-" and fld(r["L"], "message_producer") and fld(r["R"], "message_consumer"):
            good = lt
            why.append("producer-consumer under consumer<producer: %s" % lt)
        elif r.get("k") == "Bin" and r.get("op") == "-" and const_val(r["L"]) == SIZE and fld(r["R"], "message_consumer"):
            good = ge
            why.append("SIZE-consumer under consumer>=producer: %s" % ge)
        elif any(op == ">" and strip(l).get("id") == lvid and show(strip(rr)) == show(r) for op, l, rr in g):
            # `if (length > E) length = E;` only shortens a chunk that was contiguous already
            good = True
            why.append("clamp `%s` under length > %s: a shorter prefix of the contiguous chunk" % (show(n), show(r)))
        elif const_val(r) == 1 and fm.reach_avoiding([fm.entry], lambda blk, t=b.id: blk.id == t, avoid_blocks={b2.id for b2, i2, n2 in lens if strip(n2["R"]).get("k") == "Bin" and b2.id != b.id}) is None:
            # one byte of a non-empty ring (the loop runs while message_length != 0; both field-level forms are >= 1)
            good = True
            why.append("`%s`: a single byte of the non-empty ring" % show(n))
        else:
            # a length computed from the ring cursors (or local copies of them) in a form this rule does not read is not
            # decided; a length taken from something else entirely, without the `length > E` guard that makes it a mere
            # shortening, replaces the contiguous bound
            mirrors = {strip(n2["L"]).get("id") for b2, i2, n2 in fm.nodes() if n2.get("k") == "Asg" and n2.get("op") == "=" and strip(n2["L"]).get("k") == "Ref"
                       and any(fld(x, "message_producer") or fld(x, "message_consumer") for x in walk(n2["R"]))}
            mirrors |= {v.get("id") for b2, i2, n2 in fm.nodes() if n2.get("k") == "Decl" for v in n2.get("vars", ()) if isinstance(v.get("init"), dict)
                        and any(fld(x, "message_producer") or fld(x, "message_consumer") for x in walk(v["init"]))}
            about_ring = any(fld(x, "message_producer") or fld(x, "message_consumer") or (x.get("k") == "Ref" and x.get("id") in mirrors and x.get("id") is not None) or (x.get("k") == "Ref" and x.get("id") == lvid) for x in walk(r))
            if about_ring:
                good = True
                unrec = True
                why.append("chunk length %s is not one of the two field-level forms (not decided)" % show(n))
            else:
                good = False
                why.append("`%s` (line %s) sets the chunk length from a quantity that is not the contiguous unsent part and is not guarded by `length > ...`: when the unsent output wraps, send() is handed bytes beyond the end of the ring and the start of the ring is skipped" % (show(n), n.get("l")))
        okl = okl and good
    run.ob("C14-b", "chunk-length", (None if unrec else True) if okl else False, "; ".join(why), fm.file, lens[0][2].get("l"), fm.name, what="flush_message sends a chunk that is not the contiguous unsent part of the ring: " + "; ".join(why))
    fm = fm_
    cons = [(b, i, n) for b, i, n in fm.nodes() if n.get("k") == "Asg" and fld(n["L"], "message_consumer")]
    dec = [(b, i, n) for b, i, n in fm.nodes() if n.get("k") == "Asg" and fld(n["L"], "message_length")]
    okc = len(cons) == 1
    sent = None
    mirror = bool(cons) and all(strip(n["R"]).get("k") == "Ref" and strip(n["R"]).get("d") == "local" for b, i, n in cons)
    if okc:
        r = strip(cons[0][2]["R"])
        okc = r.get("k") == "Bin" and r.get("op") == "%" and const_val(r["R"]) == SIZE
        if okc:
            a0 = strip(r["L"])
            okc = a0.get("k") == "Bin" and a0.get("op") == "+" and fld(a0["L"], "message_consumer") is not None and strip(a0["R"]).get("k") == "Ref"
            sent = strip(a0["R"]).get("n") if okc else None
    run.ob("C14-b", "consumer-advance", True if okc else (None if mirror else False), "consumer = (consumer + %s) %% %d" % (sent, SIZE) if okc else ("the consumer is written back from a local copy; its arithmetic is not decided" if mirror else "consumer advance is not modular by the bytes sent"), fm.file, cons[0][2].get("l") if cons else fm.line, "flush_message",
           what="flush_message advances the consumer non-modularly or not by the bytes sent")
    okd = len(dec) == 1 and dec[0][2].get("op") == "-=" and strip(dec[0][2]["R"]).get("n") == sent and sent is not None
    lmirror = bool(dec) and all(strip(n["R"]).get("k") == "Ref" and strip(n["R"]).get("d") == "local" or const_val(n["R"]) == 0 for b, i, n in dec) and mirror
    run.ob("C14-b", "length-decrease", True if okd else (None if lmirror else False), "message_length -= %s (same amount as the consumer advance)" % sent if okd else "message_length does not drop by the bytes sent", fm.file, dec[0][2].get("l") if dec else fm.line, "flush_message",
           what="flush_message: message_length and the consumer disagree on the bytes sent")
    # the advance is guarded by a successful send: sent != -1 on that path
    oks = False
    if cons:
        g = [atom_of(c, t) for c, t, B in cfgq.guards(fm, cons[0][0].id)]
        oks = any(op == "!=" and strip(l).get("n") == sent and const_val(r) == -1 for op, l, r in g)
    run.ob("C14-b", "no-advance-on-failure", True if oks else (None if mirror else False), "the advance runs only when %s != -1" % sent if oks else "consumer advances even when send() failed", fm.file, cons[0][2].get("l") if cons else fm.line, "flush_message",
           what="flush_message consumes bytes although send() failed or would block")

    # accepted bytes are accounted for before flush_message can return: from the success edge of the send (result != -1)
    # every path to a return passes a store to ip->message_consumer and one to ip->message_length (whatever locals are used)
    sends = [(b, i, n) for b, i, n in fm.calls() if n.get("fn") in ("send", "write", "sendto") and len(n.get("args", [])) >= 2 and any(fld(x, "message_buf") for x in walk(n["args"][1]))]
    run.need(sends, "send()/write() of message_buf in flush_message")
    fail_edges = set()
    res_ids = set()
    for b, i, n in fm.nodes():
        if n.get("k") == "Asg" and n.get("op") == "=" and strip(n["L"]).get("k") == "Ref" and any(x.get("k") == "Call" and x.get("fn") in ("send", "write", "sendto") for x in walk(n["R"])):
            res_ids.add(strip(n["L"]).get("id"))
    for bid in fm.reachable():
        c = fm.branch_cond(bid)
        if c is None:
            continue
        blk = fm.blocks[bid]
        for idx, truth in ((0, True), (1, False)):
            op, l, r = atom_of(c, truth)
            if op == "==" and strip(l).get("id") in res_ids and const_val(r) == -1:
                fail_edges.add((bid, blk.succ[idx]))
            if op in ("<", "<=") and strip(l).get("id") in res_ids and const_val(r) in (0, -1) and not (op == "<=" and const_val(r) == -1 and False):
                fail_edges.add((bid, blk.succ[idx]))
    cons_blocks = {b.id for b, i, n in fm.nodes() if n.get("k") == "Asg" and fld(n["L"], "message_consumer")}
    len_blocks = {b.id for b, i, n in fm.nodes() if n.get("k") == "Asg" and fld(n["L"], "message_length")}
    # start after the block(s) where the send result is stored
    starts = sorted({b.id for b, i, n in fm.nodes() if n.get("k") == "Asg" and strip(n["L"]).get("id") in res_ids})
    run.need(starts, "assignment of the send result in flush_message")
    # the blocks reached right after a send that did not fail (only that first failure test is excluded: a later
    # iteration's failure is exactly the case in which earlier accepted bytes must already be on record)
    srcs = []
    for st in starts:
        front = [st]
        seen = set()
        while front:
            x = front.pop()
            if x in seen:
                continue
            seen.add(x)
            c = fm.branch_cond(x)
            tests_result = c is not None and any(w.get("k") == "Ref" and w.get("id") in res_ids for w in walk(c))
            for sx in fm.blocks[x].live_succ():
                if (x, sx) in fail_edges:
                    continue
                if x == st and not tests_result and fm.blocks[x].live_succ() and len(fm.blocks[x].live_succ()) == 1:
                    front.append(sx)
                else:
                    srcs.append(sx)
    p1 = fm.reach_avoiding(srcs, lambda blk: blk.id == fm.exit, avoid_blocks=cons_blocks)
    p2 = fm.reach_avoiding(srcs, lambda blk: blk.id == fm.exit, avoid_blocks=len_blocks)
    run.ob("C14-b", "accepted-bytes-accounted", p1 is None and p2 is None, "after a successful send every path to a return stores ip->message_consumer and ip->message_length" if p1 is None and p2 is None else
           "path %s returns after the socket accepted bytes without storing %s: those bytes are still counted as pending and are sent again" % ((p1 or p2)[:8], "ip->message_consumer" if p1 else "ip->message_length"),
           fm.file, sends[0][2].get("l"), "flush_message", what="flush_message can return after a partial send without recording the consumed bytes in the connection record (duplicate output)")

    # ---- C14-c
    setup = {"new_interactive", "create_test_interactive"}
    putters = set(ring.direct)      # functions that store into the ring (checked store by store under C14-a)
    allowed = {"message_producer": putters | setup,
               "message_consumer": {"flush_message"} | setup,
               "message_length": putters | {"flush_message"} | setup}
    for field in ("message_producer", "message_consumer", "message_length"):
        ws = set()
        odd = []
        for f in prog.functions():
            for b, i, n in f.nodes():
                is_w = (n.get("k") == "Asg" and fld(n["L"], field)) or (n.get("k") == "Un" and n.get("op") in ("++", "--", "&") and fld(n["e"], field))
                if not is_w:
                    continue
                if f.name in setup:
                    ws.add(f.name)
                    continue
                # the ring's own updates: modular advance / length++ / length -= sent
                regular = False
                if n.get("k") == "Asg" and field in ("message_producer", "message_consumer"):
                    r = strip(n["R"])
                    regular = r.get("k") == "Bin" and r.get("op") == "%" and const_val(r["R"]) == SIZE and fld(strip(r["L"]).get("L") if strip(r["L"]).get("k") == "Bin" else None, field) is not None
                elif field == "message_length":
                    regular = (n.get("k") == "Un" and n.get("op") == "++") or (n.get("k") == "Asg" and n.get("op") == "-=")
                if regular:
                    ws.add(f.name)
                    continue
                # any other write (e.g. a rewind to 0) is only sound while the ring is empty: message_length == 0
                empty = any(atom_of(c, t)[0] == "==" and fld(atom_of(c, t)[1], "message_length") and const_val(atom_of(c, t)[2]) == 0 for c, t, B in cfgq.guards(f, b.id)) or \
                    any(atom_of(c, t)[0] == "false" and fld(atom_of(c, t)[1], "message_length") for c, t, B in cfgq.guards(f, b.id))
                rv = n.get("R")
                while isinstance(rv, dict) and strip(rv).get("k") == "Asg":
                    rv = strip(rv)["R"]
                if empty and const_val(rv) is not None:
                    ws.add(f.name + "(rewind while empty)")
                elif n.get("k") == "Asg" and n.get("op") == "=" and strip(rv).get("k") == "Ref" and strip(rv).get("d") == "local" and f.name in (putters | {"flush_message"}) and any(
                        m.get("k") == "Decl" and any(v.get("id") == strip(rv).get("id") and "init" in v and fld(v["init"], field) for v in m.get("vars", [])) or
                        (m.get("k") == "Asg" and m.get("op") == "=" and strip(m["L"]).get("id") == strip(rv).get("id") and fld(m["R"], field)) for b9, i9, m in f.nodes()):
                    ws.add(f.name + "(write-back of a local copy)")
                else:
                    odd.append("%s:%s: %s" % (f.name, n.get("l"), show(n)))
        plain = {w.split("(")[0] for w in ws}
        okw = plain <= allowed[field] | putters | {"flush_message"} and not odd and bool(ws)
        # regular updates must come from the allowed writers of that field
        reg_bad = {w for w in ws if "(" not in w and w not in allowed[field]}
        run.ob("C14-c", "writers:" + field, okw and not reg_bad, "%s written by %s%s" % (field, sorted(ws), ("; irregular writes: %s" % odd) if odd else ""), comm.funcs["add_message"].file, None, None,
               what="%s is written outside the ring protocol: %s" % (field, odd or sorted(reg_bad)))

    # ---- C14-e formatted output is queued whole: snprintf-style truncation tests on the output path
    import rules.fitrule as fitrule
    run.rule("C14-e", "output path (src/comm.c): where text is formatted with snprintf()/vsnprintf() into a fixed buffer and the result is compared with the buffer size, the side treated as 'the buffer holds the whole text' contains only results <= size - 1 (the functions return the untruncated length; size - 1 characters fit). The rule is exercised program-wide (every such comparison in the driver is decided, see C01-q); on this path there may be none", 0)
    fitrule.check(run, prog, "C14-e", lambda f: f.file.endswith("src/comm.c"), 0, 5,
                  "a message of exactly the buffer size loses its last byte although the connection is healthy")

    # ---- C14-f the urgent mark sits on the DATA MARK
    run.rule("C14-f", "telnet Synch: `out_of_band = message_length` declares the last byte in the ring to be the DATA MARK that flush_message() sends as TCP urgent data (and an ordinary client never sees in its data stream); the store is made only where the reply that ends in the DATA MARK has certainly been queued - under a test that message_length leaves room for it (<= size - 2) - because the queueing helpers drop what does not fit without telling", 1)
    nf = 0
    for f in sorted(comm.funcs.values(), key=lambda x: x.line):
        for j, (b, i, n) in enumerate([x for x in f.nodes() if x[2].get("k") == "Asg" and x[2].get("op") == "=" and fld(x[2]["L"], "out_of_band") and any(fld(y, "message_length") for y in walk(x[2]["R"]))]):
            nf += 1
            run.saw(f)
            room = None
            for c, t, B in cfgq.guards(f, b.id):
                ub = _upper_bound(atom_of(c, t), lambda e: fld(e, "message_length"))
                if ub is not None and ub <= SIZE - 2:
                    room = "message_length <= %d" % ub
            if room is None:
                # the same fact reached over a join (`if (full) { flush; if (full) break; }`): must-analysis, the fact is made
                # on an edge whose condition bounds message_length and lost at a store to message_length
                def tr(blk, st, f=f):
                    for e in blk.el:
                        for x in walk(e, True):
                            if x.get("k") == "Asg" and fld(x["L"], "message_length"):
                                st = False
                    return st

                def ed(blk, idx, sid, st, f=f):
                    c = f.branch_cond(blk)
                    if c is None or len(blk.succ) < 2:
                        return st
                    ub = _upper_bound(atom_of(c, idx == 0), lambda e: fld(e, "message_length"))
                    return True if (ub is not None and ub <= SIZE - 2) else st
                ins = solve(f, False, tr, ed, lambda a_, b_: a_ and b_)
                if ins.get(b.id):
                    room = "message_length <= %d on every way here" % (SIZE - 2)
            run.ob("C14-f", "mark-after-queue:%s:%d" % (f.name, j), room is not None, "`%s` under `%s`: the two bytes of IAC DM fit, so the byte marked is the DATA MARK" % (show(n)[:50], room) if room else
                   "`%s` (line %s) is not under a test that the ring has room for the reply: when it does not fit, the helper drops it and the mark lands on the last byte of ordinary output, which is then sent as urgent data and missing from the client's stream" % (show(n)[:50], n.get("l")),
                   f.file, n.get("l"), f.name, what="%s marks a byte as the telnet DATA MARK without knowing that the DATA MARK was queued" % f.name)
    run.need(nf >= 1, "stores of message_length into out_of_band (found %d)" % nf)
