"""C14-a — every byte put into a connection's output ring has a free slot (interprocedural slack analysis).

Slack = MESSAGE_BUF_SIZE - message_length.  A forward dataflow carries a lower bound of the slack through every
function of src/comm.c that puts bytes into message_buf, directly or through helpers:

  tests      message_length == K / != K / < K / <= K / + N <= K ... refine the bound on their edges
  put        a store into message_buf[] needs slack >= 1 and (with its message_length++) consumes one
  flush      flush_message() only ever lowers message_length: the bound survives it
  helpers    a function whose own stores are not covered by its own tests ("raw put") moves the obligation to its
             call sites: the caller's bound must cover the puts of one call.  A function that tests the ring and
             returns an int ("room" helper) is summarised per sign of its result, with integer arguments bound to
             the constants the call site passes; `r = room(..)` followed by tests of r selects the summary
  partition  when an argument is `A ? c1 : c2`, the analysis is split on A and a later branch on the same A is
             resolved per half (CR LF needs two slots exactly when the character is a newline)

Stores must also sit at message_producer and be followed by the modular advance and message_length++."""
import cfgq
from core import rel
from dataflow import solve
from facts import strip, show, walk, const_val, atom_of
from stale import implied_atoms

IREC = ("interactive_s", "interactive_t")
CAP = 4


def fld(e, name=None):
    e = strip(e)
    if isinstance(e, dict) and e.get("k") == "Mem" and e.get("rec") in IREC and (name is None or e.get("f") == name):
        return e.get("f")
    return None


def is_ring_store(n):
    return n.get("k") == "Asg" and strip(n["L"]).get("k") == "Sub" and fld(strip(n["L"])["b"], "message_buf")


class Ring:
    def __init__(self, prog, unit, SIZE):
        self.prog, self.unit, self.SIZE = prog, unit, SIZE
        self.funcs = {f.name: f for f in unit.funcs.values() if f.file.endswith("comm.c")}
        self.direct = {name for name, f in self.funcs.items() if any(is_ring_store(n) for b, i, n in f.nodes())}
        self.summ_cache = {}
        self.raw = {}     # raw-put helpers: name -> puts per call
        self.events = []  # (function, kind, node, lb, detail)

    # ---- length tests
    def len_lb(self, c, truth, consts):
        """lower bound of the slack implied by one atom, or None"""
        op, l, r = atom_of(c, truth)
        if op in ("true", "false"):
            return None

        def lin(e):
            """message_length + k  ->  k ;  otherwise None"""
            e = strip(e)
            if fld(e, "message_length"):
                return 0
            if e.get("k") == "Bin" and e.get("op") in ("+", "-"):
                a, b = strip(e["L"]), strip(e["R"])
                kb = self.cval(b, consts)
                ka = self.cval(a, consts)
                if fld(a, "message_length") and kb is not None:
                    return kb if e["op"] == "+" else -kb
                if fld(b, "message_length") and ka is not None and e["op"] == "+":
                    return ka
            return None
        for x, y, o in ((l, r, op), (r, l, {"<": ">", ">": "<", "<=": ">=", ">=": "<=", "==": "==", "!=": "!="}[op])):
            k = lin(x)
            v = self.cval(y, consts)
            if k is None or v is None:
                continue
            # message_length + k  o  v      slack = SIZE - message_length
            if o == "<=":
                return self.SIZE - (v - k)
            if o == "<":
                return self.SIZE - (v - k) + 1
            if o == "==":
                return self.SIZE - (v - k)
            if o == "!=":
                return ("ne", self.SIZE - (v - k))
        return None

    def cval(self, e, consts):
        v = const_val(e)
        if v is not None:
            return v
        e = strip(e)
        if e.get("k") == "Ref" and e.get("d") == "param" and e.get("n") in consts:
            return consts[e.get("n")]
        if e.get("k") == "Bin" and e.get("op") in ("+", "-"):
            a, b = self.cval(e["L"], consts), self.cval(e["R"], consts)
            if a is not None and b is not None:
                return a + b if e["op"] == "+" else a - b
        return None

    # ---- one function
    def run_function(self, f, entry_lb, consts, record=None):
        """worlds: {(atomtext|None, truth|None, rvvar|None, rvclass|None): lb}.  Returns (ins, returns) with
        returns = [(class, lb)]"""
        R = self

        def put(world_lb):
            return max(world_lb - 1, 0)

        def transfer(rec):
            def t(blk, st):
                for i, e in enumerate(blk.el):
                    for n in walk(e, True):
                        k = n.get("k")
                        if is_ring_store(n):
                            if rec is not None:
                                rec.append(("store", blk, i, n, min(st.values()) if st else 0))
                        elif k == "Un" and n.get("op") == "++" and fld(n["e"], "message_length"):
                            st = {w: max(lb - 1, 0) for w, lb in st.items()}
                        elif k == "Asg" and fld(n["L"], "message_length"):
                            if n.get("op") == "-=":
                                pass
                            else:
                                st = {w: 0 for w in st}
                        elif k in ("Un", "Asg") and (strip(n["e"] if k == "Un" else n["L"]).get("k") == "Ref") and (k == "Asg" or n.get("op") in ("++", "--")):
                            # a local that a partition atom mentions changes: merge the halves
                            nm = strip(n["e"] if k == "Un" else n["L"]).get("n")
                            vid = strip(n["e"] if k == "Un" else n["L"]).get("id")
                            new = {}
                            for (atxt, tr_, rv, rc), lb in st.items():
                                if atxt is not None and nm and nm in atxt:
                                    atxt, tr_ = None, None
                                if rv is not None and rv == vid and not (k == "Asg" and strip(n["R"]).get("k") == "Call"):
                                    rv, rc = None, None
                                key = (atxt, tr_, rv, rc)
                                new[key] = min(new.get(key, CAP), lb)
                            st = new
                            if k == "Asg" and n.get("op") == "=" and strip(n["R"]).get("k") == "Call":
                                st = call(blk, i, strip(n["R"]), st, rec, vid)
                        elif k == "Decl":
                            for v in n.get("vars", []):
                                if "init" in v and strip(v["init"]).get("k") == "Call":
                                    st = call(blk, i, strip(v["init"]), st, rec, v.get("id"))
                        elif k == "Call":
                            st = call(blk, i, n, st, rec, None)
                return st
            return t

        handled_calls = set()

        def call(blk, i, n, st, rec, resvar):
            if id(n) in handled_calls and resvar is None:
                return st
            handled_calls.add(id(n))
            fn = n.get("fn")
            if fn == "flush_message" or fn not in R.funcs:
                # outside comm.c nothing appends to the ring except through add_message & co (handled by name below)
                if fn in ("add_message", "add_vmessage", "tell_object", "receive_snoop"):
                    return {w: 0 for w in st}
                return st
            g = R.funcs[fn]
            if fn in R.raw:
                need = R.raw[fn]
                if rec is not None:
                    rec.append(("putcall", blk, i, n, min(st.values()) if st else 0, need))
                return {w: max(lb - need, 0) for w, lb in st.items()}
            if fn in R.direct or R.appends(fn):
                return {w: 0 for w in st}
            # room helper?  int function of comm.c that looks at message_length
            if any(fld(x, "message_length") for b2, i2, x in g.nodes()) and g.rt in ("int", "_Bool"):
                new = {}
                for (atxt, tr_, rv, rc), lb in st.items():
                    # argument constants, partitioning on a conditional argument
                    variants = [((atxt, tr_), {})]
                    for p, a in zip(g.params or [], n.get("args", [])):
                        a0 = strip(a)
                        v = const_val(a0)
                        if v is not None:
                            for _, cs in variants:
                                cs[p.get("n")] = v
                        elif a0.get("k") == "Cond" and const_val(a0.get("a")) is not None and const_val(a0.get("b")) is not None:
                            ctxt = show(strip(a0["c"]))
                            nv = []
                            for (at2, tr2), cs in variants:
                                if at2 is None or at2 == ctxt:
                                    for truth in ((True, False) if at2 is None else (tr2,)):
                                        c2 = dict(cs)
                                        c2[p.get("n")] = const_val(a0["a"]) if truth else const_val(a0["b"])
                                        nv.append(((ctxt, truth), c2))
                                else:
                                    c2 = dict(cs)
                                    c2[p.get("n")] = min(const_val(a0["a"]), const_val(a0["b"]))
                                    nv.append(((at2, tr2), c2))
                            variants = nv
                    for (at2, tr2), cs in variants:
                        for cls, lb2 in R.summary(g, lb, cs):
                            key = (at2, tr2, resvar, cls if resvar is not None else None)
                            new[key] = min(new.get(key, CAP), lb2)
                return new or st
            return st

        def edge(blk, idx, s, st):
            c = f.branch_cond(blk)
            if c is None or idx > 1:
                return st
            truth = idx == 0
            out = {}
            for (atxt, tr_, rv, rc), lb in st.items():
                feasible = True
                for a, t in implied_atoms(c, truth):
                    a0 = strip(a)
                    if atxt is not None and show(a0) == atxt and t != tr_:
                        feasible = False
                        break
                    # tests of the result variable of a room helper
                    if rv is not None:
                        op, l, r = atom_of(a0, t)
                        l0 = strip(l)
                        if op in ("true", "false") and l0.get("k") == "Ref" and l0.get("id") == rv:
                            if (op == "true" and rc == "zero") or (op == "false" and rc in ("pos", "neg")):
                                feasible = False
                                break
                        elif l0.get("k") == "Ref" and l0.get("id") == rv and const_val(r) is not None:
                            k0 = const_val(r)
                            sample = {"pos": 1, "zero": 0, "neg": -1}.get(rc)
                            if sample is not None:
                                holds = {"<": sample < k0, ">": sample > k0, "<=": sample <= k0, ">=": sample >= k0, "==": sample == k0, "!=": sample != k0}[op]
                                if not holds and k0 in (0, 1, -1):
                                    feasible = False
                                    break
                    v = R.len_lb(a0, t, consts)
                    if v is not None:
                        if isinstance(v, tuple):
                            if lb == v[1]:
                                lb = lb + 1
                        elif v > lb:
                            lb = min(v, CAP)
                if feasible:
                    out[(atxt, tr_, rv, rc)] = min(out.get((atxt, tr_, rv, rc), CAP), lb)
            return out or None

        def join(a, b):
            out = dict(a)
            for k, v in b.items():
                out[k] = min(out[k], v) if k in out else v
            return out
        init = {(None, None, None, None): min(entry_lb, CAP)}
        ins = solve(f, init, transfer(None), edge, join)
        rets = []
        tr = transfer(record)
        for bid in sorted(f.reachable(), reverse=True):
            if bid not in ins:
                continue
            handled_calls.clear()
            st = tr(f.blocks[bid], ins[bid])
            for e in f.blocks[bid].el:
                for n in walk(e, True):
                    if n.get("k") == "Return":
                        lb = min(st.values()) if st else 0
                        v = n.get("e")
                        cv = const_val(v) if v is not None else None
                        if cv is not None:
                            rets.append(("pos" if cv > 0 else ("zero" if cv == 0 else "neg"), lb))
                        elif v is not None:
                            # boolean of a ring test: positive exactly when it holds
                            lbt = R.len_lb(v, True, consts)
                            lbf = R.len_lb(v, False, consts)
                            rets.append(("pos", max(lb, lbt) if isinstance(lbt, int) else lb))
                            rets.append(("zero", max(lb, lbf) if isinstance(lbf, int) else lb))
                        else:
                            rets.append(("void", lb))
        return ins, rets

    def summary(self, g, entry_lb, consts):
        key = (g.name, entry_lb, tuple(sorted(consts.items())))
        if key not in self.summ_cache:
            self.summ_cache[key] = [("pos", 0), ("zero", 0), ("neg", 0)]   # recursion guard
            ins, rets = self.run_function(g, entry_lb, consts)
            out = {}
            for cls, lb in rets:
                out[cls] = min(out.get(cls, CAP), lb)
            self.summ_cache[key] = sorted(out.items())
        return self.summ_cache[key]

    def appends(self, fn, seen=None):
        """does fn (transitively, inside comm.c) put bytes into a ring?"""
        seen = seen or set()
        if fn in seen or fn not in self.funcs:
            return False
        seen.add(fn)
        if fn in self.direct:
            return True
        return any(self.appends(n.get("fn"), seen) for b, i, n in self.funcs[fn].calls() if n.get("fn"))


def check(run, prog, SIZE):
    comm = prog.unit("src/comm.c")
    ring = Ring(prog, comm, SIZE)
    run.need(ring.direct, "functions storing into message_buf")
    # classify the functions with direct stores: self-sufficient, or raw-put helpers
    results = {}
    for name in sorted(ring.direct):
        f = ring.funcs[name]
        rec = []
        ring.run_function(f, 0, {}, rec)
        stores = [r for r in rec if r[0] == "store"]
        if stores and all(r[4] == 0 for r in stores) and not any(b for b in f.reachable() if f.branch_cond(b) is not None and any(fld(x, "message_length") for x in walk(f.branch_cond(b)))):
            # no ring test of its own: a raw put; count the puts of one call (no loops allowed around them)
            loops = any(f.dominates(b.id, p) for kind, b, i, n, lb in stores for p in b.preds if p in f.reachable())
            ring.raw[name] = len(stores) if not loops else CAP + 1
        results[name] = rec
    run.extra["raw_put_helpers"] = dict(ring.raw)
    shapes = {}
    # now every function that puts, directly or through raw helpers
    users = set(ring.direct) | {name for name, f in ring.funcs.items() if any(n.get("fn") in ring.raw for b, i, n in f.calls())}
    for name in sorted(users):
        f = ring.funcs[name]
        run.saw(f)
        rec = []
        ring.summ_cache.clear()
        ring.run_function(f, 0, {}, rec)
        ns = 0
        for j, r in enumerate([x for x in rec if x[0] == "store"]):
            kind, blk, i, n, lb = r
            ns += 1
            idx = strip(strip(n["L"])["i"])
            at_prod = fld(idx, "message_producer") is not None
            adv = ln = False
            for e in blk.el[i + 1:]:
                stop = False
                for m in walk(e, True):
                    if m.get("k") == "Asg" and fld(m["L"], "message_producer"):
                        rr = strip(m["R"])
                        if rr.get("k") == "Bin" and rr.get("op") == "%" and const_val(rr["R"]) == SIZE:
                            a = strip(rr["L"])
                            if a.get("k") == "Bin" and a.get("op") == "+" and fld(a["L"], "message_producer") and const_val(a["R"]) == 1:
                                adv = True
                    if m.get("k") == "Un" and m.get("op") == "++" and fld(m["e"], "message_length"):
                        ln = True
                    if is_ring_store(m):
                        stop = True
                if stop:
                    break
            inst = "store:%s:%d" % (name, j)
            if name in ring.raw:
                ok = at_prod and adv and ln
                run.ob("C14-a", inst, ok, "%s - raw put helper (no ring test of its own; its %d call site(s) must provide the free slot); at producer: %s; modular advance: %s; length++: %s" % (
                    show(n), sum(1 for g in ring.funcs.values() for b2, i2, n2 in g.calls(name)), at_prod, adv, ln), f.file, n.get("l"), name,
                    what="%s: ring store %s (at producer %s, advance %s, length++ %s)" % (name, show(n), at_prod, adv, ln))
            else:
                ok = at_prod and lb >= 1 and adv and ln
                run.ob("C14-a", inst, ok, "%s - at producer: %s; free slots >= %d; modular advance: %s; length++: %s" % (show(n), at_prod, lb, adv, ln), f.file, n.get("l"), name,
                       what="%s: ring store %s (at producer %s, slack>=%d, advance %s, length++ %s)" % (name, show(n), at_prod, lb, adv, ln))
        for j, r in enumerate([x for x in rec if x[0] == "putcall"]):
            kind, blk, i, n, lb, need = r
            ns += 1
            run.ob("C14-a", "put-call:%s:%s:%d" % (name, n.get("fn"), j), lb >= need, "%s() puts %d byte(s); free slots established here >= %d" % (n.get("fn"), need, lb), f.file, n.get("l"), name,
                   what="%s calls %s() with only %d free slot(s) established but it stores %d byte(s): with the ring one short of full the oldest unsent byte is overwritten" % (name, n.get("fn"), lb, need))
        tests = sorted({const_val(atom_of(f.branch_cond(b), True)[2]) for b in f.reachable()
                        if f.branch_cond(b) is not None and atom_of(f.branch_cond(b), True)[0] in ("==", "!=") and fld(atom_of(f.branch_cond(b), True)[1], "message_length")
                        and const_val(atom_of(f.branch_cond(b), True)[2]) is not None})
        shapes[name] = (ns, [t for t in tests if t >= SIZE - 4])
    return shapes, ring
