"""C15 — file access is confined to the mudlib and mediated by the master.

C15-a  every file-system sink's path argument is, on every path, derived from a
       non-NULL-tested check_valid_path() result (write flag for mutating sinks),
       legal_path()-guarded, driver-internal, or a helper parameter whose every
       caller passes such a value (decided inter-procedurally).
C15-b  compile-time paths: inc_open / set_inc_list / load_object.
C15-c  check_valid_path returns non-NULL only after the master apply and legal_path.
Scope: all units (a sink anywhere counts), both tiers."""
import os

import facts
import cfgq
import pathprov
from pathprov import Analysis, SINKS, I, L, N
from facts import strip, show, walk, const_val

# driver-internal sinks: function -> reason (path never influenced by LPC code)
INTERNAL_FUNCS = {
    "rc.cpp": "configuration file named on the command line",
    "main.c": "command line / configuration handling before the mudlib runs",
    "logger.c": "log file name from configuration",
}

# ('NX', t): text with provenance t that did not exist when stat()ed on this path; opening it for
# reading fails (or finds a file created meanwhile inside the same name), so it is accepted for
# read/metadata sinks only; for mutating sinks the inner provenance decides.

ACCEPT_ALWAYS = {I, L, N}


from core import rel  # noqa: E402


def acceptable(tag, need):
    """need: 'r' (open for reading), 'w' (mutating), 'm' (metadata probe)."""
    if tag in ACCEPT_ALWAYS:
        return True
    if tag[0] == "NX":
        return True if need in ("r", "m") else acceptable(tag[1], need)
    if tag[0] == "V":
        if need in ("r", "m"):
            return True
        return tag[1] == "w"
    if tag[0] == "D":
        return True
    return False


def describe(tags):
    out = []
    for t in sorted(tags, key=str):
        if t[0] == "V":
            out.append("check_valid_path(%s)" % (t[1],))
        elif t[0] == "Vn":
            out.append("check_valid_path(%s) not NULL-tested" % (t[1],))
        elif t[0] == "P":
            out.append("parameter#%d" % t[1])
        elif t[0] == "U":
            out.append("UNVALIDATED:" + t[1])
        elif t[0] == "D":
            out.append("dotdot-scanned parameter#%d" % t[1])
        else:
            if t[0] == "NX":
                out.append("stat()-failed name of " + describe([t[1]]))
            else:
                out.append({"I": "internal", "L": "legal_path-guarded", "N": "inc_lexically_normal"}[t[0]])
    return "{" + ", ".join(out) + "}"


class StatAwareAnalysis(Analysis):
    """Adds the one branch idiom load_object relies on: on the edge where
    stat(name) == -1 holds, `name` did not exist (tag NX)."""

    def edge(self, blk, idx, succ, st):
        st = super().edge(blk, idx, succ, st)
        c = self.f.branch_cond(blk)
        if c is None:
            return st
        truth = idx == 0
        c, truth = facts.normalize_cond(c, truth)
        c0 = strip(c)
        if c0.get("k") == "Bin" and c0.get("op") in ("==", "!="):
            lhs, rhs = strip(c0["L"]), c0["R"]
            if lhs.get("k") == "Call" and lhs.get("fn") in ("stat", "lstat") and const_val(rhs) == -1:
                failed = (c0["op"] == "==") == truth
                if failed:
                    vk = pathprov.var_key(lhs["args"][0])
                    if vk is not None and vk in st:
                        st = dict(st)
                        st[vk] = frozenset(t if t[0] == "NX" else ("NX", t) for t in st[vk])
        return st


PASS_THROUGH = {"make_shared_string", "string_copy", "alloc_cstring", "findstring"}


def dotdot_scan_params(f):
    """Parameters of f that are scanned for '..' by the loop idiom
       for (p = strchr(name,'.'); p; p = strchr(p+1,'.')) if (p[1]=='.') return -1;
    Returns {param index: dominating block id}."""
    out = {}
    # pointer locals assigned only from strchr(<param>, '.') or strchr(p+1,'.')
    src = {}
    ok = {}
    for b, i, n in f.nodes():
        if n.get("k") == "Asg" and n["op"] == "=":
            l = strip(n["L"])
            if l.get("k") == "Ref" and l.get("d") == "local" and l.get("t", "").endswith("char *"):
                r = strip(n["R"])
                key = l["id"]
                if r.get("k") == "Call" and r.get("fn") == "strchr" and const_val(r["args"][1]) == ord("."):
                    a0 = strip(r["args"][0])
                    if a0.get("k") == "Ref" and a0.get("d") == "param":
                        src[key] = a0.get("pi")
                        ok.setdefault(key, True)
                        continue
                    if a0.get("k") == "Bin" and a0["op"] == "+" and strip(a0["L"]).get("id") == key and const_val(a0["R"]) == 1:
                        ok.setdefault(key, True)
                        continue
                ok[key] = False
    tests = {}  # pointer local id -> test block
    for bid in f.reachable():
        blk = f.blocks[bid]
        c = f.branch_cond(blk)
        if c is None:
            continue
        c0 = strip(c)
        if c0.get("k") == "Bin" and c0.get("op") == "==" and const_val(c0["R"]) == ord("."):
            l = strip(c0["L"])
            if l.get("k") == "Sub" and const_val(l["i"]) == 1:
                base = strip(l["b"])
                key = base.get("id")
                if base.get("k") == "Ref" and ok.get(key) and key in src:
                    ts = blk.succ[0]
                    if ts is not None and any(e.get("k") == "Return" for e in f.blocks[ts].el):
                        tests[key] = bid
    # loop head: `p` tested for NULL, dominates the test, and every iteration passes the test
    for key, tb in tests.items():
        for bid in f.reachable():
            blk = f.blocks[bid]
            c = f.branch_cond(blk)
            if c is None:
                continue
            c0 = strip(c)
            if c0.get("k") == "Ref" and c0.get("id") == key and f.dominates(bid, tb) and blk.succ[0] is not None:
                if f.reach_avoiding([blk.succ[0]], lambda b, h=bid: b.id == h, avoid_blocks=[tb]) is None:
                    out[src[key]] = bid
    return out


def check(run, prog, tier):
    run.rule("C15-a", "every file-system sink takes a path that is check_valid_path-approved (non-NULL tested, write flag for mutating sinks), legal_path-guarded, driver-internal, or a helper parameter all of whose callers pass such a value", 45)
    run.rule("C15-a2", "every call site feeding a helper parameter that reaches a sink passes an approved path", 8)
    run.rule("C15-b", "compile-time paths: include dirs admitted by legal_path; inc_open scans the name for '..' before joining it to an include dir", 3)
    run.rule("C15-c", "check_valid_path: non-NULL result only after the (raising) master apply with (path, object, operation) and legal_path(result) true; master's 0 denies", 6)

    funcs = list(prog.functions())
    byname = prog.by_name()
    protos = {}
    for u in prog.units.values():
        for p in u.header["protos"]:
            protos.setdefault(p["fn"], p)

    run.need(byname.get("check_valid_path"), "function check_valid_path")
    run.need(byname.get("legal_path"), "function legal_path")

    # call index: callee -> [(caller func)]
    callers = {}
    has_sink = []
    for f in funcs:
        names = set()
        for b, i, n in f.nodes():
            if n.get("k") == "Call" and n.get("fn"):
                names.add(n["fn"])
        for n in names:
            callers.setdefault(n, []).append(f)
        if names & set(SINKS):
            # a repo function that *defines* a sink name (lib/port/symlink.c) is not a libc sink
            has_sink.append(f)
    run.call_sites = sum(len(v) for v in callers.values())

    # repo functions shadowing libc names are analysed as ordinary functions, and calls to them are still sinks.
    # pass A: return summaries (functions returning char* that hand out validated paths)
    ret_summ = {}
    for rnd in range(2):
        for f in funcs:
            if f.rt != "char *" or f.name in ("check_valid_path",):
                continue
            calls = {n.get("fn") for b, i, n in f.nodes() if n.get("k") == "Call"}
            if "check_valid_path" not in calls and not (calls & set(ret_summ)):
                # a file-local helper that only returns a pointer into (or equal to) one of its parameters - the last
                # component of a path, a pointer past a prefix - hands the parameter's provenance through
                if f.static and calls <= (pathprov.PURE | {"strchr", "strrchr", "strstr", "strpbrk"}):
                    a = StatAwareAnalysis(f, ret_summ, protos).run()
                    if a.returns and all(t[0] == "P" for t in a.returns):
                        ret_summ[f.name] = frozenset(a.returns)
                continue
            a = StatAwareAnalysis(f, ret_summ, protos).run()
            tags = {t for t in a.returns if t != I or True}
            # NULL constant returns carry tag I (integer 0); keep only informative summaries
            if any(t[0] in ("V", "Vn", "L") for t in tags):
                # a function that NULL-tests before returning yields V; NULL itself is 'I'
                ret_summ[f.name] = frozenset(t for t in tags)
    run.note("return summaries: " + ", ".join("%s -> %s" % (k, describe(v)) for k, v in ret_summ.items()))

    cache = {}

    # pointer parameters that every call site in the driver passes as literal 0 (e.g. load_object's pre_text,
    # used by the unit tests only): the non-NULL branch is infeasible in the analysed program
    null_params = {}
    for f in funcs:
        if f.static or not callers.get(f.name):
            continue
        cand = {p.get("pi") for p in f.params if p.get("t", "").endswith("*")}
        if not cand:
            continue
        for g in callers[f.name]:
            for b, i, n in g.calls(f.name):
                for k in list(cand):
                    if k >= len(n["args"]) or const_val(n["args"][k]) != 0:
                        cand.discard(k)
        if cand:
            null_params[f.name] = cand
    run.note("parameters NULL at every call site: " + ", ".join("%s#%s" % (k, sorted(v)) for k, v in sorted(null_params.items())))

    def analyse(f):
        key = (f.file, f.name)
        if key not in cache:
            cache[key] = StatAwareAnalysis(f, ret_summ, protos, null_params=null_params.get(f.name, ())).run()
            run.saw(f)
        return cache[key]

    # requirements on parameters: (func name, k) -> {need: [origin description]}
    reqs = {}
    worklist = []

    def add_req(f, k, need, origin):
        key = (f.name, k)
        d = reqs.setdefault(key, {})
        if need not in d:
            d[need] = origin
            worklist.append((f, k, need, origin))

    sink_records = []  # (f, ordinal, call, ai, need, tags)
    for f in has_sink:
        if os.path.basename(f.file) in INTERNAL_FUNCS:
            a = analyse(f)
            cnt = {}
            for blk, idx, c, ai, need, tags in a.sinks:
                o = cnt.get(c["fn"], 0)
                cnt[c["fn"]] = o + 1
                inst = "sink:%s:%s:%s:%d:arg%d" % (rel(f.file), f.name, c["fn"], o // len(SINKS[c["fn"]][0]), ai)
                run.ob("C15-a", inst, True, "driver-internal unit: " + INTERNAL_FUNCS[os.path.basename(f.file)], f.file, c.get("l"), f.name)
            continue
        a = analyse(f)
        scan = dotdot_scan_params(f)
        cnt = {}
        for blk, idx, c, ai, need, tags in a.sinks:
            o = cnt.get((c["fn"], ai), 0)
            cnt[(c["fn"], ai)] = o + 1
            inst = "sink:%s:%s:%s:%d:arg%d" % (rel(f.file), f.name, c["fn"], o, ai)
            # '..'-scanned parameter joined behind an internal/legal prefix
            tags2 = set()
            for t in tags:
                if t[0] == "P" and t[1] in scan and f.dominates(scan[t[1]], blk.id) and (tags & {I, L}):
                    tags2.add(("D", t[1]))
                else:
                    tags2.add(t)
            sink_records.append((f, inst, c, ai, need, frozenset(tags2)))

    pending = {}  # inst -> record for sinks depending on params

    def decide(tags, need):
        """-> (ok, bad tags, param tags)"""
        if not tags:
            return False, [("U", "no known origin on some path")], []
        def inner(t):
            return inner(t[1]) if t[0] == "NX" and need == "w" else t
        tags = {inner(t) for t in tags}
        bad = [t for t in tags if t[0] != "P" and not acceptable(t, need)]
        ps = [t for t in tags if t[0] == "P"]
        return (not bad), bad, ps

    param_sinks = {}  # (fname,k,need) -> [inst]
    results = {}
    for f, inst, c, ai, need, tags in sink_records:
        ok, bad, ps = decide(tags, need)
        results[inst] = {"f": f, "c": c, "ok": ok, "bad": bad, "ps": ps, "need": need, "tags": tags, "callers_bad": []}
        for t in ps:
            add_req(f, t[1], need, inst)
            param_sinks.setdefault((f.name, t[1], need), []).append(inst)

    # propagate parameter requirements to call sites
    call_results = []
    seen_sites = set()

    def propagate():
      while worklist:
          f, k, need, origin = worklist.pop()
          sites = callers.get(f.name, [])
          for g in sites:
              if (g.file, g.name) == (f.file, f.name) and False:
                  continue
              a = analyse(g)
              ordn = 0
              for blk, idx, c, argtags in a.calls:
                  if c.get("fn") != f.name:
                      continue
                  o = ordn
                  ordn += 1
                  if k >= len(argtags):
                      continue
                  site_key = (g.file, g.name, f.name, o, k, need)
                  if site_key in seen_sites:
                      continue
                  seen_sites.add(site_key)
                  tags = argtags[k]
                  ok, bad, ps = decide(tags, need)
                  inst = "call:%s:%s:%s:%d:arg%d:%s" % (rel(g.file), g.name, f.name, o, k, need)
                  call_results.append((inst, g, c, ok, bad, ps, need, tags, origin))
                  for t in ps:
                      add_req(g, t[1], need, origin)

    propagate()
    for f, inst, c, ai, need, tags in sink_records:
        r = results[inst]
        nm = c["fn"]
        if r["ok"]:
            how = describe(tags)
            if r["ps"]:
                how += " (parameter obligations checked at call sites: C15-a2)"
            run.ob("C15-a", inst, True, "%s arg %d need=%s provenance %s" % (nm, ai, need, how), f.file, c.get("l"), f.name)
        else:
            run.ob("C15-a", inst, False, "%s(%s) need=%s reached with %s" % (nm, show(c["args"][ai]), need, describe(r["bad"])),
                   f.file, c.get("l"), f.name, what="%s in %s reached with an unvalidated path" % (nm, f.name))
    def emit_calls(lst):
        for inst, g, c, ok, bad, ps, need, tags, origin in lst:
            if ok:
                run.ob("C15-a2", inst, True, "passes %s to %s (sink %s)" % (describe(tags), c["fn"], origin), g.file, c.get("l"), g.name)
            else:
                run.ob("C15-a2", inst, False, "passes %s to %s which reaches sink %s (need=%s)" % (describe(bad), c["fn"], origin, need),
                       g.file, c.get("l"), g.name, what="%s passes an unvalidated path to %s" % (g.name, c["fn"]))

    emit_calls(call_results)
    n_emitted = len(call_results)

    # ---- C15-b: include dirs admitted by legal_path
    sil = run.need(prog.func("set_inc_list"), "function set_inc_list")
    run.saw(sil)

    class IncAnalysis(StatAwareAnalysis):
        stores = []

        def elem(self, st, e, blk, idx, record):
            if record:
                for n in walk(e, True):
                    if n.get("k") == "Asg" and n["op"] == "=":
                        l = strip(n["L"])
                        if l.get("k") == "Sub" and strip(l["b"]).get("n") == "inc_list":
                            r = strip(n["R"])
                            if r.get("k") == "Call" and r.get("fn") in PASS_THROUGH:
                                tg = self.tags(r["args"][0], st)
                            elif const_val(r) == 0:
                                tg = frozenset([I])
                            else:
                                tg = self.tags(r, st)
                            IncAnalysis.stores.append((n, tg))
            return super().elem(st, e, blk, idx, record)
    IncAnalysis.stores = []
    IncAnalysis(sil, ret_summ, protos).run()
    # any other writer of inc_list elements?
    other = []
    for f in funcs:
        if f.name == "set_inc_list":
            continue
        for b, i, n in f.nodes():
            if n.get("k") == "Asg":
                l = strip(n["L"])
                if l.get("k") == "Sub" and strip(l["b"]).get("n") == "inc_list" and strip(l["b"]).get("d") != "local":
                    other.append((f, n))
    for j, (n, tg) in enumerate(IncAnalysis.stores):
        ok = bool(tg) and all(t in (I, L) for t in tg)
        run.ob("C15-b", "incdir:set_inc_list:store:%d" % j, ok, "inc_list[...] = %s with provenance %s" % (show(n["R"]), describe(tg)),
               sil.file, n.get("l"), "set_inc_list", what="include directory stored without legal_path")
    for f, n in other:
        run.ob("C15-b", "incdir:%s:store" % f.name, False, "inc_list element written outside set_inc_list: " + show(n), f.file, n.get("l"), f.name)
    # writers of program_t.name (trusted as internal text by save_binary)
    nwriters = 0
    for f in funcs:
        hit = [n for b, i, n in f.nodes() if n.get("k") == "Asg" and strip(n["L"]).get("k") == "Mem"
               and (strip(n["L"]).get("rec"), strip(n["L"]).get("f")) in pathprov.Tables.INTERNAL_FIELDS]
        if not hit:
            continue
        a = analyse(f)
        for n in hit:
            nwriters += 1
            r = strip(n["R"])
            if r.get("k") == "Call" and r.get("fn") in PASS_THROUGH:
                r = r["args"][0]
            # evaluate with the entry state: the names involved are parameters/globals, not reassigned locals
            init = {("v", p["n"], p.get("id")): frozenset([("P", p.get("pi"))]) for p in f.params}
            tg = a.tags(r, init)
            ok = bool(tg) and all(t == I or t[0] == "P" for t in tg)
            run.ob("C15-b", "progname:%s:%s" % (rel(f.file), f.name), ok, "%s with provenance %s" % (show(n), describe(tg)), f.file, n.get("l"), f.name,
                   what="program name (used to build the saved-binary path) assigned from unvalidated text")
            for t in tg:
                if t[0] == "P":
                    add_req(f, t[1], "w", "progname:" + f.name)
    propagate()
    emit_calls(call_results[n_emitted:])
    io = run.need(prog.func("inc_open"), "function inc_open")
    scan = dotdot_scan_params(io)
    pidx = [p.get("pi") for p in io.params if p["n"] == "name"]
    run.ob("C15-b", "incopen:dotdot-scan", bool(pidx) and pidx[0] in scan,
           "inc_open scans parameter 'name' for '..' (return -1) before the include-dir search" if pidx and pidx[0] in scan else "no '..' scan of the include name found in inc_open",
           io.file, io.line, "inc_open", what="inc_open joins the include name to an include dir without scanning it for '..'")

    # ---- C15-c
    import inline as _inl
    cvp = _inl.inlined(byname["check_valid_path"][0], 2, 40, True)
    run.saw(cvp)
    a = StatAwareAnalysis(cvp, {}, protos).run()
    APPLIES = ("apply_master_ob", "safe_apply_master_ob", "apply", "safe_apply")
    WFLAG = cvp.params[3].get("n") if len(cvp.params or []) > 3 else "writeflg"     # the write flag is the fourth parameter

    def apply_name(e, depth=0):
        """(name asked when the write flag is set, name asked when it is clear) for the expression handed to the apply;
        None where unknown.  Follows `flag ? W : R` and a local that receives such a value."""
        e0 = strip(e)
        if facts.any_in_macro(e0, "APPLY_VALID_WRITE") and not facts.any_in_macro(e0, "APPLY_VALID_READ"):
            return ("W", "W")
        if facts.any_in_macro(e0, "APPLY_VALID_READ") and not facts.any_in_macro(e0, "APPLY_VALID_WRITE"):
            return ("R", "R")
        if e0.get("k") == "Cond" and depth < 3:
            c0 = strip(e0["c"])
            neg = False
            while c0.get("k") == "Un" and c0.get("op") == "!":
                c0, neg = strip(c0["e"]), not neg
            if c0.get("k") == "Ref" and c0.get("d") == "param" and c0.get("n") == WFLAG:
                a1, b1 = apply_name(e0["a"], depth + 1), apply_name(e0["b"], depth + 1)
                if a1 and b1:
                    return (b1[0], a1[1]) if neg else (a1[0], b1[1])
            return None
        if e0.get("k") == "Ref" and e0.get("d") == "local" and depth < 3:
            defs = [(b2, n2["R"]) for b2, i2, n2 in cvp.nodes() if n2.get("k") == "Asg" and n2.get("op") == "=" and strip(n2["L"]).get("k") == "Ref" and strip(n2["L"]).get("id") == e0.get("id")]
            defs += [(b2, v["init"]) for b2, i2, n2 in cvp.nodes() if n2.get("k") == "Decl" for v in n2.get("vars", ()) if v.get("id") == e0.get("id") and isinstance(v.get("init"), dict)]
            if len(defs) == 1:
                return apply_name(defs[0][1], depth + 1)
            if len(defs) == 2:
                # one store on each side of a test of the flag
                out = [None, None]
                for b2, r2 in defs:
                    nm = apply_name(r2, depth + 1)
                    for c, t, gb in cfgq.guards(cvp, b2.id):
                        c0 = strip(c)
                        if c0.get("k") == "Ref" and c0.get("n") == WFLAG and nm:
                            out[0 if t else 1] = nm[0 if t else 1]
                return tuple(out) if all(out) else None
        return None
    policy_calls = [(b, i, n) for b, i, n in cvp.calls(APPLIES) if n.get("args") and apply_name(n["args"][0]) is not None]
    run.need(policy_calls, "valid_read/valid_write apply in check_valid_path")
    apply_blocks = [b.id for b, i, n in policy_calls]
    swallowing = [n for b, i, n in policy_calls if n["fn"].startswith("safe_")]
    run.ob("C15-c", "cvp:apply:raising", not swallowing,
           "the policy apply is apply_master_ob: an error inside valid_read/valid_write unwinds the efun" if not swallowing else
           "%s swallows errors and returns 0, which check_valid_path treats as 'no policy defined: allow'" % swallowing[0]["fn"],
           cvp.file, (swallowing[0] if swallowing else policy_calls[0][2]).get("l"), cvp.name,
           what="check_valid_path: a valid_read/valid_write call that fails with an error counts as approval")
    nonnull_returns = []
    for b, i, e in cvp.elements():
        if e.get("k") == "Return" and "e" in e and const_val(e["e"]) != 0:
            nonnull_returns.append((b, i, e))
    run.need(nonnull_returns, "non-NULL return in check_valid_path")
    for j, (b, i, e) in enumerate(nonnull_returns):
        p = cvp.reach_avoiding([cvp.entry], lambda blk, bb=b: blk.id == bb.id, avoid_blocks=apply_blocks)
        run.ob("C15-c", "cvp:return%d:after-master-apply" % j, p is None,
               "every path to `%s` passes apply_master_ob" % show(e) if p is None else "path %s reaches `%s` without the master apply" % (p, show(e)),
               cvp.file, e.get("l"), cvp.name, what="check_valid_path can approve without asking the master")
    # returned value is legal_path-guarded
    rt = {t for t in a.returns if not (t == I)}
    run.ob("C15-c", "cvp:return:legal_path", rt <= {L} and bool(rt),
           "non-NULL results carry provenance %s" % describe(rt), cvp.file, cvp.line, cvp.name,
           what="check_valid_path returns a path that did not pass legal_path")
    # apply arguments: write flag selects valid_write / valid_read; 3 arguments pushed from the parameters
    wr_ok = rd_ok = False
    # per apply call: what is asked with the flag set / clear, taking the branch on the flag that leads to the call into account
    asked_w, asked_r = set(), set()
    for b, i, n in policy_calls:
        nm = apply_name(n["args"][0])
        three = const_val(n["args"][1]) == 3 if len(n["args"]) > 1 else False
        side = None
        for c, t, gb in cfgq.guards(cvp, b.id):
            c0 = strip(c)
            if c0.get("k") == "Ref" and c0.get("n") == WFLAG:
                side = t
        if side in (None, True):
            asked_w.add((nm[0], three))
        if side in (None, False):
            asked_r.add((nm[1], three))
    wr_ok = asked_w == {("W", True)}
    rd_ok = asked_r == {("R", True)}
    run.ob("C15-c", "cvp:apply:mode", wr_ok and rd_ok, "writeflg selects valid_write / valid_read with 3 arguments" if wr_ok and rd_ok else "write flag does not select valid_write/valid_read(3)",
           cvp.file, cvp.line, cvp.name, what="check_valid_path asks the wrong master function")
    pushes = []
    for b, i, n in cvp.calls():
        if n.get("fn") in ("copy_and_push_string", "push_object", "push_constant_string", "share_and_push_string", "push_malloced_string"):
            a0 = strip(n["args"][0])
            pushes.append((b.id, n["fn"], a0.get("pi") if a0.get("d") == "param" else None))
    want = [0, 1, 2]
    got = [p[2] for p in pushes]
    dom_ok = all(all(cvp.dominates(pb, ab) for ab in apply_blocks) for pb, _, _ in pushes)
    run.ob("C15-c", "cvp:apply:args", got == want and dom_ok, "pushes parameters %s (path, object, operation) before the apply" % got,
           cvp.file, cvp.line, cvp.name, what="check_valid_path does not pass (path, calling object, operation) to the master")
    # master's 0 denies
    deny_ok = False
    for blk in cvp.blocks.values():
        c = cvp.branch_cond(blk)
        if c is None:
            continue
        c0 = strip(c)
        if c0.get("k") == "Bin" and c0.get("op") == "==" and const_val(c0["R"]) == 0:
            l = strip(c0["L"])
            if l.get("k") == "Mem" and l.get("f") == "number":
                s = blk.succ[0]
                if s is not None:
                    p = cvp.reach_avoiding([s], lambda bb: any(bb.id == r[0].id for r in nonnull_returns))
                    deny_ok = p is None
    run.ob("C15-c", "cvp:deny-on-zero", deny_ok, "the edge `v->u.number == 0` cannot reach a non-NULL return" if deny_ok else "master's 0 does not lead to a NULL result",
           cvp.file, cvp.line, cvp.name, what="check_valid_path ignores the master's refusal")

    run.extra["sinks_total"] = len(sink_records)
    run.extra["helper_parameter_requirements"] = sorted("%s#%d" % k for k in reqs)
