"""C16 — save/restore: atomic saves, size/write agreement, no-clear restore (structural clauses;
round-trip equality and robustness on arbitrary text are not decided).

C16-a  atomic replace in save_object: all writes go to a stream opened on the temporary name; the only
       file-system operation on the final name is rename(tmp, final), reached only after fclose()
       succeeded and with success set; every failure path removes the temporary
C16-b  svalue_save_size and save_svalue are siblings: same tag cases; per tag the constant bytes
       written (+ terminator) fit the constant accounted; per-element delimiters match; callers
       allocate exactly the computed size
C16-c  safe_restore_svalue (no-clear restore) stores into the target only after a successful parse"""
import facts
import cfgq
from core import rel
from facts import strip, show, walk, const_val, normalize_cond, atom_of


def check(run, prog, tier):
    run.rule("C16-a", "save_object: stream opened on the temporary; writes use that stream; the final name appears only as rename()'s target, after a successful fclose and under `success`; failure paths unlink the temporary", 5)
    run.rule("C16-b", "svalue_save_size / save_svalue agree per tag (cases, constant overhead, per-element delimiters); save_object_recurse and save_variable allocate what svalue_save_size returned", 8)
    run.rule("C16-d", "top-level restore functions clear the parser's file-scope nesting state (save_svalue_depth) before every compound restore starts, or reset it on every path after one, success or error", 1)
    run.rule("C16-c", "safe_restore_svalue assigns *v only on the success path, after freeing the old value; every parse-error return precedes it", 2)

    unit = prog.unit("lib/lpc/object.c")
    so = run.need(unit.funcs.get("save_object"), "save_object")
    sor = run.need(unit.funcs.get("save_object_recurse"), "save_object_recurse")
    sv = run.need(unit.funcs.get("save_variable"), "save_variable")
    import inline as _inl
    # with small file-local helpers spliced in: a case body may live in a helper on either side
    ss = _inl.inlined(run.need(unit.funcs.get("svalue_save_size"), "svalue_save_size"))
    sw = _inl.inlined(run.need(unit.funcs.get("save_svalue"), "save_svalue"))
    srs = run.need(unit.funcs.get("safe_restore_svalue"), "safe_restore_svalue")
    for f in (so, sor, sv, ss, sw, srs):
        run.saw(f)

    # ---- C16-a
    import pathprov
    fops = [(b, i, n) for b, i, n in so.calls() if n.get("fn") in pathprov.SINKS]
    opens = [(b, i, n) for b, i, n in fops if n["fn"] in ("fopen", "open", "freopen")]
    run.need(opens, "fopen in save_object")
    tmpvar = show(strip(opens[0][2]["args"][0]))
    # the final name variable: assigned from check_valid_path
    final = None
    for b, i, n in so.nodes():
        if n.get("k") == "Asg" and strip(n["R"]).get("fn") == "check_valid_path":
            final = show(strip(n["L"]))
    run.need(final, "check_valid_path result in save_object")
    ok_open = all(show(strip(n["args"][0])) == tmpvar for b, i, n in opens) and tmpvar != final
    run.ob("C16-a", "open-temp", ok_open, "stream opened on %s (final name is %s)" % (tmpvar, final), so.file, opens[0][2].get("l"), "save_object", what="save_object opens the final save file for writing (a crash mid-save destroys the previous save)")
    # temp name derived from final name
    import re as _re0
    derived, whole, how = False, False, "no copy of %s into %s" % (final, tmpvar)
    for b, i, n in so.calls():
        fn = n.get("fn")
        if fn in ("snprintf", "sprintf") and show(strip(n["args"][0])) == tmpvar and any(show(strip(a)) == final for a in n["args"][2:]):
            derived = True
            fmt = next((strip(a).get("s") for a in n["args"][1:3] if strip(a).get("k") == "Str"), None)
            # a precision on the %s ("%.250s") cuts the approved name: what is opened then is another file
            whole = fmt is not None and not _re0.search(r"%[-0-9]*\.[0-9*]+s", fmt) and fn == "sprintf"
            how = "%s(\"%s\")" % (fn, fmt)
        elif fn in ("memcpy", "memmove", "strcpy", "stpcpy") and show(strip(n["args"][0])) == tmpvar and show(strip(n["args"][1])) == final:
            derived = True
            if fn in ("strcpy", "stpcpy"):
                whole = True
            else:
                ln = strip(n["args"][2])
                # the length is strlen(final), directly or through a local assigned from it
                def is_len(e):
                    e = strip(e)
                    if e.get("k") == "Call" and e.get("fn") == "strlen" and show(strip(e["args"][0])) == final:
                        return True
                    if e.get("k") == "Ref" and e.get("d") == "local":
                        return any(n2.get("k") == "Asg" and n2.get("op") == "=" and strip(n2["L"]).get("id") == e.get("id") and is_len(n2["R"]) and so.point_dominates((b2.id, i2), (b.id, i)) for b2, i2, n2 in so.nodes())
                    return False
                whole = is_len(ln)
            how = "%s(%s, %s, ..)" % (fn, tmpvar, final)
    run.ob("C16-a", "temp-derived", derived and whole, "%s is the whole approved name %s plus a suffix (%s)" % (tmpvar, final, how) if derived and whole else
           ("%s is built from a part of %s only (%s): for a long name the temporary is a different file, one nobody approved" % (tmpvar, final, how) if derived else how),
           so.file, so.line, "save_object", what="the temporary name is not the approved path plus a suffix")
    # every use of the final name in a file-system call is rename's second argument
    uses = []
    for b, i, n in fops:
        for ai, a in enumerate(n["args"]):
            if show(strip(a)) == final:
                uses.append((n["fn"], ai, n.get("l")))
    ok_uses = bool(uses) and all(fn == "rename" and ai == 1 for fn, ai, l in uses)
    run.ob("C16-a", "final-only-rename", ok_uses, "file-system calls naming the final file: %s" % uses, so.file, uses[0][2] if uses else so.line, "save_object",
           what="save_object touches the final save file other than by rename(): %s" % [u for u in uses if not (u[0] == "rename" and u[1] == 1)])
    ren = [(b, i, n) for b, i, n in fops if n["fn"] == "rename"]
    run.need(ren, "rename in save_object")
    rb, ri_, rn = ren[0]
    fcl = [(b, i, n) for b, i, n in so.calls("fclose")]
    g = [(strip(normalize_cond(c, t)[0]), normalize_cond(c, t)[1]) for c, t, B in cfgq.guards(so, rb.id)]
    under_success = any(e.get("n") == "success" and t for e, t in g)
    fclose_dom = any(so.point_dominates((b.id, i), (rb.id, ri_)) for b, i, n in fcl)
    # fclose failure clears success
    clr = False
    for b, i, n in fcl:
        c = so.branch_cond(b)
        if c is not None and any(x is n or show(x) == show(n) for x in walk(c)):
            op, l, r = atom_of(c, True)
            fail = so.blocks[b.id].succ[0] if op in ("<", "!=") else so.blocks[b.id].succ[1]
            if fail is not None and any(n2.get("k") == "Asg" and strip(n2["L"]).get("n") == "success" and const_val(n2["R"]) == 0 for e2 in so.blocks[fail].el for n2 in walk(e2)):
                clr = True
    run.ob("C16-a", "rename-after-fclose", under_success and fclose_dom and clr, "rename under `success` (%s), dominated by fclose (%s), fclose failure clears success (%s)" % (under_success, fclose_dom, clr), so.file, rn.get("l"), "save_object",
           what="save_object can rename a temporary whose data is not known to be on disk")
    # writes use the stream
    fvar = None
    for b, i, n in so.nodes():
        if n.get("k") == "Asg" and strip(n["R"]).get("fn") == "fopen":
            fvar = strip(n["L"]).get("n")
    wr_ok = True
    wr = []
    for f in (so, sor):
        for b, i, n in f.calls():
            if n.get("fn") in ("fprintf", "fwrite", "fputs", "fputc"):
                a = strip(n["args"][0] if n["fn"] == "fprintf" else n["args"][-1])
                wr.append((f.name, show(a)))
                if a.get("n") != fvar and not (f is sor and a.get("d") == "param"):
                    wr_ok = False
    passes = any(n.get("fn") == "save_object_recurse" and any(strip(a).get("n") == fvar for a in n["args"]) for b, i, n in so.calls())
    run.ob("C16-a", "writes-to-temp-stream", wr_ok and passes and bool(wr), "writes: %s; stream %s passed to save_object_recurse: %s" % (wr, fvar, passes), so.file, so.line, "save_object",
           what="save data is written to something other than the temporary's stream")
    # failure unlinks the temporary
    unl = [(b, i, n) for b, i, n in fops if n["fn"] in ("unlink", "remove") and show(strip(n["args"][0])) == tmpvar]
    fail_unl = any(any(e.get("n") == "success" and not t for e, t in [(strip(normalize_cond(c, t)[0]), normalize_cond(c, t)[1]) for c, t, B in cfgq.guards(so, b.id)]) for b, i, n in unl)
    run.ob("C16-a", "failure-unlinks-temp", fail_unl, "unlink(%s) on the !success branch: %s" % (tmpvar, fail_unl), so.file, so.line, "save_object", what="a failed save leaves its temporary behind")

    # the stream is closed on every way out once it was opened
    open_b = opens[0][0]
    oc = so.branch_cond(open_b)
    start = list(open_b.live_succ())
    if oc is not None:
        e0, t0 = normalize_cond(oc, True)
        if strip(e0).get("n") == fvar:
            # succ[0] is taken when `oc` is true; the stream exists on the edge where fvar is non-null
            start = [open_b.succ[0] if t0 else open_b.succ[1]]
    closing = {b.id for b, i, n in fcl}
    leak = so.reach_avoiding(start, lambda blk: so.exit in blk.live_succ() and not blk.nr, avoid_blocks=closing)
    run.ob("C16-a", "stream-closed-on-exit", leak is None, "every return after a successful fopen() passes fclose()" if leak is None else
           "path %s returns from save_object with the temporary stream still open (no fclose, the temporary stays behind)" % leak[:8], so.file, opens[0][2].get("l"), "save_object",
           what="save_object can return with the temporary's stream open")

    # ---- C16-b
    def case_regions(f):
        S = [bid for bid in f.reachable() if f.blocks[bid].term and f.blocks[bid].term["k"] == "SwitchStmt"]
        if not S:
            return {}
        # the switch on the value tag: the one with the most `case T_...` labels (a switch on a character inside one of
        # the cases is not it)
        def ntags(bid):
            return sum(1 for s in f.blocks[bid].live_succ() if f.blocks[s].label and f.blocks[s].label.get("k") == "case" and str(f.blocks[s].label.get("src") or "").startswith("T_"))
        S = max(S, key=lambda bid: (ntags(bid), -bid))
        out = {}
        for s in f.blocks[S].live_succ():
            lab = f.blocks[s].label
            name = (lab.get("src") if lab and lab.get("k") == "case" else "default") if lab else None
            if name is None:
                continue
            out[name] = cfgq.reach_set(f, [s], avoid_blocks=[S])
        return out
    rs, rw = case_regions(ss), case_regions(sw)
    tags_s = set(rs) - {"default"}
    tags_w = set(rw) - {"default"}
    run.ob("C16-b", "tags", tags_s == tags_w and bool(tags_s), "svalue_save_size cases %s; save_svalue cases %s" % (sorted(tags_s), sorted(tags_w)), ss.file, ss.line, "svalue_save_size",
           what="svalue_save_size and save_svalue disagree on the value tags they handle: %s" % sorted(tags_s ^ tags_w))

    def in_loop(f, bid, region):
        return bid in cfgq.reach_set(f, [s for s in f.blocks[bid].live_succ() if s in region], avoid_blocks=[b for b in f.reachable() if b not in region])

    for tag in sorted(tags_s & tags_w):
        if tag in ("T_NUMBER", "T_REAL"):
            continue
        # constant accounted: `return size + K` / `return K + size`
        K = None
        for bid in rs[tag]:
            for e in ss.blocks[bid].el:
                if e.get("k") == "Return" and "e" in e:
                    r = strip(e["e"])
                    if r.get("k") == "Bin" and r.get("op") == "+":
                        K = const_val(r["L"]) if const_val(r["L"]) is not None else const_val(r["R"])
        # constant char stores outside loops in the writer (+1 for the terminator it leaves behind)
        consts = 0
        per_iter = 0
        for bid in rw[tag]:
            loop = in_loop(sw, bid, rw[tag])
            for e in sw.blocks[bid].el:
                for n in walk(e, True):
                    if n.get("k") == "Asg" and n.get("op") == "=" and strip(n["L"]).get("k") == "Un" and strip(n["L"]).get("op") == "*" and const_val(n["R"]) not in (None, 0):
                        inner = strip(strip(n["L"])["e"])
                        if inner.get("k") == "Un" and inner.get("op") == "++":
                            if loop:
                                per_iter += 1
                            else:
                                consts += 1
        # per-element: number of recursive size calls per loop iteration
        calls_iter = 0
        for bid in rs[tag]:
            if in_loop(ss, bid, rs[tag]):
                for e in ss.blocks[bid].el:
                    calls_iter += sum(1 for n in walk(e, True) if n.get("k") == "Call" and n.get("fn") == "svalue_save_size")
        if tag == "T_STRING":
            # escape pairs are data, not overhead: each escaped char stores 2 and is accounted 2
            per_iter = 0
            calls_iter = 0
        ok = K is not None and consts + 1 <= K and per_iter <= max(calls_iter, per_iter if tag == "T_STRING" else calls_iter)
        run.ob("C16-b", "overhead:" + tag, ok, "%s: accounted constant %s; constant bytes written %d (+1 terminator); per element: %d delimiter store(s) vs %d accounted value(s)" % (tag, K, consts, per_iter, calls_iter),
               sw.file, sw.line_of_block(min(rw[tag])), "save_svalue", what="save_svalue writes more constant bytes for %s than svalue_save_size accounts (heap overflow in save_object/save_variable)" % tag)
    # default writer: tags without a case in save_svalue write nothing, size accounts a positive constant
    dflt = None
    for bid in rs.get("default", []):
        for e in ss.blocks[bid].el:
            if e.get("k") == "Return" and "e" in e:
                dflt = const_val(e["e"])
    run.ob("C16-b", "overhead:default", dflt is not None and dflt >= 1, "other tags: nothing written, %s byte(s) accounted" % dflt, ss.file, ss.line, "svalue_save_size")
    # callers
    for f in (sor, sv):
        size_var = None
        for b, i, n in f.nodes():
            if n.get("k") == "Asg" and strip(n["R"]).get("fn") == "svalue_save_size":
                size_var = strip(n["L"]).get("n")
        alloc = None
        for b, i, n in f.calls():
            if n.get("fn") in ("xalloc", "malloc", "new_string", "int_new_string", "DXALLOC"):
                alloc = n
        ok = False
        why = "no allocation from svalue_save_size"
        if size_var and alloc:
            a = strip(alloc["args"][0])
            if alloc["fn"] in ("new_string", "int_new_string"):
                ok = a.get("k") == "Bin" and a.get("op") == "-" and strip(a["L"]).get("n") == size_var and const_val(a["R"]) == 1
            else:
                ok = a.get("n") == size_var
            why = "%s allocates %s from %s = svalue_save_size(...)" % (f.name, show(alloc)[:50], size_var)
        run.ob("C16-b", "alloc:" + f.name, ok, why, f.file, f.line, f.name, what="%s does not allocate the size computed by svalue_save_size" % f.name)

    # ---- C16-d: the restore parser's file-scope nesting state is reset on every exit of a top-level restore
    COMPOUND = ("restore_array", "restore_mapping", "restore_class")
    tops = [f for f in unit.funcs.values() if f.file.endswith("object.c") and f.name not in COMPOUND and f.name not in ("restore_internal_size", "restore_size")
            and any(True for _ in f.calls(COMPOUND))]
    run.need(len(tops) >= 1, "top-level restore entry points")
    leaky = None
    for f in sorted(tops, key=lambda x: x.line):
        run.saw(f)
        resets = [bid for bid in f.reachable() if f.branch_cond(bid) is not None and strip(f.branch_cond(bid)).get("n") == "save_svalue_depth"]
        zero = any(n.get("k") == "Asg" and "save_svalue_depth" in show(n["L"]) and (const_val(n["R"]) == 0 or "= 0" in show(n)) for b, i, n in f.nodes())
        calls = [(b, i, n) for b, i, n in f.calls(COMPOUND)]
        bad = None
        for b, i, n in calls:
            p = f.reach_avoiding(b.live_succ() if b.id not in resets else [], lambda blk: f.exit in blk.live_succ() and not blk.nr, avoid_blocks=resets)
            if p is not None:
                bad = (n["fn"], p)
        # alternatively the state is cleared when a container restore starts: a plain `save_svalue_depth = 0` that
        # dominates every call of restore_array/mapping/class makes a leftover from an earlier error harmless
        entry = [(b2.id, i2) for b2, i2, n2 in f.nodes() if n2.get("k") == "Asg" and n2.get("op") == "=" and strip(n2["L"]).get("n") == "save_svalue_depth" and const_val(n2["R"]) == 0]
        entry_ok = bool(calls) and all(any(f.point_dominates(e, (b.id, i)) for e in entry) for b, i, n in calls)
        # a reset on the way out is enough only if nothing that changes the counter can leave by error(): a raise
        # skips every exit path of this function (and of the save functions, which share the counter)
        if leaky is None:
            import callgraph as _cgm
            _cg = _cgm.CallGraph(prog)
            _eff = _cgm.Effects(_cg)
            leaky = sorted(g.name for g in unit.funcs.values() if g.name in _eff.may_raise and any(
                (n2.get("k") in ("Un", "Post", "Pre") and "++" in (n2.get("op") or "") and strip(n2.get("e")).get("n") == "save_svalue_depth") or
                (n2.get("k") == "Asg" and n2.get("op") == "+=" and strip(n2["L"]).get("n") == "save_svalue_depth") for b2, i2, n2 in g.nodes()))
        ok = (bool(resets) and zero and bad is None and not leaky) or entry_ok
        if not ok and bad is None and leaky and resets:
            bad = ("error()", "%s can raise with the counter raised; the reset on %s's return paths is never reached then" % ("/".join(leaky[:4]), f.name))
        if entry_ok and not (bool(resets) and zero and bad is None):
            bad = None
        run.ob("C16-d", "reset:%s" % f.name, ok, ("save_svalue_depth is cleared before every container restore starts" if entry_ok and not (bool(resets) and zero) else "after %s every path to a return passes the `if (save_svalue_depth)` reset (and the depth is %scleared on entry)" % ("/".join(sorted({n["fn"] for b, i, n in calls})), "" if entry_ok else "not ")) if ok else
               (("path %s returns from %s after %s without resetting save_svalue_depth/save_svalue_sizes" % (bad[1][:8], f.name, bad[0]) if bad[0] != "error()" else bad[1]) if bad else "%s has no reset of the nesting state" % f.name),
               f.file, f.line, f.name, what="%s can return (on a parse error) with the restore nesting state still set: the next restore of valid text is mis-sized or reads a freed table" % f.name)

    # ---- C16-c
    stores = [(b, i, n) for b, i, n in srs.nodes() if n.get("k") == "Asg" and strip(n["L"]).get("k") == "Un" and strip(n["L"]).get("op") == "*" and strip(strip(n["L"])["e"]).get("d") == "param"]
    frees = [(b, i, n) for b, i, n in srs.calls("free_svalue") if strip(n["args"][0]).get("d") == "param"]
    okc = len(stores) == 1 and len(frees) == 1 and srs.point_dominates((frees[0][0].id, frees[0][1]), (stores[0][0].id, stores[0][1]))
    # no parser writes through v directly: calls to restore_* take &val
    direct = [show(n) for b, i, n in srs.calls() if n.get("fn", "").startswith("restore_") or n.get("fn") == "parse_numeric" if any(strip(a).get("d") == "param" and strip(a).get("n") == "v" for a in n["args"])]
    run.ob("C16-c", "store-after-parse", okc and not direct, "*v assigned once, after free_svalue(v); parsers write into a local (%s)" % ("ok" if not direct else direct), srs.file, srs.line, "safe_restore_svalue",
           what="no-clear restore can overwrite the old value before the new one parsed")
    # every error return precedes the free
    errs = [(b, i, e) for b, i, e in srs.elements() if e.get("k") == "Return" and "e" in e and const_val(e["e"]) != 0]
    bad = [e.get("l") for b, i, e in errs if frees and (frees[0][0].id == b.id and frees[0][1] < i or (frees[0][0].id != b.id and b.id in cfgq.reach_set(srs, [frees[0][0].id])))]
    run.ob("C16-c", "errors-before-free", not bad and bool(errs), "%d error returns, none after the old value was freed" % len(errs) if not bad else "error return(s) at line %s after the old value was freed" % bad,
           srs.file, srs.line, "safe_restore_svalue", what="no-clear restore frees the old value and then fails")

    # ---- C16-e variable layout: every walker of the inherit tree accounts for the inherited part first
    run.rule("C16-e", "functions that walk a program's variables with a running cursor (save_object_recurse, fgv_recurse, cns_recurse, cns_just_count ...) touch num_variables_defined only after the loop that recurses into prog->inherit[]: save and restore must agree that a program's block is [inherited subtrees..., own variables]", 4)
    nw = 0
    for f in sorted(prog.functions(), key=lambda x: (x.file, x.line)):
        # recursion over the inherit list with a pointer cursor parameter
        rec = [(b, i, n) for b, i, n in f.calls() if n.get("fn") and any(x.get("k") == "Mem" and x.get("f") == "inherit" for a in n.get("args", []) for x in walk(a))
               and any("*" in (p.get("t") or "") and ("int *" in (p.get("t") or "") or "svalue_s **" in (p.get("t") or "")) for p in (f.params or []))]
        uses = [(b, i, n) for b, i, n in f.nodes() if n.get("k") == "Mem" and n.get("f") == "num_variables_defined"]
        cursor_adv = [(b, i, n) for b, i, n in f.nodes() if n.get("k") in ("Asg", "Un") and ((n.get("k") == "Asg" and n.get("op") == "+=") or (n.get("k") == "Un" and n.get("op") == "++"))
                      and strip(n["L"] if n.get("k") == "Asg" else n["e"]).get("k") == "Un" and strip(n["L"] if n.get("k") == "Asg" else n["e"]).get("op") == "*"]
        if not rec or not uses or not cursor_adv:
            continue
        if not any(n.get("fn") == f.name or n.get("fn", "").startswith(f.name[:3]) for b, i, n in rec):
            continue
        nw += 1
        run.saw(f)
        heads = [bid for bid in f.reachable() if f.branch_cond(bid) is not None and any(x.get("k") == "Mem" and x.get("f") == "num_inherited" for x in walk(f.branch_cond(bid)))]
        bad = [n.get("l") for b, i, n in uses if not any(f.dominates(h, b.id) for h in heads)]
        run.ob("C16-e", "layout:%s:%s" % (rel(f.file), f.name), bool(heads) and not bad,
               "every use of num_variables_defined comes after the recursion over prog->inherit[]" if heads and not bad else "num_variables_defined is used at line(s) %s on a path that has not walked the inherited programs: the cursor skips only this program's own variables where the other walkers skip the whole subtree" % bad,
               f.file, f.line, f.name, what="%s advances the variable cursor past a program without accounting for its inherited variables (save/restore layout disagreement)" % f.name)
    run.need(nw >= 4, "inherit-tree walkers with a variable cursor (found %d)" % nw)

    # ---- C16-f copy loops over save text stop at the end of the text
    run.rule("C16-f", "restore parsers: a loop that copies or scans characters until a closing delimiter (`while ((c = *cp++) != '\\\"')`) tests for the terminating NUL on every iteration, so a string cut short by a truncated file cannot make it run past the buffer", 3)
    import callgraph
    nloops = 0
    for f in sorted(prog.functions(), key=lambda x: (x.file, x.line)):
        if not f.file.endswith(("lib/lpc/object.c", "lib/lpc/mapping.c")) or not f.name.startswith("restore"):
            continue
        ordf = 0
        for bid in sorted(f.reachable()):
            c = f.branch_cond(bid)
            blk = f.blocks[bid]
            if c is None or not blk.term or blk.term.get("k") not in ("WhileStmt", "ForStmt", "DoStmt"):
                continue
            op, l, r = atom_of(c, True)
            if op != "!=" or const_val(r) in (None, 0):
                continue
            l0 = strip(l)
            # (c = *cp++) != K   : the scanned variable and the cursor
            if not (l0.get("k") == "Asg" and l0.get("op") == "=" and strip(l0["L"]).get("k") == "Ref" and any(x.get("k") == "Un" and x.get("op") == "*" for x in walk(l0["R"]))):
                continue
            var = strip(l0["L"])
            nloops += 1
            run.saw(f)
            body = blk.succ[0]
            # every path from the loop body back to the loop condition passes a test of var against 0 whose "is NUL" edge leaves the loop
            nul_tests = set()
            for b2 in f.reachable():
                c2 = f.branch_cond(b2)
                if c2 is None:
                    continue
                for truth, idx in ((True, 0), (False, 1)):
                    o2, l2, r2 = atom_of(c2, truth)
                    isnul = (o2 == "==" and strip(l2).get("id") == var.get("id") and const_val(r2) == 0) or (o2 == "false" and strip(l2).get("id") == var.get("id"))
                    # also `!(c = *newp++ = *cp++)` style tests of the copied character do not count: they test the escaped char
                    if isnul:
                        nul_tests.add(b2)
            # switch form:  switch (c) { ... case '\0': return ERROR; }
            for b2 in f.reachable():
                blk2 = f.blocks[b2]
                t2 = blk2.term or {}
                if t2.get("k") != "SwitchStmt":
                    continue
                cond2 = t2.get("cond") or (blk2.el[-1] if blk2.el else None)
                if cond2 is None or strip(cond2).get("id") != var.get("id"):
                    continue
                for sx in blk2.succ:
                    lab = f.blocks[sx].label if sx is not None else None
                    if lab and lab.get("k") == "case" and lab.get("lo") == 0 and bid not in cfgq.reach_set(f, [sx]):
                        nul_tests.add(b2)
            p = f.reach_avoiding([body], lambda b3, t=bid: b3.id == t, avoid_blocks=nul_tests) if body is not None else None
            run.ob("C16-f", "scan-loop:%s:%s:%d" % (rel(f.file), f.name, ordf), p is None, "loop at line %s scanning for %r tests `%s` for NUL on every iteration" % (blk.term.get("l"), chr(const_val(r)) if 0 < const_val(r) < 128 else const_val(r), var.get("n")) if p is None else
                   "loop at line %s scans for %r and can go round (path %s) without testing `%s` for the terminating NUL: an unterminated string runs the cursor past the end of the text" % (blk.term.get("l"), chr(const_val(r)) if 0 < const_val(r) < 128 else const_val(r), p[:6], var.get("n")),
                   f.file, blk.term.get("l"), f.name, what="%s copies a string from save text without stopping at the end of the text" % f.name)
            ordf += 1
    run.need(nloops >= 3, "delimiter-scanning loops in the restore parsers (found %d)" % nloops)

    # ---- C16-g numbers are parsed and printed at the width LPC integers have
    run.rule("C16-g", "save/restore of integers: a decimal accumulator (`x *= 10` / `x = x * 10 + d`) whose value is stored into u.number is 64 bits wide, and the digit-count/print loops (`x /= 10`) over a copy of u.number work on an unsigned 64-bit magnitude (a signed copy cannot hold -INT64_MIN)", 3)
    W64 = ("long", "unsigned long", "long long", "unsigned long long")
    U64 = ("unsigned long", "unsigned long long")
    ng = 0
    for f in sorted(prog.functions(), key=lambda x: (x.file, x.line)):
        if not f.file.endswith(("lib/lpc/object.c", "lib/lpc/mapping.c")):
            continue
        nodes = list(f.nodes())

        def number_flow(vid, to_number):
            for b2, i2, n2 in nodes:
                if n2.get("k") == "Asg" and n2.get("op") == "=":
                    l, r = strip(n2["L"]), n2["R"]
                    if to_number and l.get("k") == "Mem" and l.get("f") == "number" and any(x.get("k") == "Ref" and x.get("id") == vid for x in walk(r)):
                        return True
                    if not to_number and l.get("k") == "Ref" and l.get("id") == vid and any(x.get("k") == "Mem" and x.get("f") == "number" for x in walk(r)):
                        return True
                if not to_number and n2.get("k") == "Decl":
                    for vv in n2.get("vars", []):
                        if vv.get("id") == vid and "init" in vv and any(x.get("k") == "Mem" and x.get("f") == "number" for x in walk(vv["init"])):
                            return True
            return False
        seen = set()
        for b, i, n in nodes:
            if n.get("k") != "Asg" or strip(n["L"]).get("k") != "Ref":
                continue
            v = strip(n["L"])
            acc = (n.get("op") == "*=" and const_val(n["R"]) == 10) or (n.get("op") == "=" and any(
                x.get("k") == "Bin" and x.get("op") == "*" and 10 in (const_val(x["R"]), const_val(x["L"])) and any(y.get("k") == "Ref" and y.get("id") == v.get("id") for y in walk(x)) for x in walk(n["R"])))
            div = n.get("op") == "/=" and const_val(n["R"]) == 10
            t = v.get("t") or ""
            if acc and ("acc", v.get("id")) not in seen and number_flow(v.get("id"), True):
                seen.add(("acc", v.get("id")))
                ng += 1
                run.saw(f)
                ok = t in W64
                run.ob("C16-g", "accumulator:%s:%s" % (f.name, v.get("n")), ok, "decimal accumulator `%s` is %s" % (v.get("n"), t) if ok else
                       "decimal accumulator `%s` is %s but its value becomes a 64-bit LPC integer: every saved value outside that range comes back truncated" % (v.get("n"), t), f.file, n.get("l"), f.name,
                       what="%s parses integers into a %s" % (f.name, t))
            if div and ("div", v.get("id")) not in seen:
                # the variable itself or the one it was copied from holds u.number
                src = [v.get("id")]
                for b2, i2, n2 in nodes:
                    if n2.get("k") == "Asg" and n2.get("op") == "=" and strip(n2["L"]).get("id") == v.get("id") and strip(n2["L"]).get("k") == "Ref" and strip(n2["R"]).get("k") == "Ref":
                        src.append(strip(n2["R"]).get("id"))
                if not any(number_flow(x, False) for x in src):
                    continue
                seen.add(("div", v.get("id")))
                ng += 1
                run.saw(f)
                ok = t in U64
                run.ob("C16-g", "magnitude:%s:%s" % (f.name, v.get("n")), ok, "digit loop over `%s` (%s)" % (v.get("n"), t) if ok else
                       "digit loop over `%s` of type %s: a signed or narrower copy of an LPC integer has no magnitude for the most negative value; the digit count is then wrong and the writer stores before its buffer" % (v.get("n"), t), f.file, n.get("l"), f.name,
                       what="%s counts/prints the digits of a %s copy of the integer" % (f.name, t))
    run.need(ng >= 3, "decimal accumulators / digit loops over u.number (found %d)" % ng)

    # ---- C16-h recursion over the nesting of a value is bounded
    run.rule("C16-h", "save/restore recursion: every call cycle among the save/restore functions of lib/lpc/object.c passes through a function whose calls into the cycle are all preceded by a test of a nesting counter against a constant bound (the counter is incremented in the cycle), or only re-walks text whose nesting the bounded size pass has already measured (restore_size dominates it in every top-level caller)", 3)
    cg = callgraph.CallGraph(prog)
    fam = {f.name: f for f in unit.funcs.values() if f.name.startswith(("restore", "save", "svalue_save", "safe_restore"))}
    # plus the file-local functions they call, whatever those are called
    grew = True
    while grew:
        grew = False
        for f in list(fam.values()):
            for b, i, n in f.calls():
                g = unit.funcs.get(n.get("fn"))
                if g is not None and g.static and g.file == f.file and g.name not in fam:
                    fam[g.name] = g
                    grew = True
    # Tarjan over the family
    idx, low, onst, st, sccs = {}, {}, set(), [], []

    def sc(v):
        idx[v] = low[v] = len(idx)
        st.append(v)
        onst.add(v)
        for w in sorted(cg.edges.get(v, ())):
            if w not in fam:
                continue
            if w not in idx:
                sc(w)
                low[v] = min(low[v], low[w])
            elif w in onst:
                low[v] = min(low[v], idx[w])
        if low[v] == idx[v]:
            comp = []
            while True:
                w = st.pop()
                onst.discard(w)
                comp.append(w)
                if w == v:
                    break
            if len(comp) > 1 or v in cg.edges.get(v, ()):
                sccs.append(sorted(comp))
    for v in sorted(fam):
        if v not in idx:
            sc(v)

    def counter_guard(f, blk, members):
        """a counter tested against a constant bound on the way to this block, incremented in the cycle"""
        for c, truth, B in cfgq.guards(f, blk.id):
            for a, tr in __import__("stale").implied_atoms(c, truth):
                op, l, r = atom_of(a, tr)
                if op not in ("<", "<=", ">", ">=") or const_val(r) is None:
                    continue
                for x in walk(l):
                    if x.get("k") == "Ref" and x.get("d") in ("global", "static", "param", "local"):
                        vid = (x.get("d"), x.get("n"))
                        # incremented somewhere in the cycle (or passed +1 for a parameter)
                        for m in members:
                            for b2, i2, n2 in fam[m].nodes():
                                if n2.get("k") in ("Un", "Post", "Pre", "IncDec") and "++" in (n2.get("op") or "") and strip(n2.get("e")).get("n") == x.get("n"):
                                    return x.get("n")
                                if n2.get("k") == "Asg" and n2.get("op") == "+=" and strip(n2["L"]).get("n") == x.get("n"):
                                    return x.get("n")
        return None

    # recursion that does not follow the nesting of a value or of save text (one named reason each)
    STRUCTURAL = {"save_object_recurse": "recurses over prog->inherit[], the inherit tree of a compiled program: finite and acyclic by construction, its depth is not input-controlled"}

    def members_bounded(comp):
        for m in comp:
            f = fam[m]
            sites = [(b, i, n) for b, i, n in f.calls() if n.get("fn") in comp]
            if not sites:
                continue
            gs = [counter_guard(f, b, comp) for b, i, n in sites]
            if all(gs):
                return "%s tests %s before each of its %d call(s) into the cycle" % (m, "/".join(sorted(set(gs))), len(sites))
        return None
    verdicts = {}
    for comp in sccs:
        verdicts[tuple(comp)] = members_bounded(comp)
    measured = set()
    for comp, v in verdicts.items():
        if v:
            measured.update(comp)
    # wrappers that do nothing but enter a bounded cycle (restore_size -> restore_internal_size)
    for name, f in fam.items():
        if name not in measured and any(n.get("fn") in measured for b, i, n in f.calls()) and not any(name in c for c in verdicts):
            measured.add(name)
    for comp in sccs:
        comp_t = tuple(comp)
        run.saw(fam[comp[0]])
        bounded_by = verdicts[comp_t]
        verdict = True if bounded_by else False
        if not bounded_by and len(comp) == 1:
            f1 = fam[comp[0]]
            selfcalls = [n for b, i, n in f1.calls(comp[0])]
            over_inherits = bool(selfcalls) and all(any(x.get("k") == "Mem" and x.get("f") == "inherit" for a in n.get("args", []) for x in walk(a)) for n in selfcalls)
            if comp[0] in STRUCTURAL or over_inherits:
                run.ob("C16-h", "cycle:%s" % comp[0], True, "structural recursion: " + STRUCTURAL.get(comp[0], "recurses over prog->inherit[], the inherit tree of a compiled program: finite and acyclic by construction, its depth is not input-controlled"), f1.file, f1.line, comp[0])
                continue
        if not bounded_by:
            # (a) entered only from sites dominated by a call of the bounded measuring pass
            entries = [(g, b, n) for m in comp for (g, b, i, n) in cg.sites.get(m, []) if g.name not in comp]
            pre = [any(n2.get("fn") in measured and g.dominates(b2.id, b.id) for b2, i2, n2 in g.calls()) for g, b, n in entries]
            if entries and all(pre):
                verdict = True
                bounded_by = "entered from %d site(s), each dominated by the bounded measuring pass: the walk repeats nesting that pass accepted" % len(entries)
            else:
                # (b) inside every member, each call into the cycle is reached only through the measuring pass or
                #     with the nesting table of an enclosing measured walk in force (`if (save_svalue_depth)`)
                ok_members, bad = 0, []
                for m in comp:
                    f = fam[m]
                    sites = [(b, i, n) for b, i, n in f.calls() if n.get("fn") in comp]
                    if not sites:
                        continue
                    avoid_b = {b.id for b, i, n in f.calls() if n.get("fn") in measured}
                    avoid_e = set()
                    for bid in f.reachable():
                        c = f.branch_cond(bid)
                        if c is not None and strip(c).get("k") == "Ref" and strip(c).get("n") == "save_svalue_depth":
                            avoid_e.add((bid, f.blocks[bid].succ[0]))
                    free = cfgq.reach_set(f, [f.entry], avoid_blocks=avoid_b, avoid_edges=avoid_e)
                    hit = [n.get("l") for b, i, n in sites if b.id in free]
                    if hit or not (avoid_b or avoid_e):
                        bad.append((m, hit))
                    else:
                        ok_members += 1
                if ok_members and not bad:
                    verdict = True
                    bounded_by = "in each of %d member(s) every call into the cycle comes after the bounded size pass or under the nesting table it produced" % ok_members
                elif bad:
                    bounded_by = None
        run.ob("C16-h", "cycle:%s" % "+".join(comp), verdict, bounded_by or "no function of the cycle %s tests a nesting counter against a constant before recursing, and the cycle is not confined behind the bounded size pass: nesting in the input (or in a self-containing value) translates into unbounded C recursion" % comp,
               fam[comp[0]].file, fam[comp[0]].line, comp[0], what="recursion through %s has no depth bound" % "/".join(comp))
    run.need(len(sccs) >= 4, "recursion cycles in the save/restore family (found %d)" % len(sccs))
    run.need(any(verdicts.values()), "a counter-bounded measuring pass")

    # ---- C16-i nothing raises while the temporary stream is open
    run.rule("C16-i", "save_object: between fopen() of the temporary and its fclose(), a call that can leave by error() (which would leak the FILE and leave the .tmp file behind) is allowed only if the same function was already run to completion on the same data before the stream was opened (the dry run that raises first)", 1)
    eff = callgraph.Effects(cg)
    open_b = opens[0][0]
    closes = [(b, i, n) for b, i, n in so.calls() if n.get("fn") == "fclose"]
    run.need(closes, "fclose in save_object")
    close_blocks = {b.id for b, i, n in closes}
    region = cfgq.reach_set(so, open_b.live_succ(), avoid_blocks=close_blocks) | {open_b.id}
    # a block holding the fclose() is entered with the stream open: its elements before the fclose() count
    first_close = {}
    for b, i, n in closes:
        if any(b.id in so.blocks[p].live_succ() for p in region):
            first_close[b.id] = min(i, first_close.get(b.id, i))
    ni = 0
    for b, i, n in so.calls():
        if b.id in first_close and b.id not in region:
            if i >= first_close[b.id]:
                continue
        elif b.id not in region or (b.id == open_b.id and i <= opens[0][1]):
            continue
        if not eff.call_may_raise(so, n):
            continue
        ni += 1
        pre = [(b2, i2, n2) for b2, i2, n2 in so.calls() if n2.get("fn") == n.get("fn") and n2 is not n and so.point_dominates((b2.id, i2), (open_b.id, opens[0][1]))]
        why = callgraph.why(cg, n.get("fn"), callgraph.RAISE_SEEDS, barriers=callgraph.CATCH_BARRIERS) if n.get("fn") else None
        run.ob("C16-i", "open-stream:%s" % (n.get("fn") or "(*)"), bool(pre),
               "%s() can raise (%s) but already ran at line %s before the stream was opened" % (n.get("fn"), " -> ".join(why or [])[:120], pre[0][2].get("l")) if pre else
               "%s() at line %s runs with the temporary stream open and can leave by error() (%s): the FILE leaks and the temporary file stays behind" % (n.get("fn"), n.get("l"), " -> ".join(why or [])[:160]),
               so.file, n.get("l"), "save_object", what="save_object can be left by error() in %s() while the temporary file is open" % n.get("fn"))
    run.need(ni >= 1, "raising calls under the open stream (found %d)" % ni)

    # ---- C16-j the string writer escapes every character the string readers give a meaning to
    run.rule("C16-j", "string escaping tables agree: every character the string readers (restore_string, restore_interior_string, restore_hash_string) treat specially inside a string - delimiter, escape introducer, translated character - is written behind a backslash by save_svalue's string case, and svalue_save_size counts an extra byte for exactly the characters save_svalue escapes", 4)

    def char_consts_tested(f, only_in=None):
        out = {}
        for bid in sorted(f.reachable()):
            blk = f.blocks[bid]
            t2 = blk.term or {}
            if t2.get("k") == "SwitchStmt":
                cond2 = t2.get("cond") or (blk.el[-1] if blk.el else None)
                if cond2 is not None and strip(cond2).get("k") == "Ref" and (strip(cond2).get("t") or "") in ("char", "unsigned char", "int"):
                    for sx in blk.succ:
                        lab = f.blocks[sx].label if sx is not None else None
                        if lab and lab.get("k") == "case" and lab.get("lo"):
                            out.setdefault(lab["lo"], t2.get("l"))
        for b, i, n in f.nodes():
            if n.get("k") == "Bin" and n.get("op") in ("==", "!="):
                for x, y in ((n["L"], n["R"]), (n["R"], n["L"])):
                    k = const_val(y)
                    x0 = strip(x)
                    if x0.get("k") == "Asg":
                        x0 = strip(x0["L"])
                    if k and x0.get("k") == "Ref" and (x0.get("t") or "") in ("char", "unsigned char") and 0 < k < 256:
                        out.setdefault(k, n.get("l"))
        return out
    readers = [g for g in prog.functions() if g.name in ("restore_string", "restore_interior_string", "restore_hash_string") and g.file.endswith(("lib/lpc/object.c", "lib/lpc/mapping.c"))]
    run.need(len(readers) >= 3, "string readers (found %d)" % len(readers))

    def escaped_set(f):
        """constants K such that `c == K` sends control to one common block (the short-circuit chain
        `c == K1 || c == K2 ...` of the escaping branch); the chain containing the backslash is the escape test"""
        groups = {}
        for bid in sorted(f.reachable()):
            c = f.branch_cond(bid)
            if c is None:
                continue
            op, l, r = atom_of(c, True)
            k = const_val(r) if r is not None else None
            if op in ("==", "!=") and k and strip(l).get("k") == "Ref" and (strip(l).get("t") or "") == "char":
                tgt = f.blocks[bid].succ[0 if op == "==" else 1]
                groups.setdefault(tgt, set()).add(k)
        # the same table written as `switch (c) { case K1: case K2: ... escape ... }`: labels that fall through to one block
        for bid in sorted(f.reachable()):
            blk = f.blocks[bid]
            t2 = blk.term or {}
            if t2.get("k") != "SwitchStmt":
                continue
            cond2 = t2.get("cond") or (blk.el[-1] if blk.el else None)
            if cond2 is None or strip(cond2).get("k") != "Ref" or (strip(cond2).get("t") or "") != "char":
                continue
            for sx in blk.succ:
                lab = f.blocks[sx].label if sx is not None else None
                if not (lab and lab.get("k") == "case" and lab.get("lo")):
                    continue
                tgt = sx
                hops = 0
                while not f.blocks[tgt].el and len(f.blocks[tgt].live_succ()) == 1 and hops < 8:
                    tgt = f.blocks[tgt].live_succ()[0]
                    hops += 1
                groups.setdefault(tgt, set()).add(lab["lo"])
        best = None
        for tgt, ks in groups.items():
            if ord("\\") in ks and (best is None or len(ks) > len(best[0])):
                best = (ks, tgt)
        return best
    we = escaped_set(sw)
    se = escaped_set(ss)
    run.need(we and se, "escape tests in save_svalue / svalue_save_size")
    pr = lambda ks: "{%s}" % ", ".join(repr(chr(k)) for k in sorted(ks))
    run.ob("C16-j", "size-vs-write", we[0] == se[0], "both passes escape %s" % pr(we[0]) if we[0] == se[0] else "save_svalue escapes %s but svalue_save_size counts an extra byte for %s: the buffer is %s" % (pr(we[0]), pr(se[0]), "too small for a string full of %s" % pr(we[0] - se[0]) if we[0] - se[0] else "oversized"),
           sw.file, sw.line, "save_svalue", what="the size pass and the write pass escape different characters in strings")
    for g in sorted(readers, key=lambda x: (x.file, x.line)):
        run.saw(g)
        special = char_consts_tested(g)
        run.need(ord('"') in special or ord("\\") in special, "special characters of %s" % g.name)
        missing = sorted(k for k in special if k not in we[0])
        run.ob("C16-j", "reader:%s" % g.name, not missing, "%s gives a meaning to %s; save_svalue escapes all of them" % (g.name, pr(special)) if not missing else
               "%s gives a meaning to %s inside a string (line %s) but save_svalue writes it unescaped: a string containing it does not come back equal" % (g.name, pr(missing), special[missing[0]]), g.file, special[missing[0]] if missing else g.line, g.name,
               what="%s interprets %s, which save_svalue does not escape" % (g.name, pr(missing)))

    # ---- C16-l the byte behind a backslash is taken literally
    run.rule("C16-l", "string readers: the character fetched from behind a backslash is stored as it is - between that fetch and the next assignment to the character variable no test compares it with a special character (delimiter, backslash, the CR that stands for LF); otherwise an escaped byte is translated or ends the string and the value does not come back equal", 3)
    nl = 0
    for g in sorted(readers, key=lambda x: (x.file, x.line)):
        fetches = []
        literal = 0
        # edges on which the current character is known to be the backslash
        starts = []
        for bid in sorted(g.reachable()):
            blk = g.blocks[bid]
            c = g.branch_cond(bid)
            if c is not None:
                op, l, r = atom_of(c, True)
                if op in ("==", "!=") and r is not None and const_val(r) == ord("\\") and strip(l).get("k") == "Ref" and (strip(l).get("t") or "") == "char":
                    starts.append((blk.succ[0] if op == "==" else blk.succ[1], strip(l)))
            t3 = blk.term or {}
            if t3.get("k") == "SwitchStmt":
                cond3 = t3.get("cond") or (blk.el[-1] if blk.el else None)
                if cond3 is not None and strip(cond3).get("k") == "Ref" and (strip(cond3).get("t") or "") == "char":
                    for sx in blk.succ:
                        lab = g.blocks[sx].label if sx is not None else None
                        if lab and lab.get("k") == "case" and lab.get("lo") == ord("\\"):
                            starts.append((sx, strip(cond3)))

        def is_fetch(x):
            return x.get("k") == "Un" and x.get("op") == "*" and strip(x["e"]).get("k") == "Un" and strip(x["e"]).get("op") == "++" and strip(x["e"]).get("post")

        for s0, cvar in starts:
            if s0 is None:
                continue
            cur, hops, found = s0, 0, None
            while cur is not None and hops < 4 and found is None:
                blk = g.blocks[cur]
                for ei, e in enumerate(blk.el):
                    for x in walk(e):
                        if is_fetch(x):
                            found = (blk, ei, e, x)
                            break
                    if found:
                        break
                if found:
                    break
                ls = blk.live_succ()
                cur = ls[0] if len(ls) == 1 else None
                hops += 1
            if found is None:
                continue
            blk, ei, e, fx = found
            asg = None
            for x in walk(e):
                if x.get("k") == "Asg" and x.get("op") == "=" and strip(x["L"]).get("k") == "Ref" and strip(x["L"]).get("id") == cvar.get("id") and any(y is fx for y in walk(x["R"])):
                    asg = x
            if asg is None:
                literal += 1
                nl += 1
                run.ob("C16-l", "escaped-literal:%s:direct:%d" % (g.name, literal - 1), True, "the byte behind the backslash (line %s) goes to the output without passing through `%s`" % (fx.get("l"), cvar.get("n")), g.file, fx.get("l"), g.name)
            else:
                fetches.append((blk, ei, asg, cvar))
        for j, (b, i, n, cv) in enumerate(fetches):
            nl += 1
            bad = None
            seen = set()
            work = [(b.id, i, n)]
            while work and bad is None:
                bid, start, after = work.pop()
                blk = g.blocks[bid]
                killed = False
                passed = after is None
                for ei in range(start, len(blk.el)):
                    for x in walk(blk.el[ei]):
                        if not passed:
                            if x is after:
                                passed = True
                            continue
                        if x.get("k") == "Bin" and x.get("op") in ("==", "!="):
                            for vx, kx in ((x["L"], x["R"]), (x["R"], x["L"])):
                                k = const_val(kx)
                                v0 = strip(vx)
                                if k is None:
                                    continue
                                if v0.get("k") == "Asg" and strip(v0["L"]).get("id") == cv.get("id"):
                                    killed = True
                                elif v0.get("k") == "Ref" and v0.get("id") == cv.get("id") and k > 0:
                                    bad = (x.get("l"), show(x))
                        elif x.get("k") == "Asg" and strip(x["L"]).get("k") == "Ref" and strip(x["L"]).get("id") == cv.get("id") and x is not after:
                            killed = True
                        if killed or bad:
                            break
                    if killed or bad:
                        break
                if killed or bad:
                    continue
                t2 = blk.term or {}
                if t2.get("k") == "SwitchStmt":
                    cond2 = t2.get("cond") or (blk.el[-1] if blk.el else None)
                    if cond2 is not None and strip(cond2).get("id") == cv.get("id"):
                        bad = (t2.get("l"), "switch (%s)" % cv.get("n"))
                        continue
                for sx in blk.live_succ():
                    if sx not in seen:
                        seen.add(sx)
                        work.append((sx, 0, None))
            run.ob("C16-l", "escaped-literal:%s:%d" % (g.name, j), bad is None, "the byte fetched behind the backslash at line %s is not compared with a special character before `%s` is assigned again" % (n.get("l"), cv.get("n")) if bad is None else
                   "the byte fetched behind the backslash at line %s reaches the test `%s` (line %s): an escaped occurrence of that character is treated like a bare one" % (n.get("l"), bad[1], bad[0]), g.file, bad[0] if bad else n.get("l"), g.name,
                   what="%s interprets a character that was written behind a backslash (%s)" % (g.name, bad[1] if bad else ""))
    run.need(nl >= 3, "fetches behind a backslash in the string readers (found %d)" % nl)

    # ---- C16-k a float is printed so that it reads back as a float, identically in both passes
    run.rule("C16-k", "floats: every printf-family conversion of a double in the save path keeps a float marker in the text (%g only with the '#' flag, %f/%e not with precision 0) so parse_numeric reads it back as a float, and the size pass and the write pass format reals through the same call", 2)
    import re as _re
    PRINTF = {"sprintf": 1, "snprintf": 2, "fprintf": 1, "printf": 0}

    def real_formats(f, depth=1):
        out = []
        for b, i, n in f.calls():
            fn = n.get("fn")
            if fn in PRINTF and len(n["args"]) > PRINTF[fn]:
                fmt = strip(n["args"][PRINTF[fn]])
                text = fmt.get("s") if fmt.get("k") == "Str" else None
                if any((strip(a).get("t") or "").replace("const ", "").replace("volatile ", "") in ("double", "float", "long double") for a in n["args"][PRINTF[fn] + 1:]):
                    out.append((f.name, fn, text, n.get("l")))
            elif depth and fn in unit.funcs and unit.funcs[fn].static and fn not in (ss.name, sw.name):
                out += real_formats(unit.funcs[fn], depth - 1)
        return out
    rs, rw = real_formats(ss), real_formats(sw)
    run.need(rs and rw, "conversions of doubles in svalue_save_size / save_svalue")
    inl = lambda a: "<inline>" if a in (ss.name, sw.name) else a
    same = {(inl(a), c) for a, b_, c, l in rs} == {(inl(a), c) for a, b_, c, l in rw}
    run.ob("C16-k", "real-size-vs-write", same, "both passes format reals through %s" % sorted({(a, c) for a, b_, c, l in rw}) if same else
           "the size pass formats reals with %s, the write pass with %s: the two can disagree on the length" % (sorted({(a, c) for a, b_, c, l in rs}), sorted({(a, c) for a, b_, c, l in rw})), sw.file, rw[0][3], "save_svalue",
           what="size pass and write pass print floats differently")
    for fname, fn, text, l in sorted(set(rw)):
        if text is None:
            run.ob("C16-k", "real-format:%s" % fname, None, "format of %s() at line %s is not a literal" % (fn, l), sw.file, l, fname)
            continue
        convs = _re.findall(r"%([#0\- +]*)(\d+|\*)?(?:\.(\d+|\*))?(?:[lLhqjzt]*)([a-zA-Z%])", text)
        fl = [(flags, prec, cv) for flags, w_, prec, cv in convs if cv in "gGeEfFaA"]
        bad = [("%" + flags + ("." + prec if prec else "") + cv) for flags, prec, cv in fl if "#" not in flags and (cv in "gG" or prec == "0")]
        run.ob("C16-k", "real-format:%s" % fname, bool(fl) and not bad, "%s(\"%s\") keeps a decimal point or exponent for every value" % (fn, text) if fl and not bad else
               "%s(\"%s\") at line %s prints integral values (1.0, 100000.0) without a decimal point: they are restored as integers" % (fn, text, l), sw.file, l, fname,
               what="%s prints a float with %s, which drops the decimal point of integral values" % (fname, bad))

    # ---- C16-m a parser that reports success has produced a value
    run.rule("C16-m", "restore parsers with an output value (int f(char **|char *, svalue_t *out)): every `return 0` (success) is reached only after *out was written - a store to out->type, or a call that hands `out` on to another parser of the family - so a caller never takes an uninitialised svalue for the restored value", 5)
    fam = [g for g in prog.functions() if g.file.endswith(("lib/lpc/object.c", "lib/lpc/mapping.c")) and g.name.startswith("restore_") and g.rt == "int"
           and len(g.params or []) == 2 and "svalue" in (g.params[1].get("t") or "") and "*" in (g.params[1].get("t") or "")]
    run.need(len(fam) >= 5, "restore parsers with an output svalue (found %d)" % len(fam))
    famnames = {g.name for g in fam} | {"safe_restore_svalue", "restore_svalue"}
    for g in sorted(fam, key=lambda x: (x.file, x.line)):
        run.saw(g)
        outp = g.params[1]
        writes = set()
        for b, i, n in g.nodes():
            if n.get("k") == "Asg" and n.get("op") == "=":
                l = strip(n["L"])
                # out->type = ..., *out = ...
                if l.get("k") == "Mem" and l.get("f") == "type" and strip(l["b"]).get("k") == "Ref" and strip(l["b"]).get("id") == outp.get("id"):
                    writes.add(b.id)
                if l.get("k") == "Un" and l.get("op") == "*" and strip(l["e"]).get("id") == outp.get("id"):
                    writes.add(b.id)
            if n.get("k") == "Call" and (n.get("fn") in famnames or (n.get("fn") or "").startswith(("restore_", "parse_"))) and any(strip(a).get("k") == "Ref" and strip(a).get("id") == outp.get("id") for a in n.get("args", [])):
                writes.add(b.id)
        rets = [(b, i, e) for b, i, e in g.elements() if e.get("k") == "Return" and "e" in e and const_val(e["e"]) == 0]
        if not rets:
            # returns a variable: the success value is whatever the delegate returned
            run.ob("C16-m", "out-written:%s" % g.name, None if not writes else True, "%s has no literal `return 0`; it writes or delegates its output in %d places" % (g.name, len(writes)), g.file, g.line, g.name)
            continue
        bad = None
        for b, i, e in rets:
            if b.id in writes:
                continue
            p = g.reach_avoiding([g.entry], lambda blk, t=b.id: blk.id == t, avoid_blocks=writes)
            if p is not None:
                bad = (e.get("l"), p[:10])
                break
        run.ob("C16-m", "out-written:%s" % g.name, bad is None, "every `return 0` of %s (%d) comes after a write of *%s" % (g.name, len(rets), outp.get("n")) if bad is None else
               "`return 0` at line %s is reachable (path %s) without anything having been written to *%s: the caller takes whatever the svalue held for the restored value" % (bad[0], bad[1], outp.get("n")), g.file, bad[0] if bad else g.line, g.name,
               what="%s reports success without producing a value" % g.name)

    # ---- C16-n a pair inserted while the hash table doubles lands in the bucket of the new table
    run.rule("C16-n", "mapping builders (restore_mapping and its siblings in lib/lpc/mapping.c): growMap() doubles the table and moves every node whose hash has the new bit set into the upper half; the insertion that triggered it addresses its bucket with an index computed under the old mask, so the success branch of growMap() updates that index (`i |= size` when the hash has the new bit, or `i = hash & newmask`) before the pair is linked - otherwise the pair sits in a bucket where lookups with the new mask never search", 5)
    ngm = 0
    for g in sorted(prog.functions(), key=lambda x: (x.file, x.line)):
        if g.name == "growMap" or not g.file.endswith(("lib/lpc/object.c", "lib/lpc/mapping.c")):
            continue
        gm = [(b, i, n) for b, i, n in g.calls("growMap")]
        if not gm:
            continue
        # locals that hold the table, and the integer locals used to address a bucket in it
        tbl = set()
        for b, i, n in g.nodes():
            if n.get("k") == "Asg" and n.get("op") == "=" and strip(n["L"]).get("k") == "Ref" and strip(n["R"]).get("k") == "Mem" and strip(n["R"]).get("f") == "table":
                tbl.add(strip(n["L"]).get("id"))
            if n.get("k") == "Decl":
                for v in n.get("vars", ()):
                    if isinstance(v.get("init"), dict) and strip(v["init"]).get("k") == "Mem" and strip(v["init"]).get("f") == "table":
                        tbl.add(v.get("id"))

        def is_table(e):
            e = strip(e)
            return (e.get("k") == "Ref" and e.get("id") in tbl) or (e.get("k") == "Mem" and e.get("f") == "table")
        idx = set()
        for b, i, n in g.nodes():
            if n.get("k") == "Sub" and is_table(n["b"]):
                idx |= {x.get("id") for x in walk(n["i"]) if x.get("k") == "Ref" and x.get("d") == "local"}
            if n.get("k") == "Bin" and n.get("op") == "+" and is_table(n["L"]):
                idx |= {x.get("id") for x in walk(n["R"]) if x.get("k") == "Ref" and x.get("d") == "local"}
        for j, (b, i, n) in enumerate(gm):
            c = g.branch_cond(b)
            if c is None or not any(x is n for x in walk(c)):
                continue
            ngm += 1
            run.saw(g)
            e, t = normalize_cond(c, True)
            s_ok = b.succ[0] if t else b.succ[1]
            s_fail = b.succ[1] if t else b.succ[0]
            fail_reach = cfgq.reach_set(g, [s_fail]) if s_fail is not None else set()
            region = {x for x in cfgq.reach_set(g, [s_ok]) if g.dominates(s_ok, x)} if s_ok is not None else set()
            upd = [(b2, n2) for b2, i2, n2 in g.nodes() if b2.id in region and n2.get("k") == "Asg" and strip(n2["L"]).get("k") == "Ref" and strip(n2["L"]).get("id") in idx and strip(n2["L"]).get("id") is not None]
            # only the part of the region before control joins the failure path counts as "the success branch"
            upd = [(b2, n2) for b2, n2 in upd if b2.id not in fail_reach or g.dominates(s_ok, b2.id)]
            ok = bool(upd) and bool(idx)
            run.ob("C16-n", "rebucket:%s:%d" % (g.name, j), ok, "after growMap() succeeded the bucket index is updated (`%s`, line %s)" % (show(upd[0][1])[:40], upd[0][1].get("l")) if ok else
                   "the success branch of growMap() (line %s) does not update the index with which %s addresses the bucket afterwards: the pending pair is linked into the bucket of the old, smaller table" % (n.get("l"), g.name),
                   g.file, n.get("l"), g.name, what="%s links a pair under the old mask after the table was doubled: the key is listed by keys() but never found" % g.name)
    run.need(ngm >= 5, "insertions that may grow the table (found %d)" % ngm)

    # ---- C16-o the number reader takes every integer the writer can produce
    run.rule("C16-o", "restore: a reader that builds an integer from decimal digits (`acc = acc * 10 + d`) collects the magnitude and applies the sign afterwards; the writer prints every 64-bit integer including the most negative one, whose magnitude is 2^63. A refusal that depends on the accumulated magnitude (`if (acc > (K - d) / 10) return 0`) therefore uses a bound K >= 2^63; a tighter bound refuses -9223372036854775808, which save_object()/save_variable() happily write", 1)
    no_ = 0
    for g in sorted(prog.functions(), key=lambda x: (x.file, x.line)):
        if rel(g.file) != "lib/lpc/object.c":
            continue
        accs = {}
        for b2, i2, n2 in g.nodes():
            if n2.get("k") != "Asg":
                continue
            L_ = strip(n2["L"])
            if L_.get("k") != "Ref" or L_.get("d") != "local":
                continue
            if (n2.get("op") == "*=" and const_val(n2["R"]) == 10) or (n2.get("op") == "=" and any(y.get("k") == "Bin" and y.get("op") == "*" and strip(y["L"]).get("id") == L_.get("id") and const_val(y["R"]) == 10 for y in walk(n2["R"]))):
                accs[L_["id"]] = L_.get("n")
        for aid, aname in sorted(accs.items()):
            no_ += 1
            run.saw(g)
            verdict, why = True, "no refusal of %s() depends on the magnitude collected in `%s`" % (g.name, aname)
            for bid in g.reachable():
                blk = g.blocks[bid]
                c = g.branch_cond(blk)
                if c is None or len(blk.succ) < 2 or not any(y.get("k") == "Ref" and y.get("id") == aid for y in walk(c)):
                    continue
                for truth, s in ((True, blk.succ[0]), (False, blk.succ[1])):
                    if s is None:
                        continue
                    sb = g.blocks[s]
                    refuses = any(x.get("k") == "Return" and x.get("e") is not None and const_val(x["e"]) == 0 for e in sb.el for x in walk(e, True)) or sb.nr
                    if not refuses:
                        continue
                    op, l, r = atom_of(c, truth)
                    K = None
                    if r is not None and op in (">", ">=") and strip(l).get("id") == aid:
                        r0 = strip(r)
                        if r0.get("k") == "Bin" and r0.get("op") == "/" and const_val(r0["R"]) == 10:
                            inner = strip(r0["L"])
                            K = const_val(inner) if const_val(inner) is not None else (const_val(inner["L"]) if inner.get("k") == "Bin" and inner.get("op") == "-" else None)
                        elif const_val(r0) is not None:
                            K = const_val(r0) * 10
                    if K is not None and K < 0 and any("unsigned" in (y.get("t") or "") or "uint64" in (y.get("t") or "") for y in walk(r)):
                        K += 2 ** 64        # the extractor prints 64-bit literals as signed
                    if K is None:
                        if verdict is True:
                            verdict, why = None, "%s() refuses under `%s` (line %s), a test on the collected magnitude this rule does not read" % (g.name, show(c)[:60], c.get("l"))
                    elif K < 2 ** 63:
                        verdict, why = False, "%s() refuses (line %s) once the magnitude would exceed %d; the most negative 64-bit integer has magnitude 2^63 = 9223372036854775808 and is refused although the writer produces it: a saved object holding it does not restore" % (g.name, c.get("l"), K)
            run.ob("C16-o", "magnitude:%s:%s" % (g.name, aname), verdict, why, g.file, g.line, g.name, what="%s refuses an integer the save side writes" % g.name)
    run.need(no_ >= 1, "decimal accumulators in the restore unit (found %d)" % no_)
