"""C16 — save/restore: atomic saves, size/write agreement, no-clear restore (structural clauses;
round-trip equality and robustness on arbitrary text are not decided).

C16-a  atomic replace in save_object: all writes go to a stream opened on the temporary name; the only
       file-system operation on the final name is rename(tmp, final), reached only after fclose()
       succeeded and with success set; every failure path removes the temporary
C16-b  svalue_save_size and save_svalue are siblings: same tag cases; per tag the constant bytes
       written (+ terminator) fit the constant accounted; per-element delimiters match; callers
       allocate exactly the computed size
C16-c  safe_restore_svalue (no-clear restore) stores into the target only after a successful parse"""
import facts
import cfgq
from core import rel
from facts import strip, show, walk, const_val, normalize_cond, atom_of


def check(run, prog, tier):
    run.rule("C16-a", "save_object: stream opened on the temporary; writes use that stream; the final name appears only as rename()'s target, after a successful fclose and under `success`; failure paths unlink the temporary", 5)
    run.rule("C16-b", "svalue_save_size / save_svalue agree per tag (cases, constant overhead, per-element delimiters); save_object_recurse and save_variable allocate what svalue_save_size returned", 8)
    run.rule("C16-d", "top-level restore functions clear the parser's file-scope nesting state (save_svalue_depth) before every compound restore starts, or reset it on every path after one, success or error", 1)
    run.rule("C16-c", "safe_restore_svalue assigns *v only on the success path, after freeing the old value; every parse-error return precedes it", 2)

    unit = prog.unit("lib/lpc/object.c")
    so = run.need(unit.funcs.get("save_object"), "save_object")
    sor = run.need(unit.funcs.get("save_object_recurse"), "save_object_recurse")
    sv = run.need(unit.funcs.get("save_variable"), "save_variable")
    ss = run.need(unit.funcs.get("svalue_save_size"), "svalue_save_size")
    sw = run.need(unit.funcs.get("save_svalue"), "save_svalue")
    srs = run.need(unit.funcs.get("safe_restore_svalue"), "safe_restore_svalue")
    for f in (so, sor, sv, ss, sw, srs):
        run.saw(f)

    # ---- C16-a
    import pathprov
    fops = [(b, i, n) for b, i, n in so.calls() if n.get("fn") in pathprov.SINKS]
    opens = [(b, i, n) for b, i, n in fops if n["fn"] in ("fopen", "open", "freopen")]
    run.need(opens, "fopen in save_object")
    tmpvar = show(strip(opens[0][2]["args"][0]))
    # the final name variable: assigned from check_valid_path
    final = None
    for b, i, n in so.nodes():
        if n.get("k") == "Asg" and strip(n["R"]).get("fn") == "check_valid_path":
            final = show(strip(n["L"]))
    run.need(final, "check_valid_path result in save_object")
    ok_open = all(show(strip(n["args"][0])) == tmpvar for b, i, n in opens) and tmpvar != final
    run.ob("C16-a", "open-temp", ok_open, "stream opened on %s (final name is %s)" % (tmpvar, final), so.file, opens[0][2].get("l"), "save_object", what="save_object opens the final save file for writing (a crash mid-save destroys the previous save)")
    # temp name derived from final name
    derived = any(n.get("fn") in ("snprintf", "sprintf") and show(strip(n["args"][0])) == tmpvar and any(show(strip(a)) == final for a in n["args"][2:]) for b, i, n in so.calls())
    run.ob("C16-a", "temp-derived", derived, "%s is formatted from %s" % (tmpvar, final), so.file, so.line, "save_object", what="the temporary name is not derived from the approved path")
    # every use of the final name in a file-system call is rename's second argument
    uses = []
    for b, i, n in fops:
        for ai, a in enumerate(n["args"]):
            if show(strip(a)) == final:
                uses.append((n["fn"], ai, n.get("l")))
    ok_uses = bool(uses) and all(fn == "rename" and ai == 1 for fn, ai, l in uses)
    run.ob("C16-a", "final-only-rename", ok_uses, "file-system calls naming the final file: %s" % uses, so.file, uses[0][2] if uses else so.line, "save_object",
           what="save_object touches the final save file other than by rename(): %s" % [u for u in uses if not (u[0] == "rename" and u[1] == 1)])
    ren = [(b, i, n) for b, i, n in fops if n["fn"] == "rename"]
    run.need(ren, "rename in save_object")
    rb, ri_, rn = ren[0]
    fcl = [(b, i, n) for b, i, n in so.calls("fclose")]
    g = [(strip(normalize_cond(c, t)[0]), normalize_cond(c, t)[1]) for c, t, B in cfgq.guards(so, rb.id)]
    under_success = any(e.get("n") == "success" and t for e, t in g)
    fclose_dom = any(so.point_dominates((b.id, i), (rb.id, ri_)) for b, i, n in fcl)
    # fclose failure clears success
    clr = False
    for b, i, n in fcl:
        c = so.branch_cond(b)
        if c is not None and any(x is n or show(x) == show(n) for x in walk(c)):
            op, l, r = atom_of(c, True)
            fail = so.blocks[b.id].succ[0] if op in ("<", "!=") else so.blocks[b.id].succ[1]
            if fail is not None and any(n2.get("k") == "Asg" and strip(n2["L"]).get("n") == "success" and const_val(n2["R"]) == 0 for e2 in so.blocks[fail].el for n2 in walk(e2)):
                clr = True
    run.ob("C16-a", "rename-after-fclose", under_success and fclose_dom and clr, "rename under `success` (%s), dominated by fclose (%s), fclose failure clears success (%s)" % (under_success, fclose_dom, clr), so.file, rn.get("l"), "save_object",
           what="save_object can rename a temporary whose data is not known to be on disk")
    # writes use the stream
    fvar = None
    for b, i, n in so.nodes():
        if n.get("k") == "Asg" and strip(n["R"]).get("fn") == "fopen":
            fvar = strip(n["L"]).get("n")
    wr_ok = True
    wr = []
    for f in (so, sor):
        for b, i, n in f.calls():
            if n.get("fn") in ("fprintf", "fwrite", "fputs", "fputc"):
                a = strip(n["args"][0] if n["fn"] == "fprintf" else n["args"][-1])
                wr.append((f.name, show(a)))
                if a.get("n") != fvar and not (f is sor and a.get("d") == "param"):
                    wr_ok = False
    passes = any(n.get("fn") == "save_object_recurse" and any(strip(a).get("n") == fvar for a in n["args"]) for b, i, n in so.calls())
    run.ob("C16-a", "writes-to-temp-stream", wr_ok and passes and bool(wr), "writes: %s; stream %s passed to save_object_recurse: %s" % (wr, fvar, passes), so.file, so.line, "save_object",
           what="save data is written to something other than the temporary's stream")
    # failure unlinks the temporary
    unl = [(b, i, n) for b, i, n in fops if n["fn"] in ("unlink", "remove") and show(strip(n["args"][0])) == tmpvar]
    fail_unl = any(any(e.get("n") == "success" and not t for e, t in [(strip(normalize_cond(c, t)[0]), normalize_cond(c, t)[1]) for c, t, B in cfgq.guards(so, b.id)]) for b, i, n in unl)
    run.ob("C16-a", "failure-unlinks-temp", fail_unl, "unlink(%s) on the !success branch: %s" % (tmpvar, fail_unl), so.file, so.line, "save_object", what="a failed save leaves its temporary behind")

    # ---- C16-b
    def case_regions(f):
        S = [bid for bid in f.reachable() if f.blocks[bid].term and f.blocks[bid].term["k"] == "SwitchStmt"]
        if not S:
            return {}
        S = S[0]
        out = {}
        for s in f.blocks[S].live_succ():
            lab = f.blocks[s].label
            name = (lab.get("src") if lab and lab.get("k") == "case" else "default") if lab else None
            if name is None:
                continue
            out[name] = cfgq.reach_set(f, [s], avoid_blocks=[S])
        return out
    rs, rw = case_regions(ss), case_regions(sw)
    tags_s = set(rs) - {"default"}
    tags_w = set(rw) - {"default"}
    run.ob("C16-b", "tags", tags_s == tags_w and bool(tags_s), "svalue_save_size cases %s; save_svalue cases %s" % (sorted(tags_s), sorted(tags_w)), ss.file, ss.line, "svalue_save_size",
           what="svalue_save_size and save_svalue disagree on the value tags they handle: %s" % sorted(tags_s ^ tags_w))

    def in_loop(f, bid, region):
        return bid in cfgq.reach_set(f, [s for s in f.blocks[bid].live_succ() if s in region], avoid_blocks=[b for b in f.reachable() if b not in region])

    for tag in sorted(tags_s & tags_w):
        if tag in ("T_NUMBER", "T_REAL"):
            continue
        # constant accounted: `return size + K` / `return K + size`
        K = None
        for bid in rs[tag]:
            for e in ss.blocks[bid].el:
                if e.get("k") == "Return" and "e" in e:
                    r = strip(e["e"])
                    if r.get("k") == "Bin" and r.get("op") == "+":
                        K = const_val(r["L"]) if const_val(r["L"]) is not None else const_val(r["R"])
        # constant char stores outside loops in the writer (+1 for the terminator it leaves behind)
        consts = 0
        per_iter = 0
        for bid in rw[tag]:
            loop = in_loop(sw, bid, rw[tag])
            for e in sw.blocks[bid].el:
                for n in walk(e, True):
                    if n.get("k") == "Asg" and n.get("op") == "=" and strip(n["L"]).get("k") == "Un" and strip(n["L"]).get("op") == "*" and const_val(n["R"]) not in (None, 0):
                        inner = strip(strip(n["L"])["e"])
                        if inner.get("k") == "Un" and inner.get("op") == "++":
                            if loop:
                                per_iter += 1
                            else:
                                consts += 1
        # per-element: number of recursive size calls per loop iteration
        calls_iter = 0
        for bid in rs[tag]:
            if in_loop(ss, bid, rs[tag]):
                for e in ss.blocks[bid].el:
                    calls_iter += sum(1 for n in walk(e, True) if n.get("k") == "Call" and n.get("fn") == "svalue_save_size")
        if tag == "T_STRING":
            # escape pairs are data, not overhead: each escaped char stores 2 and is accounted 2
            per_iter = 0
            calls_iter = 0
        ok = K is not None and consts + 1 <= K and per_iter <= max(calls_iter, per_iter if tag == "T_STRING" else calls_iter)
        run.ob("C16-b", "overhead:" + tag, ok, "%s: accounted constant %s; constant bytes written %d (+1 terminator); per element: %d delimiter store(s) vs %d accounted value(s)" % (tag, K, consts, per_iter, calls_iter),
               sw.file, sw.line_of_block(min(rw[tag])), "save_svalue", what="save_svalue writes more constant bytes for %s than svalue_save_size accounts (heap overflow in save_object/save_variable)" % tag)
    # default writer: tags without a case in save_svalue write nothing, size accounts a positive constant
    dflt = None
    for bid in rs.get("default", []):
        for e in ss.blocks[bid].el:
            if e.get("k") == "Return" and "e" in e:
                dflt = const_val(e["e"])
    run.ob("C16-b", "overhead:default", dflt is not None and dflt >= 1, "other tags: nothing written, %s byte(s) accounted" % dflt, ss.file, ss.line, "svalue_save_size")
    # callers
    for f in (sor, sv):
        size_var = None
        for b, i, n in f.nodes():
            if n.get("k") == "Asg" and strip(n["R"]).get("fn") == "svalue_save_size":
                size_var = strip(n["L"]).get("n")
        alloc = None
        for b, i, n in f.calls():
            if n.get("fn") in ("xalloc", "malloc", "new_string", "int_new_string", "DXALLOC"):
                alloc = n
        ok = False
        why = "no allocation from svalue_save_size"
        if size_var and alloc:
            a = strip(alloc["args"][0])
            if alloc["fn"] in ("new_string", "int_new_string"):
                ok = a.get("k") == "Bin" and a.get("op") == "-" and strip(a["L"]).get("n") == size_var and const_val(a["R"]) == 1
            else:
                ok = a.get("n") == size_var
            why = "%s allocates %s from %s = svalue_save_size(...)" % (f.name, show(alloc)[:50], size_var)
        run.ob("C16-b", "alloc:" + f.name, ok, why, f.file, f.line, f.name, what="%s does not allocate the size computed by svalue_save_size" % f.name)

    # ---- C16-d: the restore parser's file-scope nesting state is reset on every exit of a top-level restore
    COMPOUND = ("restore_array", "restore_mapping", "restore_class")
    tops = [f for f in unit.funcs.values() if f.file.endswith("object.c") and f.name not in COMPOUND and f.name not in ("restore_internal_size", "restore_size")
            and any(True for _ in f.calls(COMPOUND))]
    run.need(len(tops) >= 1, "top-level restore entry points")
    for f in sorted(tops, key=lambda x: x.line):
        run.saw(f)
        resets = [bid for bid in f.reachable() if f.branch_cond(bid) is not None and strip(f.branch_cond(bid)).get("n") == "save_svalue_depth"]
        zero = any(n.get("k") == "Asg" and "save_svalue_depth" in show(n["L"]) and (const_val(n["R"]) == 0 or "= 0" in show(n)) for b, i, n in f.nodes())
        calls = [(b, i, n) for b, i, n in f.calls(COMPOUND)]
        bad = None
        for b, i, n in calls:
            p = f.reach_avoiding(b.live_succ() if b.id not in resets else [], lambda blk: f.exit in blk.live_succ() and not blk.nr, avoid_blocks=resets)
            if p is not None:
                bad = (n["fn"], p)
        # alternatively the state is cleared when a container restore starts: a plain `save_svalue_depth = 0` that
        # dominates every call of restore_array/mapping/class makes a leftover from an earlier error harmless
        entry = [(b2.id, i2) for b2, i2, n2 in f.nodes() if n2.get("k") == "Asg" and n2.get("op") == "=" and strip(n2["L"]).get("n") == "save_svalue_depth" and const_val(n2["R"]) == 0]
        entry_ok = bool(calls) and all(any(f.point_dominates(e, (b.id, i)) for e in entry) for b, i, n in calls)
        ok = (bool(resets) and zero and bad is None) or entry_ok
        if entry_ok and not (bool(resets) and zero and bad is None):
            bad = None
        run.ob("C16-d", "reset:%s" % f.name, ok, ("save_svalue_depth is cleared before every container restore starts" if entry_ok and not (bool(resets) and zero) else "after %s every path to a return passes the `if (save_svalue_depth)` reset (and the depth is %scleared on entry)" % ("/".join(sorted({n["fn"] for b, i, n in calls})), "" if entry_ok else "not ")) if ok else
               ("path %s returns from %s after %s without resetting save_svalue_depth/save_svalue_sizes" % (bad[1][:8], f.name, bad[0]) if bad else "%s has no reset of the nesting state" % f.name),
               f.file, f.line, f.name, what="%s can return (on a parse error) with the restore nesting state still set: the next restore of valid text is mis-sized or reads a freed table" % f.name)

    # ---- C16-c
    stores = [(b, i, n) for b, i, n in srs.nodes() if n.get("k") == "Asg" and strip(n["L"]).get("k") == "Un" and strip(n["L"]).get("op") == "*" and strip(strip(n["L"])["e"]).get("d") == "param"]
    frees = [(b, i, n) for b, i, n in srs.calls("free_svalue") if strip(n["args"][0]).get("d") == "param"]
    okc = len(stores) == 1 and len(frees) == 1 and srs.point_dominates((frees[0][0].id, frees[0][1]), (stores[0][0].id, stores[0][1]))
    # no parser writes through v directly: calls to restore_* take &val
    direct = [show(n) for b, i, n in srs.calls() if n.get("fn", "").startswith("restore_") or n.get("fn") == "parse_numeric" if any(strip(a).get("d") == "param" and strip(a).get("n") == "v" for a in n["args"])]
    run.ob("C16-c", "store-after-parse", okc and not direct, "*v assigned once, after free_svalue(v); parsers write into a local (%s)" % ("ok" if not direct else direct), srs.file, srs.line, "safe_restore_svalue",
           what="no-clear restore can overwrite the old value before the new one parsed")
    # every error return precedes the free
    errs = [(b, i, e) for b, i, e in srs.elements() if e.get("k") == "Return" and "e" in e and const_val(e["e"]) != 0]
    bad = [e.get("l") for b, i, e in errs if frees and (frees[0][0].id == b.id and frees[0][1] < i or (frees[0][0].id != b.id and b.id in cfgq.reach_set(srs, [frees[0][0].id])))]
    run.ob("C16-c", "errors-before-free", not bad and bool(errs), "%d error returns, none after the old value was freed" % len(errs) if not bad else "error return(s) at line %s after the old value was freed" % bad,
           srs.file, srs.line, "safe_restore_svalue", what="no-clear restore frees the old value and then fails")

    # ---- C16-e variable layout: every walker of the inherit tree accounts for the inherited part first
    run.rule("C16-e", "functions that walk a program's variables with a running cursor (save_object_recurse, fgv_recurse, cns_recurse, cns_just_count ...) touch num_variables_defined only after the loop that recurses into prog->inherit[]: save and restore must agree that a program's block is [inherited subtrees..., own variables]", 4)
    nw = 0
    for f in sorted(prog.functions(), key=lambda x: (x.file, x.line)):
        # recursion over the inherit list with a pointer cursor parameter
        rec = [(b, i, n) for b, i, n in f.calls() if n.get("fn") and any(x.get("k") == "Mem" and x.get("f") == "inherit" for a in n.get("args", []) for x in walk(a))
               and any("*" in (p.get("t") or "") and ("int *" in (p.get("t") or "") or "svalue_s **" in (p.get("t") or "")) for p in (f.params or []))]
        uses = [(b, i, n) for b, i, n in f.nodes() if n.get("k") == "Mem" and n.get("f") == "num_variables_defined"]
        cursor_adv = [(b, i, n) for b, i, n in f.nodes() if n.get("k") in ("Asg", "Un") and ((n.get("k") == "Asg" and n.get("op") == "+=") or (n.get("k") == "Un" and n.get("op") == "++"))
                      and strip(n["L"] if n.get("k") == "Asg" else n["e"]).get("k") == "Un" and strip(n["L"] if n.get("k") == "Asg" else n["e"]).get("op") == "*"]
        if not rec or not uses or not cursor_adv:
            continue
        if not any(n.get("fn") == f.name or n.get("fn", "").startswith(f.name[:3]) for b, i, n in rec):
            continue
        nw += 1
        run.saw(f)
        heads = [bid for bid in f.reachable() if f.branch_cond(bid) is not None and any(x.get("k") == "Mem" and x.get("f") == "num_inherited" for x in walk(f.branch_cond(bid)))]
        bad = [n.get("l") for b, i, n in uses if not any(f.dominates(h, b.id) for h in heads)]
        run.ob("C16-e", "layout:%s:%s" % (rel(f.file), f.name), bool(heads) and not bad,
               "every use of num_variables_defined comes after the recursion over prog->inherit[]" if heads and not bad else "num_variables_defined is used at line(s) %s on a path that has not walked the inherited programs: the cursor skips only this program's own variables where the other walkers skip the whole subtree" % bad,
               f.file, f.line, f.name, what="%s advances the variable cursor past a program without accounting for its inherited variables (save/restore layout disagreement)" % f.name)
    run.need(nw >= 4, "inherit-tree walkers with a variable cursor (found %d)" % nw)
