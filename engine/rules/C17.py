"""C17 — a saved binary is never used when stale (staleness clause only; binary/source
equivalence is not decided).

C17-a  load_binary(): every path to the successful return passes each staleness test on its
       passing edge; a failing edge can never reach the successful return:
       source mtime, driver_id, config_id, program name, every include (loop), every inherit's
       source and binary (loop)
C17-b  check_times(): 'stale' when the dependency's st_mtime is greater; 'missing' distinguished
C17-c  the preamble is written and read in the same order with the same objects; config_id comes
       from the simul_efun file's mtime in init_binaries only; driver_id is never written"""
import facts
import cfgq
from core import rel
from facts import strip, show, walk, const_val, normalize_cond, atom_of


def check(run, prog, tier):
    run.rule("C17-a", "load_binary: the successful return is reachable only through the passing edge of every staleness test (source, driver id, config id, name, each include, each inherit source and binary)", 7)
    run.rule("C17-d", "the '.c' -> '.b' rewrite `path[len - 1] = 'b'` uses len = strlen/sprintf length of that same path, taken after the path was last written", 3)
    run.rule("C17-b", "check_times returns 0 (stale) exactly on st_mtime > mtime and -1 when the file is missing", 2)
    run.rule("C17-c", "save_binary writes and load_binary reads magic, driver_id, config_id in the same order; config_id is assigned only in init_binaries from the simul_efun file's st_mtime; driver_id has no writers", 3)

    unit = prog.unit("lib/lpc/program/binaries.c")
    lb = run.need(unit.funcs.get("load_binary"), "load_binary")
    ct = run.need(unit.funcs.get("check_times"), "check_times")
    sb = run.need(unit.funcs.get("save_binary"), "save_binary")
    import inline as _inl
    ib = _inl.inlined(run.need(unit.funcs.get("init_binaries"), "init_binaries"))
    for f in (lb, ct, sb, ib):
        run.saw(f)

    succ_ret = [(b, i, e) for b, i, e in lb.elements() if e.get("k") == "Return" and "e" in e and const_val(e["e"]) is None]
    run.need(succ_ret, "successful return in load_binary")
    R = succ_ret[-1][0].id

    # staleness tests: (label, predicate over the stripped atom) ; stale truth computed per atom
    tests = []
    for bid in sorted(lb.reachable(), reverse=True):
        c = lb.branch_cond(bid)
        if c is None:
            continue
        e, t = normalize_cond(c, True)
        e = strip(e)
        label = None
        stale_truth = None
        if e.get("k") == "Bin":
            L, Rr = strip(e["L"]), strip(e["R"])
            if L.get("k") == "Call" and L.get("fn") == "check_times":
                arg = show(strip(L["args"][1]))
                label = "check_times(%s) %s %s" % (arg, e["op"], show(Rr))
                # stale when the comparison with 0 holds for <=0 or ==0
                if e["op"] in ("<=", "==", "<") and const_val(Rr) == 0:
                    stale_truth = True
                elif e["op"] in (">", "!=") and const_val(Rr) == 0:
                    stale_truth = False
                # "a file that was looked for in vain has appeared": stale when check_times does not answer -1
                elif e["op"] == "!=" and const_val(Rr) == -1:
                    stale_truth = True
                elif e["op"] == "==" and const_val(Rr) == -1:
                    stale_truth = False
            elif e.get("op") in ("!=", "==") and {L.get("n"), Rr.get("n")} & {"driver_id", "config_id"}:
                which = ({L.get("n"), Rr.get("n")} & {"driver_id", "config_id"}).pop()
                label = "%s compared with the saved value" % which
                stale_truth = e["op"] == "!="
            elif e.get("op") in ("!=", "==") and L.get("k") == "Call" and L.get("fn") == "strcmp" and any(strip(a).get("d") == "param" for a in L["args"]) and const_val(Rr) == 0:
                label = "program name compared (strcmp(name, saved))"
                stale_truth = e["op"] == "!="
        if label is None or stale_truth is None:
            continue
        blk = lb.blocks[bid]
        # edge taken when the stripped atom has truth stale_truth
        s_stale = blk.succ[0] if (stale_truth == t) else blk.succ[1]
        s_pass = blk.succ[1] if (stale_truth == t) else blk.succ[0]
        tests.append((bid, label, s_stale, s_pass))
    kinds = {"source": [x for x in tests if "check_times(name)" in x[1]],
             "driver_id": [x for x in tests if x[1].startswith("driver_id")],
             "config_id": [x for x in tests if x[1].startswith("config_id")],
             "name": [x for x in tests if x[1].startswith("program name")],
             "include": [x for x in tests if "check_times(iname" in x[1]],
             "inherit-source": [x for x in tests if "check_times(buf)" in x[1]],
             "inherit-binary": [x for x in tests if "check_times(file_name_two)" in x[1]]}
    for kind, lst in kinds.items():
        inst = "stale:%s" % kind
        if not lst:
            run.ob("C17-a", inst, False, "no %s staleness test found in load_binary" % kind, lb.file, lb.line, "load_binary", what="load_binary does not test the %s for staleness" % kind)
            continue
        bid, label, s_stale, s_pass = lst[0]
        in_loop = bid in cfgq.reach_set(lb, lb.blocks[bid].live_succ())
        why = []
        ok = True
        # (i) the failing edge never reaches success
        if s_stale is not None:
            p = lb.reach_avoiding([s_stale], lambda blk: blk.id == R, avoid_blocks=[bid])
            if p is not None:
                ok = False
                why.append("the stale edge reaches the successful return via %s" % p)
        if not in_loop:
            # (ii) every path to success passes this test (the name test may be skipped only when no name was saved: `len > 0` false)
            skip_edges = set()
            # a local that sizes an fread() (the saved length of the name), whatever it is called
            read_len_ids = {x.get("id") for b3, i3, n3 in lb.calls("fread") for a in n3.get("args", [])[1:3] for x in walk(a) if x.get("k") == "Ref" and x.get("d") == "local"}
            if kind == "name":
                for b2 in lb.reachable():
                    c2 = lb.branch_cond(b2)
                    if c2 is not None and atom_of(c2, True)[0] == ">" and strip(atom_of(c2, True)[1]).get("id") in read_len_ids and strip(atom_of(c2, True)[1]).get("id") is not None and const_val(atom_of(c2, True)[2]) == 0 and lb.dominates(b2, bid):
                        skip_edges.add((b2, lb.blocks[b2].succ[1]))
            p = lb.reach_avoiding([lb.entry], lambda blk: blk.id == R, avoid_blocks=[bid], avoid_edges=skip_edges)
            if p is not None:
                ok = False
                why.append("path %s reaches the successful return without this test" % p[:12])
        else:
            # loop form: the loop head dominates success, and every iteration (cycle through the head) passes the test
            heads = [h for h in lb.reachable() if any(p_ in lb.reachable() and lb.dominates(h, p_) for p_ in lb.blocks[h].preds) and lb.dominates(h, bid)]
            heads = sorted(heads, key=lambda h: -len([1 for x in lb.reachable() if lb.dominates(h, x)]))
            H = heads[-1] if heads else None  # innermost loop head dominating the test
            if H is None or not lb.dominates(H, R):
                ok = False
                why.append("the loop containing the test does not dominate the successful return")
            else:
                body_entry = lb.blocks[H].succ[0]
                # an entry may be of more than one sort (a file that was included / a place where one was looked for in
                # vain): every iteration has to pass one of the tests of this kind
                p = lb.reach_avoiding([body_entry], lambda blk: blk.id == H, avoid_blocks=[x[0] for x in lst]) if body_entry is not None else None
                # for the second test of a short-circuit pair (source || binary) reaching it requires passing the first
                if p is not None and kind != "inherit-binary":
                    ok = False
                    why.append("an iteration %s returns to the loop head without the test" % p)
        run.ob("C17-a", inst, ok, "%s at block %d%s: %s" % (label, bid, " (per entry of a loop)" if in_loop else "", "; ".join(why) or "passing edge required on every path to the successful return; stale edge cannot reach it"),
               lb.file, lb.line_of_block(bid), "load_binary", what="load_binary can return a program although the %s is newer/mismatched: %s" % (kind, "; ".join(why)))

    # ---- C17-d: the ".c" -> ".b" suffix rewrite indexes the path by its own length
    from dataflow import solve
    for f in (lb, sb):
        sites = []
        for b, i, n in f.nodes():
            if n.get("k") == "Asg" and n.get("op") == "=" and const_val(n["R"]) == ord("b"):
                l = strip(n["L"])
                if l.get("k") == "Sub":
                    idx = strip(l["i"])
                    if idx.get("k") == "Bin" and idx.get("op") == "-" and const_val(idx["R"]) == 1 and strip(idx["L"]).get("k") == "Ref":
                        sites.append((b, i, n, show(strip(l["b"])), strip(idx["L"])))
        if not sites:
            continue
        lenvars = {s[4].get("id") for s in sites}

        # reaching definitions of the length variable(s): which buffer's length they hold
        def transfer(record):
            def t(blk, st):
                for i, e in enumerate(blk.el):
                    for n in walk(e, True):
                        if n.get("k") == "Asg" and strip(n["L"]).get("id") in lenvars and strip(n["L"]).get("k") == "Ref":
                            r = strip(n["R"])
                            src = "?"
                            if r.get("k") == "Call" and r.get("fn") in ("strlen", "__builtin_strlen"):
                                src = "len(" + show(strip(r["args"][0])) + ")"
                            elif r.get("k") == "Call" and r.get("fn") in ("sprintf", "snprintf", "__builtin_sprintf"):
                                src = "len(" + show(strip(r["args"][0])) + ")"
                            elif n.get("op") != "=":
                                src = "?"
                            st = dict(st)
                            st[strip(n["L"]).get("id")] = frozenset([src])
                        elif n.get("k") == "Call" and n.get("fn") in ("sprintf", "snprintf", "strcpy", "strcat", "strncpy", "strncat"):
                            # the buffer is rewritten: a length taken before is stale
                            tgt = show(strip(n["args"][0]))
                            st = dict(st)
                            for k2, v2 in list(st.items()):
                                st[k2] = frozenset(("stale(" + x + ")") if x == "len(" + tgt + ")" else x for x in v2)
                            # sprintf's own result is handled by the enclosing assignment above (evaluated after the call element)
                    if record is not None:
                        for b2, i2, n2, buf, lv in sites:
                            if b2.id == blk.id and i2 == i:
                                record.append((n2, buf, lv, st.get(lv.get("id"), frozenset(["unset"]))))
                return st
            return t

        def join(a, b):
            out = dict(a)
            for k2, v2 in b.items():
                out[k2] = out.get(k2, frozenset()) | v2
            return out
        ins = solve(f, {}, transfer(None), None, join)
        rec = []
        tr = transfer(rec)
        for bid in sorted(f.reachable(), reverse=True):
            if bid in ins:
                tr(f.blocks[bid], ins[bid])
        for j, (n, buf, lv, defs) in enumerate(rec):
            # the assignment `len = sprintf(buf,...)` evaluates the call first (stale) then assigns len(buf): fine.
            ok = defs == frozenset(["len(" + buf + ")"])
            run.ob("C17-d", "suffix:%s:%d" % (f.name, j), ok, "`%s` with %s holding %s" % (show(n), lv.get("n"), sorted(defs)), f.file, n.get("l"), f.name,
                   what="%s rewrites the '.c' suffix of %s at an index that is not that path's own length (%s): the dependency's binary is looked up under a wrong name and its staleness is never seen" % (f.name, buf, sorted(defs)))

    # ---- C17-b
    stale_ok = miss_ok = False
    def value_on_edge(f, bid, idx):
        """constant returned when the branch of block bid is left through successor idx (`if (c) return K;` or
        `return c ? K : L;`), or None"""
        c0 = f.branch_cond(bid)
        cur = f.blocks[bid].succ[idx]
        for _ in range(6):
            if cur is None:
                return None
            blk2 = f.blocks[cur]
            for e in blk2.el:
                if e.get("k") == "Return" and "e" in e:
                    v = strip(e["e"])
                    if const_val(v) is not None:
                        return const_val(v)
                    if v.get("k") == "Cond" and show(strip(v["c"])) == show(strip(c0)):
                        return const_val(v["a"] if idx == 0 else v["b"])
                    return None
            ls = blk2.live_succ()
            if len(ls) != 1:
                return None
            cur = ls[0]
        return None
    for bid in ct.reachable():
        c = ct.branch_cond(bid)
        if c is None:
            continue
        blk = ct.blocks[bid]
        for idx, truth in ((0, True), (1, False)):
            op, l, r = atom_of(c, truth)
            if op == ">" and "st_mtim" in show(l) and strip(r).get("d") == "param":
                stale_ok = value_on_edge(ct, bid, idx) == 0
            if op == "==" and strip(l).get("fn") in ("stat", "lstat") and const_val(r) == -1:
                miss_ok = value_on_edge(ct, bid, idx) == -1
    run.ob("C17-b", "stale-is-greater", stale_ok, "st_mtime > mtime returns 0" if stale_ok else "check_times does not report a newer dependency as stale", ct.file, ct.line, "check_times",
           what="check_times does not return 0 when the dependency is newer than the binary")
    run.ob("C17-b", "missing", miss_ok, "stat failure returns -1" if miss_ok else "check_times does not distinguish a missing file", ct.file, ct.line, "check_times",
           what="check_times treats a missing dependency as up to date")

    # ---- C17-c
    def seq(f, fn):
        out = []
        for b, i, n in f.calls(fn):
            a0 = strip(n["args"][0])
            if a0.get("k") == "Un" and a0.get("op") == "&":
                a0 = strip(a0["e"])
            nm = a0.get("n")
            if nm in ("magic_id", "driver_id", "config_id", "bin_driver_id", "bin_config_id", "buf"):
                out.append(nm.replace("bin_", ""))
        return out
    w = seq(sb, "fwrite")[:3]
    r = [x if x != "buf" else "magic_id" for x in seq(lb, "fread")[:3]]
    run.ob("C17-c", "preamble-order", w == ["magic_id", "driver_id", "config_id"] and r == w, "written %s, read %s" % (w, r), sb.file, sb.line, "save_binary",
           what="save_binary/load_binary disagree on the preamble: written %s, read %s" % (w, r))
    cw = []
    dw = []
    for f in prog.functions():
        for b, i, n in f.nodes():
            if n.get("k") == "Asg" and strip(n["L"]).get("n") == "config_id" and strip(n["L"]).get("d") in ("global", "static"):
                rhs_txt = show(n["R"])
                r0 = strip(n["R"])
                # a file-local helper that returns the stat() time or 0 stands for that value
                if r0.get("k") == "Call" and unit.funcs.get(r0.get("fn")) is not None and unit.funcs[r0["fn"]].static:
                    rets = [show(e["e"]) for b2, i2, e in unit.funcs[r0["fn"]].elements() if e.get("k") == "Return" and "e" in e]
                    if rets and all("st_mtim" in t or t.strip() == "0" for t in rets) and any("st_mtim" in t for t in rets):
                        rhs_txt = "st_mtime (through %s())" % r0["fn"]
                cw.append((f.name, rhs_txt))
            if (n.get("k") == "Asg" and strip(n["L"]).get("n") == "driver_id" and strip(n["L"]).get("d") in ("global", "static")):
                dw.append(f.name)
    okc = bool(cw) and all(fn == "init_binaries" and ("st_mtim" in rhs or rhs.strip() == "0") for fn, rhs in cw) and any("st_mtim" in rhs for fn, rhs in cw)
    simul = any(facts.any_in_macro(n["args"][0], "CONFIG_STR") and "SIMUL_EFUN" in "".join(str(x) for x in walk(n["args"][0])) or True for b, i, n in ib.calls("stat"))
    run.ob("C17-c", "config-id-source", okc and simul, "config_id writers: %s" % cw, ib.file, ib.line, "init_binaries", what="config_id is not (only) the simul_efun file's mtime: %s" % cw)
    # the stamp is taken from the simul_efun *source file inside the mudlib*: the configured value is an object name
    # ("/secure/simul_efun"), so stat() must be given a name derived from it (strip_name + ".c"), not the raw setting,
    # which would be looked up at the root of the host's file system
    sts = [(b, i, n) for b, i, n in ib.calls("stat")]
    raw = [n.get("l") for b, i, n in sts if facts.any_in_macro(n["args"][0], "CONFIG_STR") or "config_str" in show(n["args"][0])]
    derived_ok = bool(sts) and not raw and any(n2.get("fn") == "strip_name" for b2, i2, n2 in ib.calls())
    run.ob("C17-c", "config-id-path", derived_ok, "stat() is given a mudlib-relative name made by strip_name() from the configured object name" if derived_ok else
           "stat() at line %s is given the configured simul_efun object name as it is (an absolute path on the host): the stamp is always 0 and a changed simul_efun file never invalidates the binaries" % (raw[0] if raw else "?"),
           ib.file, (raw[0] if raw else ib.line), "init_binaries", what="config_id is not taken from the simul_efun source file inside the mudlib")
    run.ob("C17-c", "driver-id-const", not dw, "driver_id has no writers" if not dw else "driver_id written by %s" % dw, sb.file, None, None, what="driver_id is modified at run time by %s" % dw)

    # ---- C17-e every file the lexer opens for a program is recorded in the include list the binary is checked against
    run.rule("C17-e", "add_program_file: a non-top file reaches A_INCLUDES on every path (the only bypasses are `top` set and the include block not allocated); handle_include calls add_program_file for the file it just opened", 2)
    apf = run.need(prog.func("add_program_file"), "add_program_file")
    run.saw(apf)
    adds = [(b, i, n) for b, i, n in apf.calls("add_to_mem_block") if n.get("args") and facts.any_in_macro(n["args"][0], "A_INCLUDES") or (n.get("args") and "A_INCLUDES" in show(n["args"][0]))]
    run.need(adds, "add_to_mem_block (A_INCLUDES, ..) in add_program_file")
    ab = adds[0][0].id
    allowed_edges = set()
    for bid in apf.reachable():
        c = apf.branch_cond(bid)
        if c is None:
            continue
        c0, t0 = normalize_cond(c, True)
        txt = show(c0)
        blk = apf.blocks[bid]
        if strip(c0).get("k") == "Ref" and strip(c0).get("n") == "top" and strip(c0).get("d") == "param":
            # edge on which top != 0
            allowed_edges.add((bid, blk.succ[0] if t0 else blk.succ[1]))
        elif "A_INCLUDES" in txt and ".block" in txt.replace("->", "."):
            allowed_edges.add((bid, blk.succ[1] if t0 else blk.succ[0]))
    p = apf.reach_avoiding([apf.entry], lambda blk: blk.id == apf.exit, avoid_blocks=[ab], avoid_edges=allowed_edges)
    run.ob("C17-e", "includes-recorded", p is None, "every path through add_program_file with top == 0 and an include block appends the name to A_INCLUDES" if p is None else
           "path %s returns without recording the file in A_INCLUDES although top == 0: load_binary will not compare that file's time stamp" % (p[:8],), apf.file, adds[0][2].get("l"), "add_program_file",
           what="add_program_file can skip the include list for a non-top file; a saved binary is then accepted although that include is newer")
    hi = run.need(prog.func("handle_include"), "handle_include")
    run.saw(hi)
    opens = [(b, i, n) for b, i, n in hi.calls("inc_open")]
    apfc = [(b, i, n) for b, i, n in hi.calls("add_program_file")]
    okh = bool(opens) and bool(apfc) and all(const_val(n["args"][1]) == 0 for b, i, n in apfc if len(n.get("args", [])) > 1)
    run.ob("C17-e", "include-registers", okh, "handle_include registers the opened file with add_program_file(name, 0)" if okh else "handle_include does not call add_program_file(.., 0) for the file it opened", hi.file, hi.line, "handle_include",
           what="handle_include opens an include file without registering it in the program's include list")

    # ---- C17-f the places where an #include looked for its file in vain are part of what the binary depends on
    run.rule("C17-f", "inc_open: after an open() of a candidate path failed, the search goes on to the next candidate only through a call that records the failed candidate (a file appearing there later changes what a fresh compile includes, so the binary must go stale)", 1)
    io = run.need(prog.func("inc_open"), "inc_open")
    run.saw(io)
    opens = [(b, i, n) for b, i, n in io.calls() if n.get("fn") in ("open", "open64", "_open")]
    run.need(len(opens) >= 2, "open() attempts in inc_open (found %d)" % len(opens))
    recs = {b.id for b, i, n in io.calls() if (n.get("fn") or "").startswith("add_program_file")}
    bad = []
    for b, i, n in opens:
        # the failure edge of `(fd = open(..)) != -1`
        c = io.branch_cond(b.id)
        same = lambda x: x is n or (x.get("k") == "Call" and x.get("fn") == n.get("fn") and x.get("l") == n.get("l") and show(x) == show(n))
        tb = b.id
        if c is None or not any(same(x) for x in walk(c)):
            # `fd = open(..);` as a statement of its own, tested in the next branch on that variable
            tb = None
            var = None
            for b2, i2, n2 in io.nodes():
                if n2.get("k") == "Asg" and n2.get("op") == "=" and strip(n2["L"]).get("k") == "Ref" and any(same(x) for x in walk(n2["R"])):
                    var = strip(n2["L"]).get("id")
            if var is not None:
                for bid2 in sorted(io.reachable(), reverse=True):
                    c2 = io.branch_cond(bid2)
                    if c2 is None or not io.dominates(b.id, bid2):
                        continue
                    op2, l2, r2 = atom_of(c2, True)
                    if strip(l2).get("k") == "Ref" and strip(l2).get("id") == var and r2 is not None and const_val(r2) in (-1, 0) and op2 in ("!=", "==", "<", ">="):
                        tb, c = bid2, c2
                        break
            if tb is None:
                bad.append((n.get("l"), ["the result of this open() is not tested"]))
                continue
        op, l, r = atom_of(c, True)
        fail = None
        if r is not None and const_val(r) == -1:
            fail = io.blocks[tb].succ[1] if op == "!=" else (io.blocks[tb].succ[0] if op == "==" else None)
        elif r is not None and const_val(r) == 0 and op in ("<", ">="):
            fail = io.blocks[tb].succ[0] if op == "<" else io.blocks[tb].succ[1]
        if fail is None:
            continue
        others = {b2.id for b2, i2, n2 in opens if n2 is not n}
        # next attempt (another open, or the same one in the next round of the directory loop) without recording
        p = io.reach_avoiding([fail], lambda blk, o=others, me=b.id: blk.id in o or blk.id == me, avoid_blocks=recs)
        if p is not None:
            bad.append((n.get("l"), p[:8]))
    run.ob("C17-f", "absent-candidates-recorded", not bad and bool(recs), "every failed candidate is recorded before the next one is tried (%d open sites)" % len(opens) if not bad and recs else
           ("after the failed open() at line %s the search goes on (path %s) without recording the candidate: a header created there later is not noticed by load_binary()" % bad[0] if bad else "inc_open records nothing"),
           io.file, bad[0][0] if bad else io.line, "inc_open", what="inc_open does not record the include candidates that did not exist")

    # ---- C17-g the patch list that save_binary()/load_binary() walk names the right words
    import rules.unitsrule as unitsrule
    unitsrule.check(run, prog, "C17-g", lambda f, text: "A_PATCH" in text or "patch" in text or f.file.endswith("binaries.c"), 3,
                    "the patch list / function tables written to the binary are addressed in the wrong unit: load_binary() relocates other words than save_binary() recorded and the loaded program differs from the compiled one")


    # ---- C17-h the sort that puts the case tables of a loaded binary back in order moves whole entries
    run.rule("C17-h", "load_binary() re-sorts every string-switch table with the driver's quickSort(); its swap moves `size` bytes. If the swap works in units of u bytes (size / u iterations), every element size handed to quickSort() in the driver is a multiple of u - the switch entries are 10 bytes (pointer + jump address)", 3)
    qs = run.need(prog.func("quickSort"), "quickSort")
    swaps = [g for g in prog.functions() if g.file == qs.file and g.name != qs.name]
    unit_u = 1
    for g in swaps + [qs]:
        for b, i, n in g.nodes():
            if n.get("k") == "Bin" and n.get("op") == "/" and strip(n["L"]).get("d") == "param" and "int" in (strip(n["L"]).get("t") or "") and (const_val(n["R"]) or 0) > 1:
                unit_u = max(unit_u, const_val(n["R"]))
    # the same written as a countdown: `size -= u` per exchange; a byte-wise tail (`size--`, `size -= 1`) in the same
    # function moves the remainder, so the unit is 1 again
    for g in swaps + [qs]:
        steps = set()
        for b, i, n in g.nodes():
            tgt = strip(n["L"]) if n.get("k") == "Asg" else strip(n["e"]) if n.get("k") == "Un" and n.get("op") in ("--",) else None
            if tgt is None or tgt.get("d") != "param" or "int" not in (tgt.get("t") or "") or "*" in (tgt.get("t") or ""):
                continue
            if n.get("k") == "Un":
                steps.add(1)
            elif n.get("op") == "-=" and const_val(n["R"]) is not None:
                steps.add(const_val(n["R"]))
            elif n.get("op") == "=" and strip(n["R"]).get("k") == "Bin" and strip(n["R"]).get("op") == "-" and strip(strip(n["R"])["L"]).get("id") == tgt.get("id") and const_val(strip(n["R"])["R"]) is not None:
                steps.add(const_val(strip(n["R"])["R"]))
        if steps and 1 not in steps:
            unit_u = max(unit_u, min(steps))
    nq = 0
    for f0 in sorted(prog.functions(), key=lambda x: (x.file, x.line)):
        for j, (b, i, n) in enumerate(f0.calls("quickSort")):
            if len(n.get("args", [])) < 3:
                continue
            nq += 1
            sz = const_val(n["args"][2])
            ok = None if sz is None else (sz % unit_u == 0)
            run.ob("C17-h", "sort-element:%s:%d" % (f0.name, j), ok, "quickSort(.., %s): elements of %s bytes, the swap moves units of %d byte(s)" % (show(n["args"][2])[:30], sz, unit_u) if ok is not False else
                   "quickSort(.., %s) at line %s sorts elements of %s bytes, but the swap moves size / %d units of %d bytes: the last %d byte(s) of every entry stay where they were%s" % (
                       show(n["args"][2])[:30], n.get("l"), sz, unit_u, unit_u, (sz or 0) % unit_u, " (the jump addresses of a string switch no longer belong to their labels after a reload)" if f0.name == "patch_in" else ""),
                   f0.file, n.get("l"), f0.name, what="quickSort() does not move whole elements for %s" % f0.name)
    run.need(nq >= 3, "quickSort() calls (found %d)" % nq)
