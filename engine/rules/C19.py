"""C19 — cross-thread notifications, queue, shutdown (structural clauses; interleavings are not decided).

C19-a  lockset: every access to a mutable field of the message queue (fields written outside
       create/destroy) happens while the queue mutex is held; no return while it is held; the
       blocking-writer wait releases the mutex
C19-b  data shared between thread roots (timer thread, worker threads) and the backend is atomic or
       lock-protected
C19-c  an eventfd used as a counter cannot carry payloads: every write to it must be the constant 1"""
import facts
import cfgq
import callgraph
from core import rel
from dataflow import solve
from facts import strip, show, walk, const_val, normalize_cond, atom_of

QREC = ("async_queue_s", "async_queue_t")
LOCK = {"platform_mutex_lock", "pthread_mutex_lock"}
UNLOCK = {"platform_mutex_unlock", "pthread_mutex_unlock"}
SINGLE_THREADED = {"async_queue_create": "object not yet published", "async_queue_destroy": "caller guarantees exclusive ownership"}


def qfield(e):
    e = strip(e)
    if isinstance(e, dict) and e.get("k") == "Mem" and e.get("rec") in QREC:
        return e["f"]
    return None


def check(run, prog, tier):
    run.rule("C19-a", "async_queue: every access to a mutable queue field or to a buffer slot is inside the queue mutex; no return with the mutex held; the blocking wait is bracketed by unlock/lock", 10)
    run.rule("C19-b", "variables written by a thread root's closure (timer thread, worker thread) and accessed by the backend's closure are atomic or accessed under a common lock", 2)
    run.rule("C19-c", "the wake-up channel keeps notifications apart: an eventfd is a plain counter (no EFD_SEMAPHORE), so every write to it must be the constant 1 - a payload written to it adds up with the next one into a wrong key/data; a pipe carries records, each of which must be one write() of a constant size <= PIPE_BUF", 2)

    q = prog.unit("lib/async/async_queue.c")
    qfuncs = [f for f in q.funcs.values() if f.file.endswith("async_queue.c")]
    run.need(len(qfuncs) >= 6, "functions of async_queue.c")
    # mutable fields = written outside create
    mutable = set()
    for f in qfuncs:
        if f.name in SINGLE_THREADED:
            continue
        for b, i, n in f.nodes():
            if n.get("k") == "Asg" and qfield(n["L"]):
                mutable.add(qfield(n["L"]))
            if n.get("k") == "Un" and n.get("op") in ("++", "--") and qfield(n["e"]):
                mutable.add(qfield(n["e"]))
    mutable -= {"mutex", "not_full", "not_empty"}
    run.need({"head", "tail", "count"} <= mutable, "mutable queue fields (found %s)" % sorted(mutable))
    run.extra["protected_fields"] = sorted(mutable)

    import inline
    called_here = {n.get("fn") for g in qfuncs for b, i, n in g.calls()}
    for f0 in sorted(qfuncs, key=lambda x: x.line):
        if f0.name in SINGLE_THREADED or f0.name == "get_slot":
            continue
        if f0.static and f0.name in called_here:
            # a file-local helper is checked in the context of each of its callers (it may be entered with the mutex held)
            run.note("C19-a: %s() is analysed inlined into its callers" % f0.name)
            continue
        f = inline.inlined(f0)
        run.saw(f0)
        accesses = []
        rets = []
        waits = []

        def transfer(record):
            def t(blk, held):
                for i, e in enumerate(blk.el):
                    # calls first in evaluation order
                    for n in walk(e, True):
                        k = n.get("k")
                        if k == "Call":
                            if n.get("fn") in LOCK:
                                held = frozenset([1])
                            elif n.get("fn") in UNLOCK:
                                held = frozenset([0])
                            elif n.get("fn") in ("platform_event_wait",) and record is not None:
                                waits.append((n, held))
                            elif n.get("fn") in ("memcpy", "get_slot") and record is not None:
                                accesses.append((n, "buffer slot (%s)" % n["fn"], held))
                        elif k == "Mem" and qfield(n) in mutable and record is not None:
                            accesses.append((n, qfield(n), held))
                        elif k == "Return" and record is not None:
                            rets.append((n, held))
                return held
            return t
        ins = solve(f, frozenset([0]), transfer(None), None, lambda a, b: a | b)
        tr = transfer(True)
        for bid in sorted(f.reachable(), reverse=True):
            if bid in ins:
                tr(f.blocks[bid], ins[bid])
        seen = {}
        for n, what, held in accesses:
            o = seen.get(what, 0)
            seen[what] = o + 1
            inst = "lock:%s:%s:%d" % (f.name, what.split(" ")[0] if what.startswith("buffer") else what, o)
            run.ob("C19-a", inst, held == frozenset([1]), "%s accessed with mutex state %s (1 = held on every path)" % (what, sorted(held)), f.file, n.get("l"), f.name,
                   what="%s touches queue->%s without holding the queue mutex on some path" % (f.name, what))
        bad = [n.get("l") for n, held in rets if 1 in held]
        run.ob("C19-a", "lock:%s:returns" % f.name, not bad, "no return while the mutex is held" if not bad else "return at line(s) %s with the mutex (possibly) held" % bad, f.file, f.line, f.name,
               what="%s returns with the queue mutex held" % f.name)
        for n, held in waits:
            run.ob("C19-a", "lock:%s:wait" % f.name, held == frozenset([0]), "blocking wait entered with the mutex released (%s)" % sorted(held), f.file, n.get("l"), f.name,
                   what="%s waits for space while holding the queue mutex (the reader can never make space)" % f.name)

    # ---- C19-b
    cg = callgraph.CallGraph(prog)
    roots = {"timer thread": ["timer_thread_func"], "worker thread": ["worker_thread_proc"]}
    backend_closure = cg.reachable_from(["main", "backend"], barriers={"timer_thread_func", "worker_thread_proc", "heartbeat_timer_callback", "console_worker_proc_posix"})
    glob = prog.globals()
    found = []
    for rname, rfs in roots.items():
        clos = cg.reachable_from(rfs)
        # functions only reachable from the thread root through callbacks are part of its closure
        for fname in sorted(clos):
            for f in cg.funcs.get(fname, []):
                held_any = any(True for _ in f.calls(LOCK)) or "lock" in " ".join(str(n.get("t")) for b, i, n in f.nodes() if n.get("k") in ("Construct", "Decl"))
                for b, i, n in f.nodes():
                    tgt = None
                    if n.get("k") == "Asg":
                        tgt = strip(n["L"])
                    elif n.get("k") == "Un" and n.get("op") in ("++", "--"):
                        tgt = strip(n["e"])
                    if tgt is None:
                        continue
                    if tgt.get("k") == "Ref" and tgt.get("d") in ("global", "static"):
                        found.append((rname, f, n, "global " + tgt["n"], tgt.get("t", ""), tgt["n"], None))
                    elif tgt.get("k") == "Mem" and strip(tgt["b"]).get("d") in ("param", "local") and tgt.get("rec") in ("async_worker_s",):
                        found.append((rname, f, n, "field %s.%s" % (tgt.get("rec"), tgt["f"]), tgt.get("t", ""), None, (tgt.get("rec"), tgt["f"])))
    seen_keys = set()
    for rname, f, n, what, typ, gname, fieldkey in found:
        key = (rname, what)
        if key in seen_keys:
            continue
        seen_keys.add(key)
        # accessed by the backend closure?
        readers = []
        for fname in backend_closure:
            for g in cg.funcs.get(fname, []):
                if g.name in ("timer_thread_func", "worker_thread_proc"):
                    continue
                for b2, i2, n2 in g.nodes():
                    if gname and n2.get("k") == "Ref" and n2.get("n") == gname and n2.get("d") in ("global", "static"):
                        readers.append(g.name)
                    if fieldkey and n2.get("k") == "Mem" and (n2.get("rec"), n2.get("f")) == fieldkey:
                        readers.append(g.name)
        readers = sorted(set(readers) - {f.name})
        if not readers:
            continue
        run.saw(f)
        decl_t = typ
        if gname and gname in glob:
            decl_t = glob[gname].get("t", typ)
        atomic = "atomic" in decl_t or "_Atomic" in decl_t
        if gname and gname in glob and glob[gname].get("tls"):
            continue  # thread-local storage: not shared
        inst = "shared:%s:%s" % (rname.replace(" ", "-"), what.replace(" ", ":"))
        run.ob("C19-b", inst, atomic, "%s (type `%s`) is written by the %s (%s) and accessed by the backend (%s)%s" % (what, decl_t, rname, f.name, ", ".join(readers[:4]), "" if atomic else " without atomics or a lock"),
               f.file, n.get("l"), f.name, what="%s is shared between the %s and the backend as a plain `%s`" % (what, rname, decl_t))

    # ---- C19-c
    ep = prog.unit("lib/async/async_runtime_epoll.c") if prog.has_unit("lib/async/async_runtime_epoll.c") else None
    if ep is None:
        run.need(False, "lib/async/async_runtime_epoll.c in the build")
    efuncs_raw = [f for f in ep.funcs.values() if f.file.endswith("async_runtime_epoll.c")]
    called_ep = {n.get("fn") for g in efuncs_raw for b, i, n in g.calls()}
    # file-local helpers are looked at inside the API functions that call them
    efuncs = [inline.inlined(f) for f in efuncs_raw if not (f.static and f.name in called_ep)]
    creates = [(f, n) for f in efuncs for b, i, n in f.calls("eventfd")]
    pipes = [(f, n) for f in efuncs for b, i, n in f.calls() if n.get("fn") in ("pipe", "pipe2")]
    run.need(creates or pipes, "creation of the wake-up channel (eventfd() or pipe())")
    # the field of the runtime record that holds the channel
    chan = "event_fd"
    if not creates:
        chan = sorted({x.get("f") for f, n in pipes for x in walk(n["args"][0]) if x.get("k") == "Mem"} or {"notify_pipe"})[0]
    sem = any(facts.any_in_macro(n["args"][1], "EFD_SEMAPHORE") for f, n in creates)
    for f in efuncs:
        for b, i, n in f.calls("write"):
            if chan not in show(n["args"][0]):
                continue
            if not creates:
                # a pipe keeps records apart as long as each record is one write() of at most PIPE_BUF bytes
                run.saw(f)
                sz = const_val(n["args"][2]) if len(n.get("args", [])) > 2 else None
                others = [n2 for b2, i2, n2 in f.calls("write") if n2 is not n and chan in show(n2["args"][0])]
                okp = sz is not None and 0 < sz <= 512 and not others
                run.ob("C19-c", "pipe-write:%s" % f.name, okp, "one write() of %s bytes per record into the notification pipe: atomic (<= PIPE_BUF), records of concurrent posters stay separate" % sz if okp else
                       "the record is not written by a single write() of a constant size <= PIPE_BUF (size %s, %d other write(s) in the function): records of concurrent posters can interleave" % (sz, len(others)),
                       f.file, n.get("l"), f.name, what="%s writes a notification record that concurrent posts can tear" % f.name)
                continue
            run.saw(f)
            # value written: &val -> val's initialiser / assignment
            a = strip(n["args"][1])
            if a.get("k") == "Un" and a.get("op") == "&":
                a = strip(a["e"])
            val = None
            for b2, i2, n2 in f.nodes():
                if n2.get("k") == "Decl":
                    for v in n2.get("vars", []):
                        if v.get("id") == a.get("id") and "init" in v:
                            val = v["init"]
            cv = const_val(val) if val is not None else None
            ok = sem or cv == 1
            run.ob("C19-c", "eventfd-write:%s" % f.name, ok, "writes %s to the eventfd counter%s" % (show(val) if val is not None else "?", "" if ok else " (not the constant 1; EFD_SEMAPHORE not set): two posts before the next read are added together"),
                   f.file, n.get("l"), f.name, what="%s encodes key/data in the eventfd counter: posts that pile up before the backend reads are merged into one event with a wrong key and data" % f.name)

    # reader side of the pipe: what a read() takes out of the pipe is gone, so it must all be delivered
    if not creates:
        nread = 0
        wsizes = {const_val(n["args"][2]) for f in efuncs for b, i, n in f.calls("write") if chan in show(n["args"][0]) and len(n.get("args", [])) > 2}
        for f in efuncs:
            for b, i, n in f.calls("read"):
                if chan not in show(n["args"][0]) or len(n.get("args", [])) < 3:
                    continue
                nread += 1
                run.saw(f)
                sz = const_val(n["args"][2])
                one = sz is not None and wsizes == {sz}
                # the room test: the read is control-dependent on `count < capacity`
                roomy = False
                c = f.branch_cond(b)
                # a guard says something about this read only if every way back to the read passes it again
                def fresh_guard(gb, b=b):
                    return f.reach_avoiding(b.live_succ(), lambda blk: blk.id == b.id, avoid_blocks=[gb]) is None
                live_guards = [(g, t, gb) for g, t, gb in cfgq.guards(f, b.id) if fresh_guard(gb)]
                conds = [g for g, t, gb in live_guards if t]
                if c is not None:
                    conds.append(c)
                for g in conds:
                    for x in walk(g):
                        if x.get("k") == "Bin" and x.get("op") in ("<", ">") and {strip(x["L"]).get("d"), strip(x["R"]).get("d")} & {"param"} and {strip(x["L"]).get("d"), strip(x["R"]).get("d")} & {"local"}:
                            roomy = True
                bounded = (not one) and any(x.get("k") == "Ref" and x.get("d") == "param" for x in walk(n["args"][2]))
                # every record taken is stored: from the success edge of the read, the loop cannot come back to the read (or leave)
                # without a store into the caller's events array
                stores = {b2.id for b2, i2, n2 in f.nodes() if n2.get("k") == "Asg" and strip(n2["L"]).get("k") == "Mem" and strip(strip(n2["L"])["b"]).get("k") == "Sub"
                          and strip(strip(strip(n2["L"])["b"])["b"]).get("d") == "param"}
                delivered = True
                if c is not None and stores:
                    e, t = normalize_cond(c, True)
                    succ_ok = b.succ[0] if t else b.succ[1]
                    if succ_ok is not None and succ_ok not in stores:
                        # a test repeated between the read and the store has the outcome it had before the read
                        # (nothing in between writes its operands): its other edge is not a path
                        region = cfgq.reach_set(f, [succ_ok], avoid_blocks=stores | {b.id})
                        written = set()
                        for rb in region:
                            if rb in stores:
                                continue
                            for e2 in f.blocks[rb].el:
                                for x in walk(e2):
                                    if x.get("k") == "Asg" and strip(x["L"]).get("k") == "Ref":
                                        written.add(strip(x["L"]).get("n"))
                                    if x.get("k") == "Un" and x.get("op") in ("++", "--") and strip(x["e"]).get("k") == "Ref":
                                        written.add(strip(x["e"]).get("n"))
                        held = {show(strip(g)): t for g, t, gb in live_guards}
                        cut = []
                        for rb in region:
                            c2 = f.branch_cond(rb)
                            if c2 is None or show(strip(c2)) not in held:
                                continue
                            if {x.get("n") for x in walk(c2) if x.get("k") == "Ref"} & written:
                                continue
                            blk2 = f.blocks[rb]
                            dead = blk2.succ[1] if held[show(strip(c2))] else blk2.succ[0]
                            if dead is not None:
                                cut.append((rb, dead))
                        p2 = f.reach_avoiding([succ_ok], lambda blk: blk.id == b.id or (f.exit in blk.live_succ()), avoid_blocks=stores, avoid_edges=cut)
                        delivered = p2 is None
                ok = (one and roomy and delivered) or (bounded and delivered)
                why = []
                if not one and not bounded:
                    why.append("one read() takes %s bytes, the writers post records of %s bytes: more records than the events array may have room for leave the pipe" % (sz if sz is not None else show(n["args"][2]), sorted(x for x in wsizes if x)))
                if one and not roomy:
                    why.append("the read is not conditional on room in the caller's events array")
                if not delivered:
                    why.append("a path from the successful read returns to the read (or leaves) without storing the record")
                run.ob("C19-c", "pipe-read:%s" % f.name, ok, "each read() takes one %s-byte record, only while the events array has room, and every record taken is stored" % sz if ok and one else
                       ("the read length is bounded by the room in the events array and every record taken is stored" if ok else "; ".join(why)),
                       f.file, n.get("l"), f.name, what="%s takes notification records out of the pipe that it cannot deliver: the completion is accepted (post returned 0) and never reaches the backend" % f.name)
        run.need(nread >= 1, "read() from the notification pipe (found %d)" % nread)

    # posting never blocks: the threads that post (timer, workers) are joined by the thread that reads the pipe, so a poster
    # asleep in write() on a full pipe and a reader waiting in join() for it would wait for each other
    if not creates:
        nb = False
        how = "the pipe is created without O_NONBLOCK and its write end is not switched to it afterwards"
        def flag_exprs(f, e):
            """the expression, and what a local in it was assigned"""
            out = [e]
            for y in walk(e):
                if y.get("k") == "Ref" and y.get("d") == "local" and y.get("id") is not None:
                    out += [n3["R"] for b3, i3, n3 in f.nodes() if n3.get("k") == "Asg" and strip(n3["L"]).get("id") == y["id"]]
                    out += [v["init"] for b3, i3, n3 in f.nodes() if n3.get("k") == "Decl" for v in n3.get("vars", ()) if v.get("id") == y["id"] and isinstance(v.get("init"), dict)]
            return out
        for f, n in pipes:
            if n.get("fn") == "pipe2" and len(n.get("args", [])) > 1 and any(facts.any_in_macro(x, "O_NONBLOCK") for x in flag_exprs(f, n["args"][1])):
                nb, how = True, "pipe2(.., O_NONBLOCK ..): both ends non-blocking"
        for f in efuncs_raw:
            for b, i, n in f.calls("fcntl"):
                a = n.get("args", [])
                if len(a) >= 3 and chan in show(a[0]) and const_val(strip(a[0]).get("i") if strip(a[0]).get("k") == "Sub" else None) == 1 and any(facts.any_in_macro(y, "O_NONBLOCK") for x in a[2:] for y in flag_exprs(f, x)):
                    nb, how = True, "fcntl(%s, F_SETFL, .. O_NONBLOCK)" % show(a[0])
        run.ob("C19-c", "pipe-write-nonblocking", nb, how, pipes[0][0].file, pipes[0][1].get("l"), pipes[0][0].name,
               what="a post into a full notification pipe blocks the posting thread; stopping the timer or a worker (which joins that thread from the only reader of the pipe) then never returns")

    # a completion that was accepted has been written: async_runtime_post_completion() answers 0 only behind a whole-record write
    if not creates:
        byn = {f.name: f for f in efuncs_raw}

        def success_edges(f):
            """edges on which a write() to the channel is known to have written the whole record"""
            res_ids = set()
            for b, i, n in f.nodes():
                r = None
                if n.get("k") == "Asg" and n.get("op") == "=":
                    r, l = strip(n["R"]), strip(n["L"])
                    if r.get("k") == "Call" and r.get("fn") == "write" and chan in show(r["args"][0]) and l.get("k") == "Ref":
                        res_ids.add(l.get("id"))
                if n.get("k") == "Decl":
                    for v in n.get("vars", ()):
                        r = strip(v.get("init")) if isinstance(v.get("init"), dict) else {}
                        if r.get("k") == "Call" and r.get("fn") == "write" and chan in show(r["args"][0]):
                            res_ids.add(v.get("id"))
            out = set()
            for bid in f.reachable():
                c = f.branch_cond(bid)
                if c is None:
                    continue
                for idx, truth in ((0, True), (1, False)):
                    op, l, r = atom_of(c, truth)
                    l0 = strip(l) if l is not None else {}
                    if op == "==" and r is not None and const_val(r) in wsizes and ((l0.get("k") == "Ref" and l0.get("id") in res_ids) or (l0.get("k") == "Call" and l0.get("fn") == "write")):
                        out.add((bid, f.blocks[bid].succ[idx]))
            return out, res_ids

        memo = {}

        def leaky(f, depth=0):
            """True: f can answer 0 although no whole record was written on that path; False: it cannot; None: not decided"""
            if f.name in memo:
                return memo[f.name]
            memo[f.name] = None
            succ, res_ids = success_edges(f)
            writes_here = any(n.get("fn") == "write" and chan in show(n["args"][0]) for b, i, n in f.calls())
            verdict = False
            for b, i, e in f.elements():
                if e.get("k") != "Return" or "e" not in e:
                    continue
                v = strip(e["e"])
                defs = [v]
                if v.get("k") == "Ref" and v.get("d") == "local":
                    defs = [strip(n["R"]) for b2, i2, n in f.nodes() if n.get("k") == "Asg" and n.get("op") == "=" and strip(n["L"]).get("id") == v.get("id")]
                    defs += [strip(x["init"]) for b2, i2, n in f.nodes() if n.get("k") == "Decl" for x in n.get("vars", ()) if x.get("id") == v.get("id") and isinstance(x.get("init"), dict)]
                for d in defs:
                    if const_val(d) is not None:
                        if const_val(d) == 0 and writes_here:
                            # answering 0: only behind a success edge
                            if f.reach_avoiding([f.entry], lambda blk, t=b.id: blk.id == t, avoid_edges=succ) is not None:
                                verdict = True
                        continue
                    if d.get("k") == "Cond":
                        # (n == size) ? 0 : -1
                        op, l, r = atom_of(d["c"], True)
                        l0 = strip(l) if l is not None else {}
                        is_succ = op == "==" and r is not None and const_val(r) in wsizes and l0.get("k") == "Ref" and l0.get("id") in res_ids
                        if is_succ and const_val(d["a"]) == 0 and const_val(d["b"]) not in (0, None):
                            continue
                        if const_val(d["a"]) not in (0, None) and const_val(d["b"]) not in (0, None):
                            continue
                        verdict = verdict or None
                        continue
                    if d.get("k") == "Call" and d.get("fn") in byn and depth < 3:
                        lk = leaky(byn[d["fn"]], depth + 1)
                        if lk:
                            verdict = True
                        elif lk is None and verdict is False:
                            verdict = None
                        continue
                    if verdict is False:
                        verdict = None
            memo[f.name] = verdict
            return verdict
        pc = byn.get("async_runtime_post_completion")
        run.need(pc, "async_runtime_post_completion")
        lk = leaky(pc)
        run.ob("C19-c", "accepted-is-written:async_runtime_post_completion", (lk is False) if lk is not None else None,
               "async_runtime_post_completion() answers 0 only behind a write() that returned the record size" if lk is False else
               ("a path answers 0 without the record having been written (directly or through %s): the completion is accepted and never delivered" % ", ".join(sorted(k for k, v in memo.items() if v and k != pc.name)) if lk else "the return value of the post is not in a form this rule reads"),
               pc.file, pc.line, pc.name, what="async_runtime_post_completion() reports success for a completion record it did not write (full pipe, interrupted write)")

    # ---- C19-d a variable a thread root writes is not also written by another thread once that thread exists
    run.rule("C19-d", "a non-atomic variable or field written by a thread root (timer thread, worker thread) is written by other threads only before the thread is created (the store precedes pthread_create in the same function) - two unsynchronised writers can overwrite each other's final value", 1)
    thread_side = {}
    for rname, rfs in roots.items():
        for fname in cg.reachable_from(rfs):
            thread_side[fname] = rname
    shared_keys = {}
    for rname, f, n, what, typ, gname, fieldkey in found:
        if gname and gname in glob and (glob[gname].get("tls") or "atomic" in (glob[gname].get("t") or "") or "_Atomic" in (glob[gname].get("t") or "")):
            continue
        shared_keys[(gname, fieldkey)] = (rname, what, f.name)
    nd = 0
    for (gname, fieldkey), (rname, what, wfn) in sorted(shared_keys.items(), key=lambda x: str(x)):
        # only variables some backend-side function touches at all
        sites = []
        for g in prog.functions():
            if g.name in thread_side:
                continue
            if g.name not in backend_closure and not fieldkey:
                continue
            for b2, i2, n2 in g.nodes():
                tgt = None
                if n2.get("k") == "Asg":
                    tgt = strip(n2["L"])
                elif n2.get("k") == "Un" and n2.get("op") in ("++", "--"):
                    tgt = strip(n2["e"])
                if tgt is None:
                    continue
                if gname and tgt.get("k") == "Ref" and tgt.get("n") == gname and tgt.get("d") in ("global", "static"):
                    sites.append((g, b2, i2, n2))
                if fieldkey and tgt.get("k") == "Mem" and (tgt.get("rec"), tgt.get("f")) == fieldkey:
                    sites.append((g, b2, i2, n2))
        ordn = {}
        for g, b2, i2, n2 in sorted(sites, key=lambda x: (x[0].name, x[3].get("l") or 0)):
            nd += 1
            run.saw(g)
            o = ordn.get(g.name, 0)
            ordn[g.name] = o + 1
            creates = [(b3, i3) for b3, i3, n3 in g.calls() if n3.get("fn") in ("pthread_create", "platform_thread_create", "CreateThread", "_beginthreadex")]
            before = bool(creates) and all(g.point_dominates((b2.id, i2), (cb3, ci3)) and not (cb3 in cfgq.reach_set(g, [b2.id]) and False) for cb3, ci3 in [(c[0].id, c[1]) for c in creates]) and not any(b2.id in cfgq.reach_set(g, g.blocks[c[0].id].live_succ()) or (b2.id == c[0].id and i2 > c[1]) for c in creates)
            alloc_phase = not creates and any(n3.get("fn") in ("calloc", "malloc") for b3, i3, n3 in g.calls()) and g.name.endswith(("_create", "_init"))
            inst = "two-writers:%s:%s:%d" % (what.replace(" ", ":"), g.name, o)
            ok = before or alloc_phase
            run.ob("C19-d", inst, ok, "%s is also stored by %s() at line %s %s" % (what, g.name, n2.get("l"), "before the thread is created (not yet shared)" if ok else "while the %s (%s) may be running and storing it too: whichever store lands last wins" % (rname, wfn)),
                   g.file, n2.get("l"), g.name, what="%s is written by %s() and by the %s without synchronisation" % (what, g.name, rname))
    run.extra["cross_thread_write_sites"] = nd

    # ---- C19-e a wake-up is never dropped: posting writes the eventfd, or the suppression flag is cleared by the drain
    run.rule("C19-e", "async_runtime_wakeup: every successful return passes the write to the eventfd; if a 'pending' flag lets it return without writing, that flag is cleared only where the eventfd has just been read (drained), so a wake-up posted between two waits cannot be swallowed", 1)
    wk = [f for f in efuncs if f.name == "async_runtime_wakeup"]
    run.need(wk, "async_runtime_wakeup")
    wk = wk[0]
    run.saw(wk)
    wcalls = [b.id for b, i, n in wk.calls("write") if n.get("args") and chan in show(n["args"][0])]
    run.need(wcalls, "write to the eventfd in async_runtime_wakeup")
    okrets = [b.id for b, i, n in wk.nodes() if n.get("k") == "Return" and n.get("e") is not None and not (const_val(n["e"]) is not None and const_val(n["e"]) < 0)]
    p = wk.reach_avoiding([wk.entry], lambda blk: blk.id in okrets, avoid_blocks=wcalls)
    if p is None:
        run.ob("C19-e", "wakeup-writes", True, "every non-error return of async_runtime_wakeup() passes the eventfd write", wk.file, wk.line, "async_runtime_wakeup")
    else:
        # which flags allow the bypass?
        flags = set()
        for bid in p:
            c = wk.branch_cond(bid)
            if c is None:
                continue
            for x in walk(c):
                if x.get("k") == "Mem" and x.get("f") not in ("event_fd", "epoll_fd", chan):
                    flags.add(x.get("f"))
        bad = []
        for f in efuncs:
            reads = [(b.id, i) for b, i, n in f.calls("read") if n.get("args") and chan in show(n["args"][0])]
            for b, i, n in f.nodes():
                clear = None
                if n.get("k") == "Call" and n.get("fn") in ("atomic_store", "atomic_store_explicit", "__c11_atomic_store", "atomic_exchange", "__c11_atomic_exchange") and len(n.get("args", [])) >= 2 and const_val(n["args"][1]) == 0:
                    clear = {x.get("f") for x in walk(n["args"][0]) if x.get("k") == "Mem"}
                elif n.get("k") == "Asg" and n.get("op") == "=" and strip(n["L"]).get("k") == "Mem" and const_val(n["R"]) == 0:
                    clear = {strip(n["L"]).get("f")}
                if clear and clear & flags:
                    if f.name == "async_runtime_wakeup":
                        continue   # undoing its own set after a failed write
                    if not any(f.point_dominates(r, (b.id, i)) for r in reads):
                        bad.append("%s() line %s clears %s without having drained the eventfd" % (f.name, n.get("l"), sorted(clear & flags)))
        run.ob("C19-e", "wakeup-writes", bool(flags) and not bad, "async_runtime_wakeup() may skip the write under %s; the flag is cleared only after the eventfd was read" % sorted(flags) if flags and not bad else
               "async_runtime_wakeup() can return success without writing the eventfd (path %s) and %s" % (p[:6], "; ".join(bad) if bad else "no flag protocol was recognised"), wk.file, wk.line, "async_runtime_wakeup",
               what="a wake-up can be reported as posted without reaching the eventfd while the loop has already consumed the earlier one: the backend sleeps through it (%s)" % ("; ".join(bad) if bad else "unconditional bypass"))

    # ---- C19-f the ring cursors of the queue wrap at the capacity
    run.rule("C19-f", "async_queue: head and tail advance modulo the capacity the ring was allocated with - `(x + 1) % capacity` (or a reset to 0 at the capacity); a wrap by `& mask` visits every slot only for a power of two, so it needs a test of the capacity (`capacity & (capacity - 1)`) in the function that creates the queue. Otherwise accepted messages are overwritten unread and others delivered twice, with the drop counter saying nothing", 3)
    nf_ = 0
    pow2_checked = any(any(y.get("k") == "Bin" and y.get("op") == "&" and any(z.get("k") == "Bin" and z.get("op") == "-" and const_val(z["R"]) == 1 for z in walk(y)) for y in walk(c))
                       for f in qfuncs if f.name == "async_queue_create" for bid in f.reachable() for c in [f.branch_cond(f.blocks[bid])] if c is not None)
    for f in sorted(qfuncs, key=lambda x: x.line):
        for j, (b, i, n) in enumerate([x for x in f.nodes() if x[2].get("k") == "Asg" and strip(x[2]["L"]).get("k") == "Mem" and strip(x[2]["L"]).get("f") in ("head", "tail") and strip(x[2]["L"]).get("rec") in QREC]):
            r = strip(n["R"])
            if const_val(r) == 0 and n.get("op") == "=":
                continue
            nf_ += 1
            run.saw(f)
            if n.get("op") == "=" and r.get("k") == "Bin" and r.get("op") == "%" and any(y.get("k") == "Mem" and y.get("f") == "capacity" for y in walk(r["R"])):
                ok, why = True, "`%s` wraps at the capacity" % show(n)[:60]
            elif n.get("op") == "=" and r.get("k") == "Bin" and r.get("op") == "&":
                ok = pow2_checked
                why = "`%s`: the mask wraps at the capacity because async_queue_create() tests it for a power of two" % show(n)[:60] if ok else \
                    "`%s` (line %s) wraps with a mask, and async_queue_create() accepts any capacity: for one that is not a power of two the cursor skips slots - accepted messages are overwritten unread, others are handed over twice" % (show(n)[:60], n.get("l"))
            else:
                ok, why = None, "`%s` (line %s): a cursor update this rule does not read" % (show(n)[:60], n.get("l"))
            run.ob("C19-f", "wrap:%s:%s:%d" % (f.name, strip(n["L"]).get("f"), j), ok, why, f.file, n.get("l"), f.name, what="%s advances a queue cursor without wrapping at the capacity" % f.name)
    # the same written as an increment with a reset: `if (++q->tail == q->capacity) q->tail = 0;`
    for f in sorted(qfuncs, key=lambda x: x.line):
        for j, (b, i, n) in enumerate([x for x in f.nodes() if x[2].get("k") == "Un" and x[2].get("op") in ("++",) and strip(x[2]["e"]).get("k") == "Mem" and strip(x[2]["e"]).get("f") in ("head", "tail") and strip(x[2]["e"]).get("rec") in QREC]):
            fld_ = strip(n["e"]).get("f")
            nf_ += 1
            run.saw(f)
            reset = False
            for b2, i2, n2 in f.nodes():
                if n2.get("k") == "Asg" and n2.get("op") == "=" and strip(n2["L"]).get("k") == "Mem" and strip(n2["L"]).get("f") == fld_ and const_val(n2["R"]) == 0:
                    for c, t, B in cfgq.guards(f, b2.id):
                        op, l, r = atom_of(c, t)
                        if r is not None and op in ("==", ">=") and any(y.get("k") == "Mem" and y.get("f") == fld_ for y in walk(l)) and any(y.get("k") == "Mem" and y.get("f") == "capacity" for y in walk(r)) \
                                and (b2.id in cfgq.reach_set(f, [b.id]) or b2.id == b.id):
                            reset = True
            run.ob("C19-f", "wrap:%s:%s:inc%d" % (f.name, fld_, j), reset, "`%s` is followed by a reset to 0 when it reaches the capacity" % show(n)[:40] if reset else
                   "`%s` (line %s) is not followed by a reset to 0 at the capacity: the cursor runs off the ring" % (show(n)[:40], n.get("l")), f.file, n.get("l"), f.name, what="%s advances a queue cursor without wrapping at the capacity" % f.name)
    run.need(nf_ >= 3, "cursor updates of the queue (found %d)" % nf_)
